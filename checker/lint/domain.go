package lint

import (
	"fmt"
	"go/token"
	"go/types"
	"sort"
	"strings"

	"ikeverif/checker/xt/ssa"
)

// Totality on the property's domain (E4 + E1).
//
// A derivation property ("for all nonces of 1..512 octets ... the keys equal ...") also says that the
// function delivers keys on that whole domain. The structural part: every exit of the function that
// reports failure (a non-nil error, or a nil result the caller turns into an error) must be unreachable
// for in-domain arguments. An exit is unreachable when, on every path to it, some branch edge is refuted
// by the domain:
//   nil edge of `v == nil`     v is a value the domain guarantees present, or the result of a registry
//                              lookup whose miss is outside the domain, or the result of a module
//                              function whose own nil returns are unreachable;
//   non-nil edge of `err != nil`  err comes from a callee that cannot fail on the domain: an external
//                              callee of the frozen table, or a module callee (all closed-world
//                              implementers) whose own failure exits are unreachable;
//   integer comparison         refuted by linear arithmetic from the domain's length intervals and the
//                              guards dominating the branch.
// Anything else is reported: an error exit that in-domain inputs can take.

type domSpec struct {
	LenDom   map[string][2]int64 // value path (parameter or parameter.field) -> inclusive interval of its length
	NonNil   map[string]bool     // value paths the domain guarantees non-nil
	IsNil    map[string]bool     // value paths the domain guarantees nil (no SA keys: the plain mode of the protect entry points)
	IntDom   map[string][2]int64 // integer parameter -> inclusive interval of its value
	FieldLen map[string][2]int64 // Struct.Field (by type, whatever the access path) -> interval of its length
	// FieldLenBase, if set, restricts FieldLen to loads from objects it accepts (the object a datagram was
	// decoded into, as opposed to one a later step returned)
	FieldLenBase func(base ssa.Value) bool
	renamed      bool                // parameter names already aligned with the function's current ones
	FieldInt     map[string][2]int64 // Struct.Field -> interval of its integer value
	Fits         bool                // "the value fits its wire field": a test X > 2^(8n)-1 (n = 1, 2, 4) is outside the domain
	CallVals     map[string][]int64  // method name -> the values its result takes on the domain (e.g. Type() of the one payload kind in scope)
	LookupOK     map[string]string   // callee -> why a nil result is outside the domain
	EnvErr       map[string]string   // callee (full name, or "method:<name>") -> why its failure is outside the domain or decided elsewhere
	Rel          func(f *FA) []Fact  // further (relational) facts of the domain, built on the function's own values
	// Delegated, if set, names a branch condition whose failing side another rule of the same property decides
	// (the length test of a stream whose round count a shape rule checks)
	Delegated func(f *FA, cond ssa.Value) (bool, string)
	// ExactLenField: the domain guarantees len(parameter i) == receiver.<field> (justified by the named rule)
	ExactLenParam int
	ExactLenField string
	ExactLenWhy   string
	// TreePresent, if set, says why a value of the given type that is read from memory (a field, a list
	// element) is never nil on the domain ("" if it may be): the nodes of a message of the encodable domain
	TreePresent func(t types.Type) string
}

// domExternalNeverFails: external callees whose error result is nil for every in-domain argument.
var domExternalNeverFails = map[string]string{
	"iface:hash.Hash.Write":     "hash.Hash.Write never returns an error (package hash documentation)",
	"crypto/aes.NewCipher":      "fails only for key sizes other than 16, 24, 32; the size guard before it pins len(key) to the descriptor's key length, which the registry-length rule pins to the RFC table",
	"iface:io.Writer.Write":     "hash.Hash embeds io.Writer; its Write never returns an error",
	"(*crypto/hmac.hmac).Write": "hash Write never returns an error",
}

// domExternalNonNil: external constructors whose (first) result is never nil when they report no error.
var domExternalNonNil = map[string]string{
	"crypto/aes.NewCipher":          "aes.NewCipher returns a cipher.Block or an error, never (nil, nil)",
	"crypto/hmac.New":               "hmac.New always returns a hash object",
	"crypto/cipher.NewCBCEncrypter": "returns a BlockMode or panics",
	"crypto/cipher.NewCBCDecrypter": "returns a BlockMode or panics",
	"crypto/sha256.New":             "always returns a hash object",
	"crypto/sha1.New":               "always returns a hash object",
	"crypto/md5.New":                "always returns a hash object",
}

// domExternalEnv: external callees that fail only when the environment (the random source) fails.
var domExternalEnv = map[string]string{
	"io.ReadFull":      "fails only when the reader fails or ends; the readers reached are crypto/rand (C10 IV rule); the random source is assumed to work",
	"crypto/rand.Read": "fails only when the system random source fails",
	"crypto/rand.Int":  "fails only when the system random source fails",
}

// domBoolTrueOnDomain: external predicates that hold for every in-domain input.
var domBoolTrueOnDomain = map[string]string{
	"crypto/hmac.Equal": "a genuine message carries the checksum its sender computed over the same octets under the same key (decided by the mac-span and key-direction rules)",
}

type domAn struct {
	c     *Ctx
	specs map[*ssa.Function]*domSpec
	memo  map[string]domVerdict
	stack map[string]bool
	calls []string // callee summaries used
}

type domVerdict struct {
	ok  bool
	why string
}

func (d *domAn) specOf(fn *ssa.Function) *domSpec {
	if s, ok := d.specs[fn]; ok {
		if !s.renamed {
			s.renamed = true
			s.renameParams(d.c, fn)
		}
		return s
	}
	return &domSpec{ExactLenParam: -1}
}

// pinnedParamNames: the parameter names (receiver first) the domain tables below were written with. A domain
// entry is keyed by a parameter's name ("ikeSA.Prf_d"); when a parameter has been renamed since, the entry
// follows it by position.
var pinnedParamNames = map[string][]string{
	"GenerateKeyForIKESA":   {"ikesaKey", "concatenatedNonce", "diffieHellmanSharedKey", "initiatorSPI", "responderSPI"},
	"NewIKESAKey":           {"proposal", "keyExchangeData", "concatenatedNonce", "initiatorSPI", "responderSPI"},
	"GenerateKeyForChildSA": {"childsaKey", "ikeSA", "concatenatedNonce"},
	"EncodeEncrypt":         {"ikeMsg", "ikesaKey", "role"},
	"encryptMsg":            {"ikeMsg", "ikesaKey", "role"},
	"DecodeDecrypt":         {"msg", "ikeHeader", "ikesaKey", "role"},
	"decryptMsg":            {"msg", "ikeMsg", "ikesaKey", "role"},
	"verifyIntegrity":       {"originData", "checksum", "ikesaKey", "role"},
	"calculateIntegrity":    {"ikesaKey", "role", "originData"},
	"encryptPayload":        {"plainText", "ikesaKey", "role"},
	"decryptPayload":        {"cipherText", "ikesaKey", "role"},
	"CalcEapAkaPrimeAtMAC":  {"eap", "key"},
	"setAttr":               {"attr", "attrType", "value"},
	"SetAttr":               {"eapAkaPrime", "attrType", "value"},
}

func (s *domSpec) renameParams(c *Ctx, fn *ssa.Function) {
	name := fn.Name()
	if role, ok := c.anchorRoleOf(fn); ok {
		name = role
	}
	pinned, ok := pinnedParamNames[name]
	if !ok || len(pinned) != len(fn.Params) {
		return
	}
	ren := map[string]string{}
	for i, p := range fn.Params {
		if p.Name() != pinned[i] {
			ren[pinned[i]] = p.Name()
		}
	}
	if len(ren) == 0 {
		return
	}
	rekey := func(k string) string {
		head, rest := k, ""
		if i := strings.Index(k, "."); i >= 0 {
			head, rest = k[:i], k[i:]
		}
		if n, ok := ren[head]; ok {
			return n + rest
		}
		return k
	}
	if s.NonNil != nil {
		m := map[string]bool{}
		for k, v := range s.NonNil {
			m[rekey(k)] = v
		}
		s.NonNil = m
	}
	if s.LenDom != nil {
		m := map[string][2]int64{}
		for k, v := range s.LenDom {
			m[rekey(k)] = v
		}
		s.LenDom = m
	}
	if s.IntDom != nil {
		m := map[string][2]int64{}
		for k, v := range s.IntDom {
			m[rekey(k)] = v
		}
		s.IntDom = m
	}
}

func (s *domSpec) sig() string {
	var parts []string
	for k, v := range s.LenDom {
		parts = append(parts, fmt.Sprintf("len(%s)=%d..%d", k, v[0], v[1]))
	}
	for k, v := range s.IntDom {
		parts = append(parts, fmt.Sprintf("%s=%d..%d", k, v[0], v[1]))
	}
	for k := range s.NonNil {
		parts = append(parts, k+"!=nil")
	}
	for k, v := range s.FieldInt {
		parts = append(parts, fmt.Sprintf("%s=%d..%d", k, v[0], v[1]))
	}
	for k, v := range s.FieldLen {
		parts = append(parts, fmt.Sprintf("len(%s)=%d..%d", k, v[0], v[1]))
	}
	sort.Strings(parts)
	return strings.Join(parts, ",")
}

func (s *domSpec) envWhy(m *ssa.Function) (string, bool) {
	if why, ok := s.EnvErr[m.String()]; ok {
		return why, true
	}
	if why, ok := s.EnvErr["method:"+m.Name()]; ok && m.Signature.Recv() != nil {
		return why, true
	}
	return "", false
}

// valuePath names a value by parameter and field path ("ikesaKey.EncrInfo"), or "".
func valuePath(fn *ssa.Function, v ssa.Value) string {
	for i := 0; i < 6; i++ {
		switch x := v.(type) {
		case *ssa.Parameter:
			return x.Name()
		case *ssa.ChangeType:
			v = x.X
			continue
		}
		break
	}
	if base, fld, ok := fieldLoad(v); ok {
		p := valuePath(fn, base)
		if p == "" {
			return ""
		}
		return p + "." + fld
	}
	return ""
}

// storedInto resolves a load of a field of a function-local allocation to the single value stored there.
func storedInto(fn *ssa.Function, v ssa.Value) ssa.Value {
	u, ok := v.(*ssa.UnOp)
	if !ok || u.Op != token.MUL {
		return nil
	}
	fa, ok := u.X.(*ssa.FieldAddr)
	if !ok {
		return nil
	}
	if _, ok := fa.X.(*ssa.Alloc); !ok {
		return nil
	}
	var val ssa.Value
	n := 0
	for _, b := range fn.Blocks {
		for _, ins := range b.Instrs {
			st, ok := ins.(*ssa.Store)
			if !ok {
				continue
			}
			fa2, ok := st.Addr.(*ssa.FieldAddr)
			if ok && fa2.X == fa.X && fa2.Field == fa.Field {
				n++
				val = st.Val
			}
		}
	}
	if n == 1 {
		return val
	}
	return nil
}

func callOf(v ssa.Value) *ssa.Call {
	switch x := v.(type) {
	case *ssa.Call:
		return x
	case *ssa.Extract:
		if c, ok := x.Tuple.(*ssa.Call); ok {
			return c
		}
	}
	return nil
}

func (d *domAn) domFacts(f *FA, spec *domSpec) []Fact {
	fn := f.Fn
	var out []Fact
	add := func(v ssa.Value) {
		if _, ok := v.Type().Underlying().(*types.Slice); !ok {
			if bt, isB := v.Type().Underlying().(*types.Basic); !isB || bt.Info()&types.IsString == 0 {
				return
			}
		}
		p := valuePath(fn, v)
		iv, ok := spec.LenDom[p]
		if !ok {
			return
		}
		l := f.SliceLen(v)
		out = append(out, Fact{L: l.add(konst(iv[0]), -1)})
		if iv[1] < INF {
			out = append(out, Fact{L: konst(iv[1]).add(l, -1)})
		}
	}
	for _, p := range fn.Params {
		add(p)
		if iv, ok := spec.IntDom[p.Name()]; ok {
			if _, _, isInt := f.typeRange(p.Type()); isInt {
				l := f.LFOf(p)
				out = append(out, Fact{L: l.add(konst(iv[0]), -1)}, Fact{L: konst(iv[1]).add(l, -1)})
			}
		}
	}
	for _, b := range fn.Blocks {
		for _, ins := range b.Instrs {
			if v, ok := ins.(ssa.Value); ok {
				add(v)
				if fk, isF := fieldKeyOfLoad(v); isF {
					if iv, ok := spec.FieldLen[fk]; ok && (spec.FieldLenBase == nil || fieldLenBaseOK(spec, v)) {
						l := f.SliceLen(v)
						out = append(out, Fact{L: l.add(konst(iv[0]), -1)})
						if iv[1] < INF {
							out = append(out, Fact{L: konst(iv[1]).add(l, -1)})
						}
					}
					if iv, ok := spec.FieldInt[fk]; ok {
						if _, _, isInt := f.typeRange(v.Type()); isInt {
							l := f.LFOf(v)
							out = append(out, Fact{L: l.add(konst(iv[0]), -1)}, Fact{L: konst(iv[1]).add(l, -1)})
						}
					}
				}
			}
		}
	}
	if spec.ExactLenParam >= 0 && spec.ExactLenParam < len(fn.Params) && len(fn.Params) > 0 {
		key := fn.Params[spec.ExactLenParam]
		for _, b := range fn.Blocks {
			for _, ins := range b.Instrs {
				v, ok := ins.(ssa.Value)
				if !ok {
					continue
				}
				base, fld, ok := fieldLoad(v)
				if ok && fld == spec.ExactLenField && paramIndex(fn, base) == 0 {
					dlt := f.SliceLen(key).add(f.LFOf(v), -1)
					out = append(out, Fact{L: dlt}, Fact{L: dlt.scale(-1)})
				}
			}
		}
	}
	if spec.Rel != nil {
		out = append(out, spec.Rel(f)...)
	}
	// q = a / d with a divisor that is not a constant but at least m >= 1 (a hash size), and a dividend the
	// domain keeps non-negative: m*q <= a
	for _, b := range fn.Blocks {
		for _, ins := range b.Instrs {
			bo, ok := ins.(*ssa.BinOp)
			if !ok || bo.Op != token.QUO {
				continue
			}
			if _, _, isInt := f.typeRange(bo.Type()); !isInt {
				continue
			}
			k := f.LFOf(bo.Y)
			if k.isConst() {
				continue
			}
			m, _ := f.bounds(k, nil)
			if m < 1 || m > 1<<16 {
				continue
			}
			a := f.LFOf(bo.X)
			if nonneg, _ := f.Prove(a, out); nonneg {
				q := f.LFOf(bo)
				out = append(out, Fact{L: a.add(q, -m)}, Fact{L: q})
				if _, hi := f.bounds(a, f.refine(out)); hi < INF {
					out = append(out, Fact{L: konst(hi / m).add(q, -1)})
				}
			}
		}
	}
	return out
}

// factRefuted: the facts contradict g.
func fieldLenBaseOK(spec *domSpec, v ssa.Value) bool {
	base, _, ok := fieldLoad(v)
	return ok && spec.FieldLenBase(base)
}

func factRefuted(f *FA, g Fact, facts []Fact) bool {
	if g.NE {
		a, _ := f.Prove(g.L, facts)
		b, _ := f.Prove(g.L.scale(-1), facts)
		return a && b
	}
	ok, _ := f.Prove(g.L.scale(-1).add(konst(1), -1), facts)
	return ok
}

// calleeSpec derives the domain of a callee at a call site: the callee's own table entry, plus what the
// call site fixes (constant integer arguments, byte-slice arguments of constant or in-domain length,
// arguments the caller's domain guarantees non-nil).
func (d *domAn) calleeSpec(x *domFn, call *ssa.Call, m *ssa.Function) *domSpec {
	base := d.specOf(m)
	ns := &domSpec{ExactLenParam: base.ExactLenParam, ExactLenField: base.ExactLenField, ExactLenWhy: base.ExactLenWhy,
		LenDom: map[string][2]int64{}, IntDom: map[string][2]int64{}, NonNil: map[string]bool{}, CallVals: base.CallVals, LookupOK: base.LookupOK, EnvErr: base.EnvErr, Rel: base.Rel,
		FieldLen: x.spec.FieldLen, FieldInt: x.spec.FieldInt, Fits: x.spec.Fits || base.Fits, TreePresent: x.spec.TreePresent}
	if base.TreePresent != nil {
		ns.TreePresent = base.TreePresent
	}
	for k, v := range base.LenDom {
		ns.LenDom[k] = v
	}
	for k, v := range base.IntDom {
		ns.IntDom[k] = v
	}
	for k, v := range base.NonNil {
		ns.NonNil[k] = v
	}
	args := call.Call.Args
	params := m.Params
	if call.Call.IsInvoke() {
		if len(params) == 0 {
			return ns
		}
		params = params[1:]
	}
	facts := append(append([]Fact{}, x.facts...), x.f.FactsAt(call.Block())...)
	env := x.f.refine(facts)
	for i, a := range args {
		if i >= len(params) {
			break
		}
		pn := params[i].Name()
		if _, _, isInt := x.f.typeRange(a.Type()); isInt {
			lo, hi := x.f.bounds(x.f.LFOf(a), env)
			if tlo, thi, ok := x.f.typeRange(a.Type()); ok && (lo > tlo || hi < thi) {
				if _, had := ns.IntDom[pn]; !had {
					ns.IntDom[pn] = [2]int64{lo, hi}
				}
			}
			continue
		}
		if _, ok := a.Type().Underlying().(*types.Slice); ok {
			lo, hi := x.f.bounds(x.f.SliceLen(a), env)
			if (lo > 0 || hi < x.f.maxLen) && hi < INF {
				if _, had := ns.LenDom[pn]; !had {
					ns.LenDom[pn] = [2]int64{lo, hi}
				}
			} else if lo > 0 {
				if _, had := ns.LenDom[pn]; !had {
					ns.LenDom[pn] = [2]int64{lo, INF}
				}
			}
			continue
		}
		if p := valuePath(x.f.Fn, a); p != "" && x.spec.NonNil[p] {
			ns.NonNil[pn] = true
			// fields of a parameter the caller's domain guarantees are guaranteed in the callee as well
			for k := range x.spec.NonNil {
				if strings.HasPrefix(k, p+".") {
					ns.NonNil[pn+strings.TrimPrefix(k, p)] = true
				}
			}
		}
	}
	if !call.Call.IsInvoke() && m.Signature.Recv() != nil && len(args) > 0 {
		// receiver is args[0] for static method calls: handled by the loop above through params[0]
	}
	return ns
}

// calleesCannotFail: the error (kind "error") / nil result (kind "nil", result idx) of this call is
// impossible on the domain.
func (d *domAn) calleesCannotFail(x *domFn, call *ssa.Call, kind string, idx int) (bool, string) {
	cs := d.c.CalleesAt(call)
	if cs.Dynamic {
		return false, "a dynamic call"
	}
	var whys []string
	for _, e := range cs.External {
		if kind == "nil" {
			if why, ok := domExternalNonNil[e]; ok {
				whys = appendUniq(whys, why)
				continue
			}
			return false, "nil result of external callee " + e
		}
		if why, ok := domExternalNeverFails[e]; ok {
			whys = append(whys, e+": "+why)
			continue
		}
		if why, ok := domExternalEnv[e]; ok {
			whys = append(whys, e+": "+why)
			continue
		}
		return false, "error of external callee " + e + " (not in the never-fails table)"
	}
	for _, m := range cs.Mod {
		if kind == "nil" {
			if why, ok := x.spec.LookupOK[m.String()]; ok {
				whys = append(whys, why)
				continue
			}
		}
		if why, ok := x.spec.envWhy(m); ok {
			whys = append(whys, d.c.FuncName(m)+": "+why)
			continue
		}
		vd := d.failureUnreachable(m, d.calleeSpec(x, call, m), kind, idx)
		if !vd.ok {
			return false, "callee " + d.c.FuncName(m) + " can fail: " + vd.why
		}
		whys = append(whys, d.c.FuncName(m)+" has no reachable failure exit")
	}
	if len(whys) == 0 {
		return false, "callee does not resolve"
	}
	return true, strings.Join(whys, "; ")
}

// errAlwaysNil: the error value v is nil for every in-domain input (v is nil, wraps such a value, or is
// the result of a call that cannot fail on the domain).
func (d *domAn) errAlwaysNil(x *domFn, v ssa.Value, depth int) (bool, string) {
	if isNilConst(v) {
		return true, "nil"
	}
	if depth > 4 {
		return false, ""
	}
	if call, ok := v.(*ssa.Call); ok {
		if cal := call.Call.StaticCallee(); cal != nil {
			switch cal.String() {
			case "github.com/pkg/errors.Wrapf", "github.com/pkg/errors.Wrap", "github.com/pkg/errors.WithMessage", "github.com/pkg/errors.WithMessagef", "github.com/pkg/errors.WithStack":
				return d.errAlwaysNil(x, call.Call.Args[0], depth+1)
			case "github.com/pkg/errors.Errorf", "github.com/pkg/errors.New", "errors.New", "fmt.Errorf":
				return false, ""
			}
		}
	}
	if call := callOf(v); call != nil && isErrorType(v.Type()) {
		return d.calleesCannotFail(x, call, "error", -1)
	}
	if phi, ok := v.(*ssa.Phi); ok {
		var whys []string
		for i, e := range phi.Edges {
			if ok, _ := x.edgeInfeasible(phi.Block().Preds[i], phi.Block()); ok {
				continue
			}
			ok, why := d.errAlwaysNil(x, e, depth+1)
			if !ok {
				return false, ""
			}
			whys = appendUniq(whys, why)
		}
		return true, strings.Join(whys, "; ")
	}
	return false, ""
}

func (d *domAn) guardRefuted(x *domFn, p *ssa.BasicBlock, succ int) (bool, string) {
	f, spec, facts := x.f, x.spec, x.facts
	iff, ok := p.Instrs[len(p.Instrs)-1].(*ssa.If)
	if !ok || p.Succs[0] == p.Succs[1] {
		return false, ""
	}
	taken := succ == 0
	cond := iff.Cond
	for {
		u, ok := cond.(*ssa.UnOp)
		if !ok || u.Op != token.NOT {
			break
		}
		cond = u.X
		taken = !taken
	}
	if call, ok := cond.(*ssa.Call); ok {
		if cal := call.Call.StaticCallee(); cal != nil {
			if why, ok := domBoolTrueOnDomain[cal.String()]; ok {
				if !taken {
					return true, cal.String() + " holds on the domain: " + why
				}
				return false, cal.String() + " holds on the domain"
			}
		}
		return false, "branch on the result of " + call.Call.Value.String()
	}
	if ex, ok := cond.(*ssa.Extract); ok && ex.Index == 1 {
		if ta, ok := ex.Tuple.(*ssa.TypeAssert); ok && ta.CommaOk {
			if implied, why := d.c.assertImplied(f, ta); implied {
				if !taken {
					return true, "the checked type assertion always succeeds: " + why
				}
				return false, "the checked type assertion always succeeds"
			}
		}
	}
	bo, ok := cond.(*ssa.BinOp)
	if !ok {
		return false, "branch on " + cond.String()
	}
	fn := f.Fn
	text := d.c.SrcExpr(bo)
	if text == "" {
		text = bo.String()
	}
	if (bo.Op == token.EQL || bo.Op == token.NEQ) && (isNilConst(bo.X) || isNilConst(bo.Y)) {
		v := bo.X
		if isNilConst(v) {
			v = bo.Y
		}
		nilEdge := (bo.Op == token.EQL) == taken
		if nilEdge {
			if isErrorType(v.Type()) {
				return false, "the no-error edge of " + text
			}
			if spec.TreePresent != nil {
				// a node of the message tree read from memory (a field or a list element): present on the domain
				if ld, ok := v.(*ssa.UnOp); ok && ld.Op == token.MUL {
					if why := spec.TreePresent(v.Type()); why != "" {
						return true, text + ": " + why
					}
				}
				// the object behind a type assertion on such a node
				var ta *ssa.TypeAssert
				if ex, ok := v.(*ssa.Extract); ok && ex.Index == 0 {
					ta, _ = ex.Tuple.(*ssa.TypeAssert)
				} else {
					ta, _ = v.(*ssa.TypeAssert)
				}
				if ta != nil {
					if ld, ok := ta.X.(*ssa.UnOp); ok && ld.Op == token.MUL {
						if why := spec.TreePresent(v.Type()); why != "" {
							return true, text + ": " + why
						}
					}
				}
			}
			if p := valuePath(fn, v); p != "" {
				if spec.NonNil[p] {
					return true, p + " is present on the domain"
				}
				return false, p + " may be nil on the domain"
			}
			if ph, ok := v.(*ssa.Phi); ok {
				// a selection among objects that are all present on the domain (Integ_i / Integ_r picked by role)
				all, n := true, 0
				var names []string
				for i, e := range ph.Edges {
					if inf, _ := x.edgeInfeasible(ph.Block().Preds[i], ph.Block()); inf {
						continue
					}
					n++
					if pe := valuePath(fn, e); pe != "" && spec.NonNil[pe] {
						names = appendUniq(names, pe)
						continue
					}
					all = false
				}
				if all && n > 0 {
					return true, strings.Join(names, " / ") + " are present on the domain"
				}
				if ok2, why := d.loopPhiNonNil(x, ph); ok2 {
					return true, why
				}
			}
			src := v
			if s := storedInto(fn, v); s != nil {
				src = s
			}
			if call := callOf(src); call != nil {
				idx := 0
				if ex, ok := src.(*ssa.Extract); ok {
					idx = ex.Index
				}
				ok, why := d.calleesCannotFail(x, call, "nil", idx)
				if !ok {
					return false, "nil result is reachable: " + why
				}
				return true, why
			}
			return false, "nil test of " + text
		}
		// non-nil edge
		if !isErrorType(v.Type()) {
			if p := valuePath(fn, v); p != "" && spec.IsNil[p] {
				return true, p + " is nil on the domain"
			}
			return false, "the non-nil edge of " + text
		}
		ok, why := d.errAlwaysNil(x, v, 0)
		if !ok {
			if why == "" {
				why = "the error value is not shown to be nil on the domain"
			}
			return false, why
		}
		return true, why
	}
	// comparison of a method result the standard library's documentation pins (cipher.Block from crypto/aes has block size 16)
	if bo.Op == token.EQL || bo.Op == token.NEQ {
		for _, pr := range [][2]ssa.Value{{bo.X, bo.Y}, {bo.Y, bo.X}} {
			call, ok := pr[0].(*ssa.Call)
			k, ok2 := pr[1].(*ssa.Const)
			if !ok || !ok2 || k.Value == nil || !call.Call.IsInvoke() {
				continue
			}
			kv, isInt := constInt64(k.Value)
			if !isInt {
				continue
			}
			recv := call.Call.Value
			if s := storedInto(fn, recv); s != nil {
				recv = s
			}
			src := callOf(recv)
			if src == nil {
				continue
			}
			cal := src.Call.StaticCallee()
			if cal == nil {
				continue
			}
			want, ok := libResultContracts[cal.String()+"."+call.Call.Method.Name()]
			if !ok {
				continue
			}
			eqEdge := (bo.Op == token.EQL) == taken
			if eqEdge == (kv != want) {
				return true, fmt.Sprintf("%s() of the value returned by %s is %d by the library's documented contract", call.Call.Method.Name(), cal.String(), want)
			}
			return false, "`" + text + "` is fixed by the library's documented contract"
		}
	}
	// comparison of a method result the domain pins (e.g. Type() of the only payload kind in scope)
	if bo.Op == token.EQL || bo.Op == token.NEQ {
		for _, pr := range [][2]ssa.Value{{bo.X, bo.Y}, {bo.Y, bo.X}} {
			call, ok := pr[0].(*ssa.Call)
			k, ok2 := pr[1].(*ssa.Const)
			if !ok || !ok2 || k.Value == nil {
				continue
			}
			name := ""
			if call.Call.IsInvoke() {
				name = call.Call.Method.Name()
			} else if cal := call.Call.StaticCallee(); cal != nil {
				name = cal.Name()
			}
			vals, ok := spec.CallVals[name]
			if !ok {
				continue
			}
			kv, isInt := constInt64(k.Value)
			if !isInt {
				continue
			}
			in := false
			for _, v := range vals {
				if v == kv {
					in = true
				}
			}
			eqEdge := (bo.Op == token.EQL) == taken
			if eqEdge && !in {
				return true, fmt.Sprintf("%s() is never %d on the domain", name, kv)
			}
			if !eqEdge && in && len(vals) == 1 {
				return true, fmt.Sprintf("%s() is always %d on the domain", name, kv)
			}
			return false, "`" + text + "` is not decided by the domain"
		}
	}
	if spec.Delegated != nil {
		if ok, why := spec.Delegated(f, iff.Cond); ok {
			return true, why
		}
	}
	// integer comparison
	var gs []Fact
	f.condFacts(iff.Cond, succ == 0, &gs)
	if len(gs) == 0 {
		return false, "branch condition `" + text + "` is not linear"
	}
	all := append(append([]Fact{}, facts...), f.FactsAt(p)...)
	if ok, _ := f.Prove(konst(-1), all); ok {
		return true, "the test `" + text + "` is itself unreachable on the domain (its dominating guards contradict the domain)"
	}
	// an equality edge (L >= 0 and -L >= 0) against a domain fact L != 0
	if len(gs) == 2 && !gs[0].NE && !gs[1].NE && gs[0].L.key() == gs[1].L.scale(-1).key() && f.ProveNE(gs[0].L, all) {
		neg := "false"
		if succ != 0 {
			neg = "true"
		}
		return true, fmt.Sprintf("%s is always %s on the domain", text, neg)
	}
	// ... or by a case distinction over the ways into a dominating merge (a length that is one of two sums)
	for _, g := range gs {
		if g.NE {
			continue
		}
		if ok, _ := f.ProveCases(g.L.scale(-1).add(konst(1), -1), all, p); ok {
			neg := "false"
			if succ != 0 {
				neg = "true"
			}
			return true, fmt.Sprintf("%s is always %s on the domain (in every way the tested value can have come about)", text, neg)
		}
	}
	for _, g := range gs {
		if factRefuted(f, g, all) {
			neg := "false"
			if succ != 0 {
				neg = "true"
			}
			return true, fmt.Sprintf("%s is always %s on the domain", text, neg)
		}
	}
	if spec.Fits {
		// X > 2^(8n)-1 (or X >= 2^(8n)) on the error side: the value does not fit its wire field
		k, isK := bo.Y.(*ssa.Const)
		if isK && k.Value != nil {
			if kv, ok := constInt64(k.Value); ok {
				lim := kv
				if bo.Op == token.GEQ {
					lim = kv - 1
				}
				if (bo.Op == token.GTR || bo.Op == token.GEQ) && succ == 0 && (lim == 0xFF || lim == 0xFFFF || lim == 0xFFFFFFFF) {
					return true, "`" + text + "`: the value would not fit its wire field, which the domain excludes"
				}
			}
		}
	}
	if succ == 0 {
		return false, "`" + text + "` can hold on the domain"
	}
	return false, "`" + text + "` can fail on the domain"
}

// libResultContracts: "<constructor>.<method>" -> the constant the method returns on every value the constructor yields.
var libResultContracts = map[string]int64{
	"crypto/aes.NewCipher.BlockSize": 16, // crypto/aes: "The AES block size in bytes", const BlockSize = 16
}

type domFn struct {
	d     *domAn
	f     *FA
	spec  *domSpec
	facts []Fact
	memo  map[*ssa.BasicBlock]*domVerdict
	open  map[*ssa.BasicBlock]bool
}

func (x *domFn) edgeInfeasible(p *ssa.BasicBlock, b *ssa.BasicBlock) (bool, string) {
	var firstWhy string
	for i, s := range p.Succs {
		if s != b {
			continue
		}
		if ok, why := x.d.guardRefuted(x, p, i); ok {
			return true, why
		} else if firstWhy == "" {
			firstWhy = why
		}
	}
	if ok, why := x.blockInfeasible(p); ok {
		return true, why
	} else if firstWhy == "" {
		firstWhy = why
	}
	return false, firstWhy
}

func (x *domFn) blockInfeasible(b *ssa.BasicBlock) (bool, string) {
	if v, ok := x.memo[b]; ok {
		return v.ok, v.why
	}
	if x.f.Dead[b] {
		return true, "closed world: the block is dead"
	}
	if b.Index == 0 || len(b.Preds) == 0 {
		return false, "reachable from the entry without a refuted guard"
	}
	if x.open[b] {
		return true, "" // a cycle adds no entry path; the other predecessors decide
	}
	x.open[b] = true
	defer delete(x.open, b)
	var whys []string
	for _, p := range b.Preds {
		ok, why := x.edgeInfeasible(p, b)
		if !ok {
			if len(x.open) == 1 {
				x.memo[b] = &domVerdict{false, why}
			}
			return false, why
		}
		if why != "" {
			whys = appendUniq(whys, why)
		}
	}
	v := &domVerdict{true, strings.Join(whys, "; ")}
	if len(x.open) == 1 {
		x.memo[b] = v
	}
	return v.ok, v.why
}

type domExit struct {
	Key, Pos string
	OK       bool
	Why      string
}

// failureExits classifies every failure exit of fn under spec. kind "error": a possibly non-nil error
// result; kind "nil": result idx is the nil constant.
func (d *domAn) failureExits(fn *ssa.Function, spec *domSpec, kind string, idx int) []domExit {
	f := d.c.NewFA(fn)
	x := &domFn{d: d, f: f, spec: spec, facts: d.domFacts(f, spec), memo: map[*ssa.BasicBlock]*domVerdict{}, open: map[*ssa.BasicBlock]bool{}}
	var out []domExit
	seen := map[string]int{}
	for _, b := range fn.Blocks {
		ret, ok := b.Instrs[len(b.Instrs)-1].(*ssa.Return)
		if !ok {
			continue
		}
		var res ssa.Value
		for i, rv := range ret.Results {
			if kind == "error" && isErrorType(rv.Type()) {
				res = rv
			}
			if kind == "nil" && i == idx {
				res = rv
			}
		}
		if res == nil {
			continue
		}
		type cand struct {
			v    ssa.Value
			pred *ssa.BasicBlock
		}
		var cands []cand
		if phi, ok := res.(*ssa.Phi); ok && phi.Block() == b {
			for i, e := range phi.Edges {
				cands = append(cands, cand{e, b.Preds[i]})
			}
		} else {
			cands = append(cands, cand{res, nil})
		}
		for _, cd := range cands {
			failing := false
			if kind == "error" {
				failing = !isNilConst(cd.v)
			} else {
				failing = isNilConst(cd.v)
			}
			if !failing {
				continue
			}
			var ok bool
			var why string
			if cd.pred != nil {
				ok, why = x.edgeInfeasible(cd.pred, b)
			} else {
				ok, why = x.blockInfeasible(b)
			}
			if !ok && kind == "error" {
				// an error that is passed on without a test (return wrap(err)): harmless when err is always nil
				if nilOK, nwhy := d.errAlwaysNil(x, cd.v, 0); nilOK {
					ok, why = true, "the returned error is always nil on the domain: "+nwhy
				}
			}
			key := d.c.FuncName(fn) + ": " + d.exitName(cd.v, kind)
			seen[key]++
			if seen[key] > 1 {
				key = fmt.Sprintf("%s #%d", key, seen[key])
			}
			out = append(out, domExit{Key: key, Pos: d.c.InstrPos(ret), OK: ok, Why: why})
		}
	}
	return out
}

func (d *domAn) exitName(v ssa.Value, kind string) string {
	if kind == "nil" {
		return "returns nil"
	}
	if call, ok := v.(*ssa.Call); ok {
		for _, a := range call.Call.Args {
			if k, ok := a.(*ssa.Const); ok && k.Value != nil && types.Identical(k.Type().Underlying(), types.Typ[types.String]) {
				return "error exit " + k.Value.ExactString()
			}
		}
	}
	if call := callOf(v); call != nil {
		s := d.c.SrcExpr(call)
		if s == "" {
			s = call.Call.Value.String()
		}
		return "error exit propagating " + s
	}
	return "error exit " + v.Name()
}

func (d *domAn) failureUnreachable(fn *ssa.Function, spec *domSpec, kind string, idx int) domVerdict {
	key := fmt.Sprintf("%s|%s|%d|%s", fn.String(), kind, idx, spec.sig())
	if v, ok := d.memo[key]; ok {
		return v
	}
	if d.stack[key] {
		return domVerdict{false, "recursive"}
	}
	if fn.Blocks == nil {
		return domVerdict{false, "no body"}
	}
	d.stack[key] = true
	defer delete(d.stack, key)
	exits := d.failureExits(fn, spec, kind, idx)
	v := domVerdict{ok: true}
	for _, e := range exits {
		if !e.OK {
			v = domVerdict{false, e.Key + " at " + e.Pos + ": " + e.Why}
			break
		}
	}
	if v.ok {
		v.why = fmt.Sprintf("%d failure exit(s), all unreachable", len(exits))
		ctx := spec.sig()
		if ctx != "" {
			ctx = " [" + ctx + "]"
		}
		d.calls = appendUniq(d.calls, d.c.FuncName(fn)+": "+v.why+ctx)
	}
	d.memo[key] = v
	return v
}

// domRoot is one root of a totality rule: a function and the domain instance it is analysed under.
type domRoot struct {
	Fn    *ssa.Function
	Spec  *domSpec // nil: the table entry of Fn
	Label string   // distinguishes several instances of one function
}

// domainTotalRule reports one obligation per failure exit of each root.
func (c *Ctx) domainTotalRule(r *Report, rule, doc string, floor int, specs map[*ssa.Function]*domSpec, roots []*ssa.Function) {
	var rs []domRoot
	for _, fn := range roots {
		rs = append(rs, domRoot{Fn: fn})
	}
	c.domainTotalRoots(r, rule, doc, floor, specs, rs)
}

func (c *Ctx) domainTotalRoots(r *Report, rule, doc string, floor int, specs map[*ssa.Function]*domSpec, roots []domRoot) {
	r.Rule(rule, doc, floor)
	d := &domAn{c: c, specs: specs, memo: map[string]domVerdict{}, stack: map[string]bool{}}
	for _, rt := range roots {
		fn := rt.Fn
		if fn == nil {
			r.undecided(rule, "anchor "+rt.Label, "-", "a root of the totality rule does not resolve")
			continue
		}
		r.Func(c.FuncName(fn))
		spec := rt.Spec
		if spec == nil {
			spec = d.specOf(fn)
		}
		exits := d.failureExits(fn, spec, "error", -1)
		if len(exits) == 0 {
			r.undecided(rule, c.FuncName(fn)+": failure exits", c.Pos(fn.Pos()), "no error exit found; the rule matched nothing")
		}
		for _, e := range exits {
			key := e.Key
			if rt.Label != "" {
				key = "[" + rt.Label + "] " + key
			}
			if e.OK {
				r.ok(rule, key, e.Pos, "unreachable on the domain: "+e.Why, true)
			} else {
				r.bad(rule, key, e.Pos, "an in-domain input can take this failure exit: "+e.Why)
			}
		}
	}
	sort.Strings(d.calls)
	for _, s := range d.calls {
		key, ctx := s, ""
		if i := strings.Index(s, ": "); i > 0 {
			key, ctx = s[:i], s[i+2:]
		}
		r.ok(rule, "callee summary "+key, "-", "every failure exit of the callee is refuted the same way: "+ctx, true)
	}
}

// keyLenSpec builds the callee spec "len(key) == receiver.<field GetKeyLength returns>" for an implementer of NewCrypto.
func (c *Ctx) keyLenSpec(m *ssa.Function) *domSpec {
	if m.Signature.Recv() == nil || len(m.Params) < 2 {
		return nil
	}
	rt := m.Signature.Recv().Type()
	var get *ssa.Function
	ms := c.Prog.MethodSets.MethodSet(rt)
	for i := 0; i < ms.Len(); i++ {
		if ms.At(i).Obj().Name() == "GetKeyLength" {
			get = c.Prog.MethodValue(ms.At(i))
		}
	}
	if get == nil || get.Blocks == nil {
		return nil
	}
	field := ""
	for _, b := range get.Blocks {
		if ret, ok := b.Instrs[len(b.Instrs)-1].(*ssa.Return); ok && len(ret.Results) == 1 {
			base, fld, ok := fieldLoad(ret.Results[0])
			if !ok || paramIndex(get, base) != 0 || (field != "" && field != fld) {
				return nil
			}
			field = fld
		}
	}
	if field == "" {
		return nil
	}
	return &domSpec{ExactLenParam: 1, ExactLenField: field, ExactLenWhy: "keys are sliced from prf+ at the descriptor's GetKeyLength() (offset-table rule), and GetKeyLength returns ." + field}
}

// newCryptoSpecs gives every closed-world implementer of NewCrypto its exact-key-length contract.
func (c *Ctx) newCryptoSpecs(specs map[*ssa.Function]*domSpec, fn *ssa.Function) {
	for _, g := range c.Reachable(fn) {
		for _, b := range g.Blocks {
			for _, ins := range b.Instrs {
				call, ok := ins.(*ssa.Call)
				if !ok || !call.Call.IsInvoke() || call.Call.Method.Name() != "NewCrypto" {
					continue
				}
				for _, m := range c.CalleesAt(call).Mod {
					if s := c.keyLenSpec(m); s != nil {
						specs[m] = s
					}
				}
			}
		}
	}
}

func (c *Ctx) c07Totality(r *Report, prefix string) {
	gen := c.Method("security", "IKESAKey", "GenerateKeyForIKESA")
	nk := c.Func("security", "NewIKESAKey")
	specs := map[*ssa.Function]*domSpec{}
	genSpec := &domSpec{
		ExactLenParam: -1,
		LenDom:        map[string][2]int64{"concatenatedNonce": {1, 512}, "diffieHellmanSharedKey": {1, 512}},
		NonNil:        map[string]bool{"ikesaKey": true, "ikesaKey.EncrInfo": true, "ikesaKey.IntegInfo": true, "ikesaKey.PrfInfo": true, "ikesaKey.DhInfo": true},
		Rel:           func(f *FA) []Fact { return append(prfPlusLenRel(f), keyLenPositiveRel(f)...) },
	}
	if gen != nil {
		specs[gen] = genSpec
		c.newCryptoSpecs(specs, gen)
	}
	c.prfPlusSpec(specs, 224)
	if nk != nil {
		lists := [2]int64{1, INF}
		specs[nk] = &domSpec{
			ExactLenParam: -1,
			LenDom: map[string][2]int64{"concatenatedNonce": {1, 512}, "proposal.DiffieHellmanGroup": lists, "proposal.EncryptionAlgorithm": lists,
				"proposal.IntegrityAlgorithm": lists, "proposal.PseudorandomFunction": lists},
			NonNil: map[string]bool{"proposal": true},
			TreePresent: func(t types.Type) string {
				if k := typeKey(t); k == "*message.Transform" {
					return "a proposal of the domain lists transforms, not nil entries"
				}
				return ""
			},
			LookupOK: map[string]string{
				"github.com/free5gc/ike/security/dh.DecodeTransform":    "the domain's DH groups are registered (C11 registry rules)",
				"github.com/free5gc/ike/security/encr.DecodeTransform":  "the domain's encryption transforms are registered (C11 registry rules)",
				"github.com/free5gc/ike/security/integ.DecodeTransform": "the domain's integrity transforms are registered (C11 registry rules)",
				"github.com/free5gc/ike/security/prf.DecodeTransform":   "the domain's PRFs are registered (C11 registry rules)",
			},
			EnvErr: map[string]string{
				"github.com/free5gc/ike/security.CalculateDiffieHellmanMaterials": "fails only when the system random source fails (environment, not an input of the property)",
			},
		}
	}
	c.domainTotalRule(r, prefix+"total-on-domain",
		"every failure exit of GenerateKeyForIKESA and NewIKESAKey (and, through their error tests, of PrfPlus and the NewCrypto implementers) is unreachable for nonces and shared secrets of 1..512 octets and a complete registered suite: on each path to it a branch is refuted by the domain (presence of the descriptors, length intervals by linear arithmetic, callees that cannot fail)",
		20, specs, []*ssa.Function{gen, nk})
}

// prfPlusSpec: what the derivation call sites fix about PrfPlus's arguments: a keyed PRF object (the descriptor's
// Init result / the IKE SA's SK_d object), and between 1 and maxLen octets requested (the sum of the registered
// key lengths: rule registry-lengths), far below the 255 blocks of at least 16 octets prf+ is defined for.
func (c *Ctx) prfPlusSpec(specs map[*ssa.Function]*domSpec, maxLen int64) {
	pp := c.Func("security/lib", "PrfPlus")
	if pp == nil || len(pp.Params) != 3 {
		return
	}
	specs[pp] = &domSpec{ExactLenParam: -1, renamed: true,
		NonNil: map[string]bool{pp.Params[0].Name(): true},
		IntDom: map[string][2]int64{pp.Params[2].Name(): {1, maxLen}},
		EnvErr: map[string]string{}, LenDom: map[string][2]int64{}}
}

// prfPlusLenRel: on the domain prf+ delivers exactly the requested number of octets (rule prf-plus: the
// result is stream[:streamLen], and the nil result is unreachable), so len(PrfPlus(p, s, n)) = n.
func prfPlusLenRel(f *FA) []Fact {
	var out []Fact
	for _, b := range f.Fn.Blocks {
		for _, ins := range b.Instrs {
			call, ok := ins.(*ssa.Call)
			if !ok {
				continue
			}
			if cal := call.Call.StaticCallee(); cal != nil && cal.Name() == "PrfPlus" && len(call.Call.Args) == 3 {
				d := f.SliceLen(call).add(f.LFOf(call.Call.Args[2]), -1)
				out = append(out, Fact{L: d}, Fact{L: d.scale(-1)})
			}
		}
	}
	return out
}

// keyLenPositiveRel: GetKeyLength() of a registered descriptor is positive (every registry entry carries the
// RFC's key length: rule registry-lengths), so the amount of key material requested from prf+ is not zero.
func keyLenPositiveRel(f *FA) []Fact {
	var out []Fact
	for _, b := range f.Fn.Blocks {
		for _, ins := range b.Instrs {
			call, ok := ins.(*ssa.Call)
			if !ok || !call.Call.IsInvoke() || call.Call.Method.Name() != "GetKeyLength" {
				continue
			}
			out = append(out, Fact{L: f.LFOf(call).add(konst(1), -1)})
		}
	}
	return out
}

func (c *Ctx) c08Totality(r *Report, prefix string) {
	gen := c.Method("security", "ChildSAKey", "GenerateKeyForChildSA")
	specs := map[*ssa.Function]*domSpec{}
	if gen != nil {
		specs[gen] = &domSpec{
			ExactLenParam: -1,
			// the nonce string may be empty, integrity may be absent
			NonNil: map[string]bool{"ikeSA": true, "childsaKey": true, "ikeSA.PrfInfo": true, "childsaKey.EncrKInfo": true, "ikeSA.Prf_d": true},
			Rel:    func(f *FA) []Fact { return append(prfPlusLenRel(f), keyLenPositiveRel(f)...) },
		}
	}
	c.prfPlusSpec(specs, 128)
	c.domainTotalRule(r, prefix+"total-on-domain",
		"every failure exit of GenerateKeyForChildSA (and of PrfPlus behind its nil test) is unreachable for any nonce string (including the empty one), with or without an integrity transform, on an IKE SA that holds SK_d: on each path to it a branch is refuted by the domain",
		6, specs, []*ssa.Function{gen})
}

// ---- protect / unprotect (C01, C06) ----

// protectTotality: on the domain of C01/C06 (an SA with all key objects, a message of the encodable
// domain, a genuine protected datagram on the receive side) no failure exit of the protect and unprotect
// paths is reachable. Failures of the codec (decided by C03/C05), of AES-CBC on genuine ciphertext (C10)
// and of the random source are outside this rule; the checksum comparison holds by the mac-span and
// key-direction rules. What remains - and is decided here - are the functions' own guards: presence
// tests, length tests (by linear arithmetic over the shape the sender produces: the SK body is
// IV(16) | 16k cipher octets, k >= 1 | checksum), and tests of message fields.
func (c *Ctx) protectTotality(r *Report, prefix string) {
	enc := c.Func("", "encryptMsg")
	dec := c.Func("", "decryptMsg")
	ee := c.Func("", "EncodeEncrypt")
	dd := c.Func("", "DecodeDecrypt")
	keys := []string{"IntegInfo", "EncrInfo", "Integ_i", "Integ_r", "Encr_i", "Encr_r", "PrfInfo"}
	nonNil := func(names ...string) map[string]bool {
		m := map[string]bool{}
		for _, n := range names {
			m[n] = true
		}
		for _, k := range keys {
			m["ikesaKey."+k] = true
		}
		return m
	}
	codec := map[string]string{
		"method:Encode":        "messages of the encodable domain encode (decided by the codec properties C03/C05)",
		"method:Decode":        "the octets are a genuine encoding, which decodes (C03/C05)",
		"method:DecodePayload": "the octets are a genuine encoding, which decodes (C03/C05)",
		"method:Decrypt":       "the ciphertext is a genuine AES-CBC encryption under the same key (Decrypt after Encrypt is decided by C10's shape rules)",
		"method:Encrypt":       "fails only when the random source fails (C10 IV / padding rules)",
	}
	specs := map[*ssa.Function]*domSpec{}
	sendRel := func(f *FA) []Fact {
		// what the shape rules of C06 establish on the send side: the SK body handed to the final Encode is
		// IV | >= 1 block | L placeholder octets, and the encoded message holds header + SK header + that
		var out []Fact
		var cs []LF
		for _, b := range f.Fn.Blocks {
			for _, ins := range b.Instrs {
				if call, ok := ins.(*ssa.Call); ok && call.Call.IsInvoke() && call.Call.Method.Name() == "GetOutputLength" {
					cs = append(cs, f.LFOf(call))
				}
			}
		}
		for _, b := range f.Fn.Blocks {
			for _, ins := range b.Instrs {
				v, ok := ins.(ssa.Value)
				if !ok {
					continue
				}
				if _, fld, ok := fieldLoad(v); ok && fld == "EncryptedData" {
					for _, k := range cs {
						out = append(out, Fact{L: f.SliceLen(v).add(k, -1).add(konst(32), -1)})
					}
				}
				if ex, ok := v.(*ssa.Extract); ok && ex.Index == 0 {
					if call, ok := ex.Tuple.(*ssa.Call); ok && !call.Call.IsInvoke() {
						if cal := call.Call.StaticCallee(); cal != nil && cal.Name() == "Encode" && strings.HasSuffix(cal.String(), "IKEMessage).Encode") {
							for _, k := range cs {
								out = append(out, Fact{L: f.SliceLen(v).add(k, -1).add(konst(64), -1)})
							}
						}
					}
				}
			}
		}
		return out
	}
	if enc != nil {
		specs[enc] = &domSpec{ExactLenParam: -1, NonNil: nonNil("ikeMsg", "ikesaKey"), EnvErr: codec, Rel: sendRel}
	}
	if ee != nil {
		specs[ee] = &domSpec{ExactLenParam: -1, NonNil: nonNil("ikeMsg", "ikesaKey"), EnvErr: codec}
	}
	recvRel := func(f *FA) []Fact {
		// len(EncryptedData) - checksumLength >= 32 (IV and at least one cipher block), for every load of the field
		var out []Fact
		var cs []LF
		for _, b := range f.Fn.Blocks {
			for _, ins := range b.Instrs {
				if call, ok := ins.(*ssa.Call); ok && call.Call.IsInvoke() && call.Call.Method.Name() == "GetOutputLength" {
					cs = append(cs, f.LFOf(call))
				}
			}
		}
		for _, b := range f.Fn.Blocks {
			for _, ins := range b.Instrs {
				v, ok := ins.(ssa.Value)
				if !ok {
					continue
				}
				if _, fld, ok := fieldLoad(v); ok && fld == "EncryptedData" {
					for _, k := range cs {
						out = append(out, Fact{L: f.SliceLen(v).add(k, -1).add(konst(32), -1)})
					}
				}
			}
		}
		for _, p := range f.Fn.Params {
			if p.Name() == "msg" {
				for _, k := range cs {
					// header 28 + SK header 4 + IV 16 + one block 16 + checksum
					out = append(out, Fact{L: f.SliceLen(p).add(k, -1).add(konst(64), -1)})
				}
			}
		}
		return out
	}
	if dec != nil {
		specs[dec] = &domSpec{ExactLenParam: -1, NonNil: nonNil("ikeMsg", "ikesaKey", "msg"), EnvErr: codec,
			CallVals: map[string][]int64{"Type": {46}}, Rel: recvRel, LenDom: map[string][2]int64{"msg": {64, INF}, "ikeMsg.Payloads": {1, INF}}}
	}
	if dd != nil {
		// a genuine protected datagram decodes to at least its Encrypted payload
		specs[dd] = &domSpec{ExactLenParam: -1, NonNil: nonNil("ikesaKey", "msg"), EnvErr: codec, LenDom: map[string][2]int64{"msg": {64, INF}},
			FieldLen: map[string][2]int64{"message.IKEMessage.Payloads": {1, INF}},
			// ... the message the datagram was decoded into (allocated here), not the inner message that
			// decryptMsg hands back, whose payload list may be empty
			FieldLenBase: func(base ssa.Value) bool { _, isAlloc := base.(*ssa.Alloc); return isAlloc }}
	}
	for _, n := range []string{"verifyIntegrity", "calculateIntegrity", "encryptPayload", "decryptPayload"} {
		if fn := c.Func("", n); fn != nil {
			specs[fn] = &domSpec{ExactLenParam: -1, NonNil: nonNil("ikesaKey"), EnvErr: codec}
		}
	}
	c.domainTotalRule(r, prefix+"total-on-domain",
		"no failure exit of EncodeEncrypt / encryptMsg / DecodeDecrypt / decryptMsg (and, through their error tests, of verifyIntegrity, calculateIntegrity, encryptPayload, decryptPayload) is reachable for an SA holding all key objects, a message of the encodable domain and, on reception, a genuine protected datagram (SK body = IV | >= 1 cipher block | checksum): each is behind a presence test, a length test refuted by linear arithmetic, a test of a pinned method result, or the failure of a callee that cannot fail on the domain (codec, AES-CBC and random-source failures are decided by C03/C05/C10 and assumed here)",
		25, specs, []*ssa.Function{ee, enc, dd, dec})
}

// plainTotality: the same entry points without SA keys are plain encode and decode: no failure exit of
// EncodeEncrypt / DecodeDecrypt is reachable for a message of the encodable domain (any payload list, the empty
// one included - a datagram of exactly the 28 header octets) and its genuine encoding, with or without a
// pre-parsed header.
func (c *Ctx) plainTotality(r *Report, prefix string) {
	ee := c.Func("", "EncodeEncrypt")
	dd := c.Func("", "DecodeDecrypt")
	codec := map[string]string{
		"method:Encode":        "messages of the encodable domain encode (decided by the codec properties C03/C05)",
		"method:Decode":        "the octets are a genuine encoding, which decodes (C03/C05)",
		"method:DecodePayload": "the octets are a genuine encoding, which decodes (C03/C05)",
	}
	// the payload kinds of the plain domain: every supported type but SK
	var plainTypes []int64
	for t := int64(33); t <= 48; t++ {
		if t != 46 {
			plainTypes = append(plainTypes, t)
		}
	}
	specs := map[*ssa.Function]*domSpec{}
	if ee != nil {
		specs[ee] = &domSpec{ExactLenParam: -1, NonNil: map[string]bool{"ikeMsg": true}, IsNil: map[string]bool{"ikesaKey": true}, EnvErr: codec}
	}
	if dd != nil {
		// a genuine plain datagram announces its first payload (never SK) or nothing in the header
		notSK := func(f *FA) []Fact {
			var out []Fact
			for _, b := range f.Fn.Blocks {
				for _, ins := range b.Instrs {
					if v, ok := ins.(ssa.Value); ok {
						if _, fld, isF := fieldLoad(v); isF && fld == "NextPayload" {
							out = append(out, Fact{L: f.LFOf(v).add(konst(46), -1), NE: true})
						}
					}
				}
			}
			return out
		}
		specs[dd] = &domSpec{ExactLenParam: -1, NonNil: map[string]bool{"msg": true}, IsNil: map[string]bool{"ikesaKey": true}, EnvErr: codec,
			LenDom: map[string][2]int64{"msg": {28, INF}}, CallVals: map[string][]int64{"Type": plainTypes}, Rel: notSK}
	}
	c.domainTotalRule(r, prefix+"total-on-domain.plain",
		"with no SA keys supplied, no failure exit of EncodeEncrypt / DecodeDecrypt is reachable for a message of the encodable domain (the empty payload list included: a datagram of exactly 28 octets) and its genuine encoding, with or without a pre-parsed header",
		2, specs, []*ssa.Function{ee, dd})
}

// ---- EAP-AKA' AT_MAC (C15) ----

func (c *Ctx) macTotality(r *Report, prefix string) {
	calc := c.Method("eap", "EAP", "CalcEapAkaPrimeAtMAC")
	specs := map[*ssa.Function]*domSpec{}
	if calc != nil {
		specs[calc] = &domSpec{ExactLenParam: -1,
			NonNil:   map[string]bool{"eap": true, "eap.EapTypeData": true},
			CallVals: map[string][]int64{"Type": {50}},
			TreePresent: func(t types.Type) string {
				if typeKey(t) == "*eap.EapAkaPrime" {
					return "the type data of an EAP-AKA' packet is an EapAkaPrime object, not a typed nil pointer"
				}
				return ""
			},
			EnvErr:   map[string]string{"method:Marshal": "packets built through the API or decoded from well-formed input encode (decided by C14)"},
		}
	}
	c.domainTotalRule(r, prefix+"total-on-domain",
		"no failure exit of CalcEapAkaPrimeAtMAC (including initMAC -> SetAttr(AT_MAC, 16 zero octets) -> setAttr) is reachable for an EAP-AKA' packet of any identifier, subtype and attribute subset and any key: the only tests on the way are the method-type test (the packet is EAP-AKA'), the setter's size test for a 16-octet value, and callees that cannot fail",
		4, specs, []*ssa.Function{calc})
}

// ---- EAP-AKA' attribute setter (C14) ----

func (c *Ctx) setterTotality(r *Report, prefix string) {
	sa := c.Method("eap", "EapAkaPrimeAttr", "setAttr")
	type inst struct {
		name   string
		lo, hi int64
	}
	var roots []domRoot
	for _, in := range []inst{{"AT_RAND", 16, 16}, {"AT_AUTN", 16, 16}, {"AT_MAC", 16, 16}, {"AT_KDF", 2, 2}, {"AT_RES", 4, 16},
		{"AT_KDF_INPUT", 0, 300}, {"AT_CHECKCODE", 0, 0}, {"AT_CHECKCODE", 20, 20}, {"AT_CHECKCODE", 32, 32}} {
		k := c.constInt("eap", in.name)
		if k == nil || sa == nil {
			roots = append(roots, domRoot{Label: in.name})
			continue
		}
		roots = append(roots, domRoot{Fn: sa, Label: fmt.Sprintf("%s, %d..%d octets", in.name, in.lo, in.hi),
			Spec: &domSpec{ExactLenParam: -1, NonNil: map[string]bool{"attr": true},
				IntDom: map[string][2]int64{"attrType": {*k, *k}}, LenDom: map[string][2]int64{"value": {in.lo, in.hi}}}})
	}
	// the words / bits fields the setter derives from len(value) are computed without wrap-around
	ruleW := prefix + "aka.setter-fields-no-wrap"
	r.Rule(ruleW, "in every domain instance of the setter, each narrowing conversion on the way to the stored length (words) and bit-length fields has an operand that provably fits the narrower type (linear arithmetic over len(value) and the attribute type): the stored field is the intended quotient / product, not its residue", 9)
	for _, rt := range roots {
		if rt.Fn == nil {
			continue
		}
		d := &domAn{c: c, specs: map[*ssa.Function]*domSpec{}, memo: map[string]domVerdict{}, stack: map[string]bool{}}
		f := c.NewFA(rt.Fn)
		x := &domFn{d: d, f: f, spec: rt.Spec, facts: d.domFacts(f, rt.Spec), memo: map[*ssa.BasicBlock]*domVerdict{}, open: map[*ssa.BasicBlock]bool{}}
		n := 0
		for _, b := range rt.Fn.Blocks {
			if dead, _ := x.blockInfeasible(b); dead {
				continue
			}
			for _, ins := range b.Instrs {
				st, ok := ins.(*ssa.Store)
				if !ok {
					continue
				}
				fa, ok := st.Addr.(*ssa.FieldAddr)
				if !ok {
					continue
				}
				fk := strings.TrimPrefix(FieldKey(fa.X.Type(), fa.Field), "field:")
				if fk != "eap.EapAkaPrimeAttr.length" && fk != "eap.EapAkaPrimeAttr.reserved" {
					continue
				}
				n++
				facts := append(append([]Fact{}, x.facts...), f.FactsAt(b)...)
				bad := narrowingLoss(f, st.Val, facts, 0)
				key := "[" + rt.Label + "] " + fk + " := " + c.SrcExpr(st)
				r.Check(bad == "", ruleW, key, c.InstrPos(st), "every narrowing conversion in the stored expression keeps its operand's value on this instance", bad)
			}
		}
		if n == 0 {
			r.undecided(ruleW, "["+rt.Label+"] stores", c.Pos(rt.Fn.Pos()), "no store of the length / bit-length fields is reachable in this instance")
		}
	}
	// the API entry (SetAttr) is the root: a size limit in the wrapper refuses a value as surely as one in setAttr
	api := c.Method("eap", "EapAkaPrime", "SetAttr")
	apiRoots := roots
	if api != nil {
		apiRoots = nil
		for _, rt := range roots {
			if rt.Fn == nil {
				apiRoots = append(apiRoots, rt)
				continue
			}
			sp := *rt.Spec
			sp.NonNil = map[string]bool{"eapAkaPrime": true, "attr": true}
			apiRoots = append(apiRoots, domRoot{Fn: api, Label: rt.Label, Spec: &sp})
		}
	}
	c.domainTotalRoots(r, prefix+"aka.setter-accepts-domain",
		"the attribute setter accepts every value size of the domain: for AT_RAND/AT_AUTN/AT_MAC with 16 octets, AT_KDF with 2, AT_RES with 4..16, AT_KDF_INPUT with 0..300 and AT_CHECKCODE with 0, 20 or 32 octets no error exit of SetAttr (through setAttr) is reachable (the case dispatch and every size test are refuted by linear arithmetic over the attribute type and len(value))",
		9, map[*ssa.Function]*domSpec{}, apiRoots)
}

// loopPhiNonNil: ph is a φ at a loop header whose entry value is nil and whose loop-carried values are
// objects (allocations, successful type assertions, interface wrappers). After the loop it is nil only if
// the loop was left before its first iteration; that is refuted when the exit condition, with every header
// φ replaced by its entry value, contradicts the domain (e.g. ranging over a list the domain says is
// non-empty).
func (d *domAn) loopPhiNonNil(x *domFn, ph *ssa.Phi) (bool, string) {
	f := x.f
	h := ph.Block()
	var li *loopInfo
	for _, l := range naturalLoops(f.Fn) {
		if l.header == h {
			li = l
		}
	}
	if li == nil {
		return false, ""
	}
	isBack := func(p *ssa.BasicBlock) bool {
		for _, b := range li.backs {
			if b == p {
				return true
			}
		}
		return false
	}
	for i, e := range ph.Edges {
		if isBack(h.Preds[i]) {
			if !carriesObject(e, ph, 0) {
				return false, ""
			}
		} else if !isNilConst(e) {
			return false, ""
		}
	}
	iff, ok := h.Instrs[len(h.Instrs)-1].(*ssa.If)
	if !ok {
		return false, ""
	}
	exit := -1
	for i, s := range h.Succs {
		if !li.body[s] {
			exit = i
		}
	}
	if exit < 0 {
		return false, ""
	}
	var gs []Fact
	f.condFacts(iff.Cond, exit == 0, &gs)
	if len(gs) == 0 {
		return false, ""
	}
	// substitute the header's integer φ-nodes by their entry values
	sub := map[int]LF{}
	for _, ins := range h.Instrs {
		p2, ok := ins.(*ssa.Phi)
		if !ok {
			break
		}
		if _, _, isInt := f.typeRange(p2.Type()); !isInt {
			continue
		}
		l := f.LFOf(p2)
		if len(l.T) != 1 || l.C != 0 {
			continue
		}
		for a, co := range l.T {
			if co != 1 {
				continue
			}
			for i, e := range p2.Edges {
				if !isBack(h.Preds[i]) {
					sub[a] = f.LFOf(e)
				}
			}
		}
	}
	all := append(append([]Fact{}, x.facts...), f.FactsAt(h)...)
	for _, g := range gs {
		l := LF{C: g.L.C, T: map[int]int64{}}
		for a, co := range g.L.T {
			if s, ok := sub[a]; ok {
				l = l.add(s, co)
			} else {
				l = l.add(LF{T: map[int]int64{a: 1}}, co)
			}
		}
		if factRefuted(f, Fact{L: l, NE: g.NE}, all) {
			return true, "the loop that assigns it runs at least once on the domain and every iteration assigns an object"
		}
	}
	return false, ""
}

// carriesObject: v is an object on every path (allocation, interface wrapper, successful type assertion),
// or the φ itself.
func carriesObject(v ssa.Value, self *ssa.Phi, depth int) bool {
	if v == ssa.Value(self) {
		return true
	}
	if depth > 4 {
		return false
	}
	switch e := v.(type) {
	case *ssa.Alloc, *ssa.MakeInterface, *ssa.TypeAssert:
		return true
	case *ssa.Extract:
		if ta, ok := e.Tuple.(*ssa.TypeAssert); ok && e.Index == 0 {
			_ = ta
			return true
		}
	case *ssa.Phi:
		for _, ed := range e.Edges {
			if !carriesObject(ed, self, depth+1) {
				return false
			}
		}
		return true
	}
	return false
}

// ---- encoders on the encodable domain (C03) ----

// encodeTotality: decode(encode(m)) = m for every m of the encodable domain presupposes that encode(m)
// succeeds. Every error exit of every Marshal method (and of the container / message / header encoders)
// must be unreachable for messages of the domain stated by C03's quantifier: the field lengths, counts and
// selector types it names, and "every payload fits its length field" (tests of the form X > 2^(8n)-1).
func (c *Ctx) encodeTotality(r *Report, prefix string) {
	base := func() *domSpec {
		return &domSpec{ExactLenParam: -1, Fits: true, NonNil: map[string]bool{},
			FieldLen: map[string][2]int64{
				"message.Proposal.SPI":                              {0, 255},
				"message.Notification.SPI":                          {0, 255},
				"message.TrafficSelectorInitiator.TrafficSelectors": {1, 255},
				"message.TrafficSelectorResponder.TrafficSelectors": {1, 255},
				"eap.EapIdentity.IdentityData":                      {1, INF},
				"eap.EapNak.NakData":                                {1, INF},
				"eap.EapNotification.NotificationData":              {1, INF},
			},
			FieldInt: map[string][2]int64{},
			EnvErr: map[string]string{
				"method:Marshal": "the nested record's own encoder is a root of this rule (or, for EAP-AKA', decided by C14's padding and setter rules)",
				"method:Encode":  "the container encoder is a root of this rule",
			},
		}
	}
	var roots []domRoot
	add := func(fn *ssa.Function, label string, tweak func(s *domSpec)) {
		if fn == nil {
			return
		}
		s := base()
		for _, p := range fn.Params {
			s.NonNil[p.Name()] = true
		}
		s.TreePresent = func(t types.Type) string {
			k := typeKey(t)
			if k == "message.IKEPayload" || k == "eap.EapTypeData" || strings.HasPrefix(k, "*message.") || strings.HasPrefix(k, "*eap.") {
				return "a message of the encodable domain has every node of its tree (header, payloads, proposals, transforms, selectors, attributes, EAP packet); a nil node cannot be encoded at all"
			}
			return ""
		}
		if tweak != nil {
			tweak(s)
		}
		roots = append(roots, domRoot{Fn: fn, Spec: s, Label: label})
	}
	for _, spec := range []struct{ rel, iface string }{{"message", "IKEPayload"}, {"eap", "EapTypeData"}} {
		nt := c.NamedType(spec.rel, spec.iface)
		if nt == nil {
			continue
		}
		for _, T := range c.Implementers(nt.Underlying().(*types.Interface)) {
			rec := strings.TrimPrefix(typeKey(T), "*")
			m := c.methodOf(T, "Marshal")
			if m == nil {
				continue
			}
			switch rec {
			case "message.Encrypted", "eap.EapAkaPrime":
				continue // SK bodies are built by the protect path (C06); EAP-AKA' is C14's
			case "message.TrafficSelectorInitiator", "message.TrafficSelectorResponder":
				for _, in := range []struct{ t, n int64 }{{7, 4}, {8, 16}} {
					in := in
					add(m, fmt.Sprintf("selectors of type %d", in.t), func(s *domSpec) {
						s.FieldInt["message.IndividualTrafficSelector.TSType"] = [2]int64{in.t, in.t}
						s.FieldLen["message.IndividualTrafficSelector.StartAddress"] = [2]int64{in.n, in.n}
						s.FieldLen["message.IndividualTrafficSelector.EndAddress"] = [2]int64{in.n, in.n}
					})
				}
			case "message.SecurityAssociation":
				for _, format := range []int64{0, 1} {
					format := format
					add(m, fmt.Sprintf("attribute format %d", format), func(s *domSpec) {
						s.FieldInt["message.Transform.AttributeFormat"] = [2]int64{format, format}
						if format == 0 {
							s.FieldLen["message.Transform.VariableLengthAttributeValue"] = [2]int64{1, INF}
						}
						s.Rel = func(f *FA) []Fact {
							// every proposal lists at least one transform: the five lists together are not empty
							// (one fact per proposal object the function reads; a field read several times is one
							// value per load class)
							type perBase struct {
								lens map[string][]LF
							}
							bases := map[ssa.Value]*perBase{}
							var order []ssa.Value
							for _, b := range f.Fn.Blocks {
								for _, ins := range b.Instrs {
									v, ok := ins.(ssa.Value)
									if !ok {
										continue
									}
									ld, isLoad := v.(*ssa.UnOp)
									if !isLoad {
										continue
									}
									if fk, ok := fieldKeyOfLoad(v); ok {
										switch fk {
										case "message.Proposal.EncryptionAlgorithm", "message.Proposal.PseudorandomFunction", "message.Proposal.IntegrityAlgorithm", "message.Proposal.DiffieHellmanGroup", "message.Proposal.ExtendedSequenceNumbers":
											var base ssa.Value
											if fa, ok := ld.X.(*ssa.FieldAddr); ok {
												base = fa.X
											}
											pb := bases[base]
											if pb == nil {
												pb = &perBase{lens: map[string][]LF{}}
												bases[base] = pb
												order = append(order, base)
											}
											l := f.SliceLen(v)
											dup := false
											for _, o := range pb.lens[fk] {
												if o.key() == l.key() {
													dup = true
												}
											}
											if !dup {
												pb.lens[fk] = append(pb.lens[fk], l)
											}
										}
									}
								}
							}
							var out []Fact
							for _, base := range order {
								pb := bases[base]
								if len(pb.lens) != 5 {
									continue
								}
								var fields []string
								for k := range pb.lens {
									fields = append(fields, k)
								}
								sort.Strings(fields)
								// the combination of first loads, and each later load of a field in place of its first
								first := konst(-1)
								for _, k := range fields {
									first = first.add(pb.lens[k][0], 1)
								}
								out = append(out, Fact{L: first})
								for _, k := range fields {
									for _, alt := range pb.lens[k][1:] {
										out = append(out, Fact{L: first.add(pb.lens[k][0], -1).add(alt, 1)})
									}
								}
							}
							return out
						}
					})
				}
			case "message.Delete":
				// C03's quantifier: "Delete is either (SPI size 0, no SPIs) or (SPI size 4, count = number of SPIs)",
				// and every payload fits the 16-bit payload length (4 + 4 + 4*count <= 65535): one root per case
				deleteFacts := func(withSPIs bool) func(f *FA) []Fact {
					return func(f *FA) []Fact {
						var ls, nv, sz *LF
						for _, b := range f.Fn.Blocks {
							for _, ins := range b.Instrs {
								v, ok := ins.(ssa.Value)
								if !ok {
									continue
								}
								if fk, ok := fieldKeyOfLoad(v); ok {
									if fk == "message.Delete.SPIs" && ls == nil {
										l := f.SliceLen(v)
										ls = &l
									}
									if fk == "message.Delete.NumberOfSPI" && nv == nil {
										l := f.LFOf(v)
										nv = &l
									}
									if fk == "message.Delete.SPISize" && sz == nil {
										l := f.LFOf(v)
										sz = &l
									}
								}
							}
						}
						var out []Fact
						eq := func(l LF, k int64) {
							out = append(out, Fact{L: l.add(konst(k), -1)}, Fact{L: konst(k).add(l, -1)})
						}
						if ls != nil && nv != nil {
							d := ls.add(*nv, -1)
							out = append(out, Fact{L: d}, Fact{L: d.scale(-1)})
						}
						if ls != nil {
							if withSPIs {
								out = append(out, Fact{L: ls.add(konst(1), -1)}, Fact{L: konst(16381).add(*ls, -1)})
							} else {
								eq(*ls, 0)
							}
						}
						if nv != nil {
							if withSPIs {
								out = append(out, Fact{L: nv.add(konst(1), -1)}, Fact{L: konst(16381).add(*nv, -1)})
							} else {
								eq(*nv, 0)
							}
						}
						if sz != nil {
							if withSPIs {
								eq(*sz, 4)
							} else {
								eq(*sz, 0)
							}
						}
						return out
					}
				}
				add(m, "Delete without SPIs (SPI size 0)", func(s *domSpec) { s.Rel = deleteFacts(false) })
				add(m, "Delete with 4-octet SPIs", func(s *domSpec) { s.Rel = deleteFacts(true) })
			default:
				add(m, "", nil)
			}
		}
	}
	add(c.Method("message", "IKEPayloadContainer", "Encode"), "", nil)
	add(c.Method("message", "IKEMessage", "Encode"), "", nil)
	add(c.Method("message", "IKEHeader", "Marshal"), "", nil)
	add(c.Method("eap", "EAP", "Marshal"), "", nil)
	rule := prefix + "encode-total-on-domain"
	// encoders without any error exit are fine by construction: report only those that have one
	var withExits []domRoot
	d := &domAn{c: c, specs: map[*ssa.Function]*domSpec{}, memo: map[string]domVerdict{}, stack: map[string]bool{}}
	for _, rt := range roots {
		if len(d.failureExits(rt.Fn, rt.Spec, "error", -1)) > 0 {
			withExits = append(withExits, rt)
		}
	}
	c.domainTotalRoots(r, rule,
		"no error exit of a Marshal method, of the container / message / header encoders or of EAP.Marshal is reachable for a message of the encodable domain (C03's quantifier: SPIs <= 255 octets, 1..255 selectors of type 7 with 4-octet or type 8 with 16-octet addresses, >= 1 transform per proposal, non-empty TLV values, Delete count = number of SPIs, non-empty EAP identity / nak / notification data, every length fits its field): each is behind a test refuted by linear arithmetic over those facts, a 'does not fit its field' test, or the failure of a nested encoder that is itself a root",
		25, map[*ssa.Function]*domSpec{}, withExits)
}

// narrowingLoss walks the expression that computes v and returns a description of the first narrowing
// integer conversion whose operand is not provably inside the target type under facts ("" if none).
func narrowingLoss(f *FA, v ssa.Value, facts []Fact, depth int) string {
	if depth > 8 {
		return ""
	}
	switch e := v.(type) {
	case *ssa.Convert:
		if tlo, thi, ok := f.typeRange(e.Type()); ok {
			if slo, shi, ok2 := f.typeRange(e.X.Type()); ok2 && (slo < tlo || shi > thi) {
				l := f.LFOf(e.X)
				okLo, _ := f.Prove(l.add(konst(tlo), -1), facts)
				okHi, _ := f.Prove(konst(thi).add(l, -1), facts)
				if !okLo || !okHi {
					// quotients and shifts are atoms of their own: bound them through their numerator
					if lo, hi := boundsUnder(f, e.X, facts, 0); lo >= tlo && hi <= thi {
						return narrowingLoss(f, e.X, facts, depth+1)
					}
				}
				if !okLo || !okHi {
					lo, hi := boundsUnder(f, e.X, facts, 0)
					return fmt.Sprintf("conversion to %s of %s, which ranges over [%d, %d] on this instance: the stored value is its residue, not the value", e.Type(), f.Show(l), lo, hi)
				}
			}
		}
		return narrowingLoss(f, e.X, facts, depth+1)
	case *ssa.BinOp:
		if s := narrowingLoss(f, e.X, facts, depth+1); s != "" {
			return s
		}
		return narrowingLoss(f, e.Y, facts, depth+1)
	case *ssa.UnOp:
		if e.Op != token.MUL {
			return narrowingLoss(f, e.X, facts, depth+1)
		}
	case *ssa.ChangeType:
		return narrowingLoss(f, e.X, facts, depth+1)
	case *ssa.Phi:
		for _, ed := range e.Edges {
			if ed == ssa.Value(e) {
				continue
			}
			if s := narrowingLoss(f, ed, facts, depth+2); s != "" {
				return s
			}
		}
	}
	return ""
}

// boundsUnder bounds an integer expression under facts, looking through division, remainder and shifts by
// constants (which E1 represents as atoms with context-free bounds).
func boundsUnder(f *FA, v ssa.Value, facts []Fact, depth int) (int64, int64) {
	env := f.refine(facts)
	lo, hi := f.bounds(f.LFOf(v), env)
	if depth > 6 {
		return lo, hi
	}
	tighten := func(l2, h2 int64) (int64, int64) {
		if l2 > lo {
			lo = l2
		}
		if h2 < hi {
			hi = h2
		}
		return lo, hi
	}
	switch e := v.(type) {
	case *ssa.Convert:
		if tlo, thi, ok := f.typeRange(e.Type()); ok {
			xl, xh := boundsUnder(f, e.X, facts, depth+1)
			if xl >= tlo && xh <= thi {
				return tighten(xl, xh)
			}
		}
	case *ssa.BinOp:
		k, isK := e.Y.(*ssa.Const)
		if !isK || k.Value == nil {
			return lo, hi
		}
		kv, ok := constInt64(k.Value)
		if !ok {
			return lo, hi
		}
		xl, xh := boundsUnder(f, e.X, facts, depth+1)
		switch e.Op {
		case token.QUO:
			if kv > 0 && xl >= 0 && xh < INF {
				return tighten(xl/kv, xh/kv)
			}
		case token.SHR:
			if kv >= 0 && kv < 62 && xl >= 0 && xh < INF {
				return tighten(xl>>uint(kv), xh>>uint(kv))
			}
		case token.REM:
			if kv > 0 && xl >= 0 {
				h := kv - 1
				if xh < h {
					h = xh
				}
				return tighten(0, h)
			}
		case token.MUL:
			if kv >= 0 && xl >= 0 && xh < INF/(kv+1) {
				return tighten(xl*kv, xh*kv)
			}
		}
	}
	return lo, hi
}
