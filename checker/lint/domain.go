package lint

import (
	"fmt"
	"go/token"
	"go/types"
	"sort"
	"strings"

	"golang.org/x/tools/go/ssa"
)

// Totality on the property's domain (E4 + E1).
//
// A derivation property ("for all nonces of 1..512 octets ... the keys equal ...") also says that the
// function delivers keys on that whole domain. The structural part: every exit of the function that
// reports failure (a non-nil error, or a nil result the caller turns into an error) must be unreachable
// for in-domain arguments. An exit is unreachable when, on every path to it, some branch edge is refuted
// by the domain:
//   nil edge of `v == nil`     v is a value the domain guarantees present, or the result of a registry
//                              lookup whose miss is outside the domain, or the result of a module
//                              function whose own nil returns are unreachable;
//   non-nil edge of `err != nil`  err comes from a callee that cannot fail on the domain: an external
//                              callee of the frozen table, or a module callee (all closed-world
//                              implementers) whose own failure exits are unreachable;
//   integer comparison         refuted by linear arithmetic from the domain's length intervals and the
//                              guards dominating the branch.
// Anything else is reported: an error exit that in-domain inputs can take.

type domSpec struct {
	LenDom   map[string][2]int64 // value path (parameter or parameter.field) -> inclusive interval of its length
	NonNil   map[string]bool     // value paths the domain guarantees non-nil
	LookupOK map[string]string   // callee -> why a nil result is outside the domain
	EnvErr   map[string]string   // callee -> why its error is outside the domain
	// ExactLenField: the domain guarantees len(parameter i) == receiver.<field> (justified by the named rule)
	ExactLenParam int
	ExactLenField string
	ExactLenWhy   string
}

// domExternalNeverFails: external callees whose error result is nil for every in-domain argument.
var domExternalNeverFails = map[string]string{
	"iface:hash.Hash.Write":  "hash.Hash.Write never returns an error (package hash documentation)",
	"crypto/aes.NewCipher":   "fails only for key sizes other than 16, 24, 32; the size guard before it pins len(key) to the descriptor's key length, which the registry-length rule pins to the RFC table",
	"iface:io.Writer.Write":  "hash.Hash embeds io.Writer; its Write never returns an error",
	"(*crypto/hmac.hmac).Write": "hash Write never returns an error",
}

type domAn struct {
	c     *Ctx
	specs map[*ssa.Function]*domSpec
	memo  map[string]domVerdict
	stack map[string]bool
	calls []string // callee summaries used
}

type domVerdict struct {
	ok  bool
	why string
}

func (d *domAn) specOf(fn *ssa.Function) *domSpec {
	if s, ok := d.specs[fn]; ok {
		return s
	}
	return &domSpec{ExactLenParam: -1}
}

// valuePath names a value by parameter and field path ("ikesaKey.EncrInfo"), or "".
func valuePath(fn *ssa.Function, v ssa.Value) string {
	for i := 0; i < 6; i++ {
		switch x := v.(type) {
		case *ssa.Parameter:
			return x.Name()
		case *ssa.ChangeType:
			v = x.X
			continue
		}
		break
	}
	if base, fld, ok := fieldLoad(v); ok {
		p := valuePath(fn, base)
		if p == "" {
			return ""
		}
		return p + "." + fld
	}
	return ""
}

// storedInto resolves a load of a field of a function-local allocation to the single value stored there.
func storedInto(fn *ssa.Function, v ssa.Value) ssa.Value {
	u, ok := v.(*ssa.UnOp)
	if !ok || u.Op != token.MUL {
		return nil
	}
	fa, ok := u.X.(*ssa.FieldAddr)
	if !ok {
		return nil
	}
	if _, ok := fa.X.(*ssa.Alloc); !ok {
		return nil
	}
	var val ssa.Value
	n := 0
	for _, b := range fn.Blocks {
		for _, ins := range b.Instrs {
			st, ok := ins.(*ssa.Store)
			if !ok {
				continue
			}
			fa2, ok := st.Addr.(*ssa.FieldAddr)
			if ok && fa2.X == fa.X && fa2.Field == fa.Field {
				n++
				val = st.Val
			}
		}
	}
	if n == 1 {
		return val
	}
	return nil
}

func callOf(v ssa.Value) *ssa.Call {
	switch x := v.(type) {
	case *ssa.Call:
		return x
	case *ssa.Extract:
		if c, ok := x.Tuple.(*ssa.Call); ok {
			return c
		}
	}
	return nil
}

func (d *domAn) domFacts(f *FA, spec *domSpec) []Fact {
	fn := f.Fn
	var out []Fact
	add := func(v ssa.Value) {
		if _, ok := v.Type().Underlying().(*types.Slice); !ok {
			return
		}
		p := valuePath(fn, v)
		iv, ok := spec.LenDom[p]
		if !ok {
			return
		}
		l := f.SliceLen(v)
		out = append(out, Fact{L: l.add(konst(iv[0]), -1)})
		if iv[1] < INF {
			out = append(out, Fact{L: konst(iv[1]).add(l, -1)})
		}
	}
	for _, p := range fn.Params {
		add(p)
	}
	for _, b := range fn.Blocks {
		for _, ins := range b.Instrs {
			if v, ok := ins.(ssa.Value); ok {
				add(v)
			}
		}
	}
	if spec.ExactLenParam >= 0 && spec.ExactLenParam < len(fn.Params) && len(fn.Params) > 0 {
		key := fn.Params[spec.ExactLenParam]
		for _, b := range fn.Blocks {
			for _, ins := range b.Instrs {
				v, ok := ins.(ssa.Value)
				if !ok {
					continue
				}
				base, fld, ok := fieldLoad(v)
				if ok && fld == spec.ExactLenField && paramIndex(fn, base) == 0 {
					dlt := f.SliceLen(key).add(f.LFOf(v), -1)
					out = append(out, Fact{L: dlt}, Fact{L: dlt.scale(-1)})
				}
			}
		}
	}
	return out
}

// factRefuted: the facts contradict g.
func factRefuted(f *FA, g Fact, facts []Fact) bool {
	if g.NE {
		a, _ := f.Prove(g.L, facts)
		b, _ := f.Prove(g.L.scale(-1), facts)
		return a && b
	}
	ok, _ := f.Prove(g.L.scale(-1).add(konst(1), -1), facts)
	return ok
}

func (d *domAn) guardRefuted(f *FA, spec *domSpec, facts []Fact, p *ssa.BasicBlock, succ int) (bool, string) {
	iff, ok := p.Instrs[len(p.Instrs)-1].(*ssa.If)
	if !ok || p.Succs[0] == p.Succs[1] {
		return false, ""
	}
	taken := succ == 0
	cond := iff.Cond
	for {
		u, ok := cond.(*ssa.UnOp)
		if !ok || u.Op != token.NOT {
			break
		}
		cond = u.X
		taken = !taken
	}
	bo, ok := cond.(*ssa.BinOp)
	if !ok {
		return false, "branch on " + cond.String()
	}
	fn := f.Fn
	if (bo.Op == token.EQL || bo.Op == token.NEQ) && (isNilConst(bo.X) || isNilConst(bo.Y)) {
		v := bo.X
		if isNilConst(v) {
			v = bo.Y
		}
		nilEdge := (bo.Op == token.EQL) == taken
		text := d.c.SrcExpr(bo)
		if text == "" {
			text = bo.String()
		}
		if nilEdge {
			if isErrorType(v.Type()) {
				return false, "the no-error edge of " + text
			}
			if p := valuePath(fn, v); p != "" {
				if spec.NonNil[p] {
					return true, p + " is present on the domain"
				}
				return false, p + " may be nil on the domain"
			}
			src := v
			if s := storedInto(fn, v); s != nil {
				src = s
			}
			if call := callOf(src); call != nil {
				cs := d.c.CalleesAt(call)
				if cs.Dynamic || len(cs.External) > 0 || len(cs.Mod) == 0 {
					return false, "nil result of an unresolved callee"
				}
				var whys []string
				for _, m := range cs.Mod {
					if why, ok := spec.LookupOK[m.String()]; ok {
						whys = append(whys, why)
						continue
					}
					idx := 0
					if ex, ok := src.(*ssa.Extract); ok {
						idx = ex.Index
					}
					vd := d.failureUnreachable(m, "nil", idx)
					if !vd.ok {
						return false, "nil result of " + d.c.FuncName(m) + " is reachable: " + vd.why
					}
					whys = append(whys, d.c.FuncName(m)+" returns nil on no in-domain path")
				}
				return true, strings.Join(whys, "; ")
			}
			return false, "nil test of " + text
		}
		// non-nil edge
		if !isErrorType(v.Type()) {
			return false, "the non-nil edge of " + text
		}
		call := callOf(v)
		if call == nil {
			return false, "error value not produced by a call"
		}
		cs := d.c.CalleesAt(call)
		if cs.Dynamic {
			return false, "error of a dynamic call"
		}
		var whys []string
		for _, e := range cs.External {
			why, ok := domExternalNeverFails[e]
			if !ok {
				return false, "error of external callee " + e + " (not in the never-fails table)"
			}
			whys = append(whys, e+": "+why)
		}
		for _, m := range cs.Mod {
			if why, ok := spec.EnvErr[m.String()]; ok {
				whys = append(whys, d.c.FuncName(m)+": "+why)
				continue
			}
			vd := d.failureUnreachable(m, "error", -1)
			if !vd.ok {
				return false, "callee " + d.c.FuncName(m) + " can fail: " + vd.why
			}
			whys = append(whys, d.c.FuncName(m)+" has no reachable failure exit")
		}
		if len(whys) == 0 {
			return false, "callee does not resolve"
		}
		return true, strings.Join(whys, "; ")
	}
	// integer comparison
	var gs []Fact
	f.condFacts(iff.Cond, succ == 0, &gs)
	if len(gs) == 0 {
		return false, "branch condition not linear"
	}
	all := append(append([]Fact{}, facts...), f.FactsAt(p)...)
	for _, g := range gs {
		if factRefuted(f, g, all) {
			text := d.c.SrcExpr(bo)
			if text == "" {
				text = bo.String()
			}
			neg := "false"
			if succ != 0 {
				neg = "true"
			}
			return true, fmt.Sprintf("%s is always %s on the domain", text, neg)
		}
	}
	text := d.c.SrcExpr(bo)
	if text == "" {
		text = bo.String()
	}
	if succ == 0 {
		return false, "`" + text + "` can hold on the domain"
	}
	return false, "`" + text + "` can fail on the domain"
}

type domFn struct {
	d     *domAn
	f     *FA
	spec  *domSpec
	facts []Fact
	memo  map[*ssa.BasicBlock]*domVerdict
	open  map[*ssa.BasicBlock]bool
}

func (x *domFn) edgeInfeasible(p *ssa.BasicBlock, b *ssa.BasicBlock) (bool, string) {
	var firstWhy string
	for i, s := range p.Succs {
		if s != b {
			continue
		}
		if ok, why := x.d.guardRefuted(x.f, x.spec, x.facts, p, i); ok {
			return true, why
		} else if firstWhy == "" {
			firstWhy = why
		}
	}
	if ok, why := x.blockInfeasible(p); ok {
		return true, why
	} else if firstWhy == "" {
		firstWhy = why
	}
	return false, firstWhy
}

func (x *domFn) blockInfeasible(b *ssa.BasicBlock) (bool, string) {
	if v, ok := x.memo[b]; ok {
		return v.ok, v.why
	}
	if b.Index == 0 || len(b.Preds) == 0 {
		return false, "reachable from the entry without a refuted guard"
	}
	if x.open[b] {
		return true, "" // a cycle adds no entry path; the other predecessors decide
	}
	x.open[b] = true
	defer delete(x.open, b)
	var whys []string
	for _, p := range b.Preds {
		ok, why := x.edgeInfeasible(p, b)
		if !ok {
			x.memo[b] = &domVerdict{false, why}
			return false, why
		}
		if why != "" {
			whys = appendUniq(whys, why)
		}
	}
	v := &domVerdict{true, strings.Join(whys, "; ")}
	x.memo[b] = v
	return v.ok, v.why
}

type domExit struct {
	Key, Pos string
	OK       bool
	Why      string
}

// failureExits classifies every failure exit of fn. kind "error": a possibly non-nil error result;
// kind "nil": result idx is the nil constant.
func (d *domAn) failureExits(fn *ssa.Function, kind string, idx int) []domExit {
	f := d.c.NewFA(fn)
	spec := d.specOf(fn)
	x := &domFn{d: d, f: f, spec: spec, facts: d.domFacts(f, spec), memo: map[*ssa.BasicBlock]*domVerdict{}, open: map[*ssa.BasicBlock]bool{}}
	var out []domExit
	seen := map[string]int{}
	for _, b := range fn.Blocks {
		ret, ok := b.Instrs[len(b.Instrs)-1].(*ssa.Return)
		if !ok {
			continue
		}
		var res ssa.Value
		for i, rv := range ret.Results {
			if kind == "error" && isErrorType(rv.Type()) {
				res = rv
			}
			if kind == "nil" && i == idx {
				res = rv
			}
		}
		if res == nil {
			continue
		}
		type cand struct {
			v    ssa.Value
			pred *ssa.BasicBlock
		}
		var cands []cand
		if phi, ok := res.(*ssa.Phi); ok && phi.Block() == b {
			for i, e := range phi.Edges {
				cands = append(cands, cand{e, b.Preds[i]})
			}
		} else {
			cands = append(cands, cand{res, nil})
		}
		for _, cd := range cands {
			failing := false
			if kind == "error" {
				failing = !isNilConst(cd.v)
			} else {
				failing = isNilConst(cd.v)
			}
			if !failing {
				continue
			}
			var ok bool
			var why string
			if cd.pred != nil {
				ok, why = x.edgeInfeasible(cd.pred, b)
			} else {
				ok, why = x.blockInfeasible(b)
			}
			key := d.c.FuncName(fn) + ": " + d.exitName(cd.v, kind)
			seen[key]++
			if seen[key] > 1 {
				key = fmt.Sprintf("%s #%d", key, seen[key])
			}
			out = append(out, domExit{Key: key, Pos: d.c.InstrPos(ret), OK: ok, Why: why})
		}
	}
	return out
}

func (d *domAn) exitName(v ssa.Value, kind string) string {
	if kind == "nil" {
		return "returns nil"
	}
	if call, ok := v.(*ssa.Call); ok {
		for _, a := range call.Call.Args {
			if k, ok := a.(*ssa.Const); ok && k.Value != nil && types.Identical(k.Type().Underlying(), types.Typ[types.String]) {
				return "error exit " + k.Value.ExactString()
			}
		}
	}
	if call := callOf(v); call != nil {
		s := d.c.SrcExpr(call)
		if s == "" {
			s = call.Call.Value.String()
		}
		return "error exit propagating " + s
	}
	return "error exit " + v.Name()
}

func (d *domAn) failureUnreachable(fn *ssa.Function, kind string, idx int) domVerdict {
	key := fmt.Sprintf("%s|%s|%d", fn.String(), kind, idx)
	if v, ok := d.memo[key]; ok {
		return v
	}
	if d.stack[key] {
		return domVerdict{false, "recursive"}
	}
	if fn.Blocks == nil {
		return domVerdict{false, "no body"}
	}
	d.stack[key] = true
	defer delete(d.stack, key)
	exits := d.failureExits(fn, kind, idx)
	v := domVerdict{ok: true}
	var parts []string
	for _, e := range exits {
		if !e.OK {
			v = domVerdict{false, e.Key + " at " + e.Pos + ": " + e.Why}
			break
		}
		parts = append(parts, e.Key)
	}
	if v.ok {
		sort.Strings(parts)
		v.why = fmt.Sprintf("%d failure exit(s), all unreachable", len(exits))
		d.calls = appendUniq(d.calls, d.c.FuncName(fn)+": "+v.why)
	}
	d.memo[key] = v
	return v
}

// domainTotalRule reports one obligation per failure exit of each root.
func (c *Ctx) domainTotalRule(r *Report, rule, doc string, floor int, specs map[*ssa.Function]*domSpec, roots []*ssa.Function) {
	r.Rule(rule, doc, floor)
	d := &domAn{c: c, specs: specs, memo: map[string]domVerdict{}, stack: map[string]bool{}}
	for _, fn := range roots {
		if fn == nil {
			r.undecided(rule, "anchor", "-", "a root of the totality rule does not resolve")
			continue
		}
		r.Func(c.FuncName(fn))
		exits := d.failureExits(fn, "error", -1)
		if len(exits) == 0 {
			r.undecided(rule, c.FuncName(fn)+": failure exits", c.Pos(fn.Pos()), "no error exit found; the rule matched nothing")
		}
		for _, e := range exits {
			if e.OK {
				r.ok(rule, e.Key, e.Pos, "unreachable on the domain: "+e.Why, true)
			} else {
				r.bad(rule, e.Key, e.Pos, "an in-domain input can take this failure exit: "+e.Why)
			}
		}
	}
	sort.Strings(d.calls)
	for _, s := range d.calls {
		r.ok(rule, "callee summary "+s, "-", "every failure exit of the callee is refuted the same way", true)
	}
}

// keyLenSpec builds the callee spec "len(key) == receiver.<field GetKeyLength returns>" for an implementer of NewCrypto.
func (c *Ctx) keyLenSpec(m *ssa.Function) *domSpec {
	if m.Signature.Recv() == nil || len(m.Params) < 2 {
		return nil
	}
	rt := m.Signature.Recv().Type()
	var get *ssa.Function
	ms := c.Prog.MethodSets.MethodSet(rt)
	for i := 0; i < ms.Len(); i++ {
		if ms.At(i).Obj().Name() == "GetKeyLength" {
			get = c.Prog.MethodValue(ms.At(i))
		}
	}
	if get == nil || get.Blocks == nil {
		return nil
	}
	field := ""
	for _, b := range get.Blocks {
		if ret, ok := b.Instrs[len(b.Instrs)-1].(*ssa.Return); ok && len(ret.Results) == 1 {
			base, fld, ok := fieldLoad(ret.Results[0])
			if !ok || paramIndex(get, base) != 0 || (field != "" && field != fld) {
				return nil
			}
			field = fld
		}
	}
	if field == "" {
		return nil
	}
	return &domSpec{ExactLenParam: 1, ExactLenField: field, ExactLenWhy: "keys are sliced from prf+ at the descriptor's GetKeyLength() (offset-table rule), and GetKeyLength returns ." + field}
}

// newCryptoSpecs gives every closed-world implementer of NewCrypto its exact-key-length contract.
func (c *Ctx) newCryptoSpecs(specs map[*ssa.Function]*domSpec, fn *ssa.Function) {
	for _, g := range c.Reachable(fn) {
		for _, b := range g.Blocks {
			for _, ins := range b.Instrs {
				call, ok := ins.(*ssa.Call)
				if !ok || !call.Call.IsInvoke() || call.Call.Method.Name() != "NewCrypto" {
					continue
				}
				for _, m := range c.CalleesAt(call).Mod {
					if s := c.keyLenSpec(m); s != nil {
						specs[m] = s
					}
				}
			}
		}
	}
}

func (c *Ctx) c07Totality(r *Report, prefix string) {
	gen := c.Method("security", "IKESAKey", "GenerateKeyForIKESA")
	nk := c.Func("security", "NewIKESAKey")
	specs := map[*ssa.Function]*domSpec{}
	genSpec := &domSpec{
		ExactLenParam: -1,
		LenDom:        map[string][2]int64{"concatenatedNonce": {1, 512}, "diffieHellmanSharedKey": {1, 512}},
		NonNil:        map[string]bool{"ikesaKey": true, "ikesaKey.EncrInfo": true, "ikesaKey.IntegInfo": true, "ikesaKey.PrfInfo": true, "ikesaKey.DhInfo": true},
	}
	if gen != nil {
		specs[gen] = genSpec
		c.newCryptoSpecs(specs, gen)
	}
	if nk != nil {
		lists := [2]int64{1, INF}
		specs[nk] = &domSpec{
			ExactLenParam: -1,
			LenDom: map[string][2]int64{"concatenatedNonce": {1, 512}, "proposal.DiffieHellmanGroup": lists, "proposal.EncryptionAlgorithm": lists,
				"proposal.IntegrityAlgorithm": lists, "proposal.PseudorandomFunction": lists},
			NonNil: map[string]bool{"proposal": true},
			LookupOK: map[string]string{
				"github.com/free5gc/ike/security/dh.DecodeTransform":    "the domain's DH groups are registered (C11 registry rules)",
				"github.com/free5gc/ike/security/encr.DecodeTransform":  "the domain's encryption transforms are registered (C11 registry rules)",
				"github.com/free5gc/ike/security/integ.DecodeTransform": "the domain's integrity transforms are registered (C11 registry rules)",
				"github.com/free5gc/ike/security/prf.DecodeTransform":   "the domain's PRFs are registered (C11 registry rules)",
			},
			EnvErr: map[string]string{
				"github.com/free5gc/ike/security.CalculateDiffieHellmanMaterials": "fails only when the system random source fails (environment, not an input of the property)",
			},
		}
	}
	c.domainTotalRule(r, prefix+"total-on-domain",
		"every failure exit of GenerateKeyForIKESA and NewIKESAKey (and, through their error tests, of PrfPlus and the NewCrypto implementers) is unreachable for nonces and shared secrets of 1..512 octets and a complete registered suite: on each path to it a branch is refuted by the domain (presence of the descriptors, length intervals by linear arithmetic, callees that cannot fail)",
		20, specs, []*ssa.Function{gen, nk})
}

func (c *Ctx) c08Totality(r *Report, prefix string) {
	gen := c.Method("security", "ChildSAKey", "GenerateKeyForChildSA")
	specs := map[*ssa.Function]*domSpec{}
	if gen != nil {
		specs[gen] = &domSpec{
			ExactLenParam: -1,
			// the nonce string may be empty, integrity may be absent
			NonNil: map[string]bool{"ikeSA": true, "childsaKey": true, "ikeSA.PrfInfo": true, "childsaKey.EncrKInfo": true, "ikeSA.Prf_d": true},
		}
	}
	c.domainTotalRule(r, prefix+"total-on-domain",
		"every failure exit of GenerateKeyForChildSA (and of PrfPlus behind its nil test) is unreachable for any nonce string (including the empty one), with or without an integrity transform, on an IKE SA that holds SK_d: on each path to it a branch is refuted by the domain",
		6, specs, []*ssa.Function{gen})
}
