package lint

import (
	"fmt"
	"go/constant"
	"go/token"
	"go/types"
	"sort"
	"strings"

	"ikeverif/checker/xt/ssa"
)

// dispatchCase is one arm of a type switch that allocates a concrete implementer.
type dispatchCase struct {
	K    constant.Value
	T    types.Type // concrete type wrapped into the interface
	Test *ssa.BasicBlock
	Body *ssa.BasicBlock
	Tag  ssa.Value // the switched-on value
}

// dispatchTable reads, from the φ-node that merges the allocated implementers of interface
// ifaceName in fn, the relation constant -> allocated type.
func (c *Ctx) dispatchTable(fn *ssa.Function, ifaceName string) ([]dispatchCase, *ssa.Phi) {
	for _, b := range fn.Blocks {
		for _, ins := range b.Instrs {
			phi, ok := ins.(*ssa.Phi)
			if !ok {
				break
			}
			nt, ok := phi.Type().(*types.Named)
			if !ok || nt.Obj().Name() != ifaceName || len(phi.Edges) < 2 {
				continue
			}
			var cases []dispatchCase
			okAll := true
			for i, e := range phi.Edges {
				mi, ok := e.(*ssa.MakeInterface)
				if !ok {
					okAll = false
					break
				}
				// nearest dominating true-edge of a `tag == K` test
				var body, test *ssa.BasicBlock
				var k *ssa.Const
				var tag ssa.Value
				for x := b.Preds[i]; x != nil && body == nil; x = x.Idom() {
					if len(x.Preds) != 1 {
						continue
					}
					p := x.Preds[0]
					iff, ok := p.Instrs[len(p.Instrs)-1].(*ssa.If)
					if !ok || p.Succs[0] != x || p.Succs[0] == p.Succs[1] {
						continue
					}
					cond, ok := iff.Cond.(*ssa.BinOp)
					if !ok || cond.Op != token.EQL {
						continue
					}
					kk, ok := cond.Y.(*ssa.Const)
					tg := cond.X
					if !ok {
						kk, ok = cond.X.(*ssa.Const)
						tg = cond.Y
					}
					if !ok || kk.Value == nil || kk.Value.Kind() != constant.Int {
						continue
					}
					body, test, k, tag = x, p, kk, tg
				}
				if body == nil {
					okAll = false
					break
				}
				cases = append(cases, dispatchCase{K: k.Value, T: mi.X.Type(), Test: test, Body: body, Tag: tag})
			}
			if okAll {
				return cases, phi
			}
		}
	}
	return nil, nil
}

// mapDispatchTable reads the relation constant -> allocated type from a constructor table: a package-level
// map from the type code to a function returning a freshly allocated implementer, filled once (map literal or
// assignments in init with constant keys), never written anywhere else, and consulted by fn with the
// looked-up constructor called on the found arm.
func (c *Ctx) mapDispatchTable(fn *ssa.Function, ifaceName string) []dispatchCase {
	for _, b := range fn.Blocks {
		for _, ins := range b.Instrs {
			lk, ok := ins.(*ssa.Lookup)
			if !ok {
				continue
			}
			ld, ok := lk.X.(*ssa.UnOp)
			if !ok || ld.Op != token.MUL {
				continue
			}
			g, ok := ld.X.(*ssa.Global)
			if !ok {
				continue
			}
			mt, ok := g.Type().(*types.Pointer).Elem().Underlying().(*types.Map)
			if !ok {
				continue
			}
			sig, ok := mt.Elem().Underlying().(*types.Signature)
			if !ok || sig.Params().Len() != 0 || sig.Results().Len() != 1 {
				continue
			}
			if nt, ok := sig.Results().At(0).Type().(*types.Named); !ok || nt.Obj().Name() != ifaceName {
				continue
			}
			// the looked-up function is what gets called
			called := false
			var fv ssa.Value = lk
			if lk.CommaOk {
				fv = nil
				for _, u := range *lk.Referrers() {
					if ex, ok := u.(*ssa.Extract); ok && ex.Index == 0 {
						fv = ex
					}
				}
			}
			if fv != nil {
				for _, u := range *fv.Referrers() {
					if call, ok := u.(*ssa.Call); ok && call.Call.Value == fv {
						called = true
					}
				}
			}
			if !called {
				continue
			}
			// every write of the table: one store of a map built in place, or updates of the variable's map, all in init
			var cases []dispatchCase
			okAll := true
			literal := map[ssa.Value]bool{}
			for _, f2 := range c.ModFuncs {
				for _, b2 := range f2.Blocks {
					for _, in2 := range b2.Instrs {
						if st, ok := in2.(*ssa.Store); ok && st.Addr == ssa.Value(g) {
							mm, isMake := st.Val.(*ssa.MakeMap)
							if !isMake || !strings.HasPrefix(f2.Name(), "init") {
								okAll = false
							}
							literal[mm] = true
						}
					}
				}
			}
			for _, f2 := range c.ModFuncs {
				for _, b2 := range f2.Blocks {
					for _, in2 := range b2.Instrs {
						switch x := in2.(type) {
						case *ssa.MapUpdate:
							onTable := literal[x.Map]
							if u, ok := x.Map.(*ssa.UnOp); ok && u.X == ssa.Value(g) {
								onTable = true
							}
							if !onTable {
								continue
							}
							k, isK := x.Key.(*ssa.Const)
							T := constructedType(x.Value)
							if !strings.HasPrefix(f2.Name(), "init") || !isK || k.Value == nil || T == nil {
								okAll = false
								continue
							}
							cases = append(cases, dispatchCase{K: k.Value, T: T, Tag: lk.Index})
						case *ssa.Call:
							if bi, ok := x.Call.Value.(*ssa.Builtin); ok && (bi.Name() == "delete" || bi.Name() == "clear") {
								if u, ok := x.Call.Args[0].(*ssa.UnOp); ok && u.X == ssa.Value(g) {
									okAll = false
								}
							}
						}
					}
				}
			}
			if okAll && len(cases) > 0 {
				return cases
			}
		}
	}
	return nil
}

// constructedType: v is a function (closure without captured variables) every return of which hands back a
// freshly allocated value wrapped into the interface; the allocated type.
func constructedType(v ssa.Value) types.Type {
	if mc, ok := v.(*ssa.MakeClosure); ok && len(mc.Bindings) == 0 {
		v = mc.Fn
	}
	fn, ok := v.(*ssa.Function)
	if !ok || fn.Blocks == nil {
		return nil
	}
	var T types.Type
	for _, b := range fn.Blocks {
		ret, ok := b.Instrs[len(b.Instrs)-1].(*ssa.Return)
		if !ok {
			continue
		}
		if len(ret.Results) != 1 {
			return nil
		}
		mi, ok := ret.Results[0].(*ssa.MakeInterface)
		if !ok {
			return nil
		}
		if _, isAlloc := mi.X.(*ssa.Alloc); !isAlloc {
			return nil
		}
		if T != nil && !types.Identical(T, mi.X.Type()) {
			return nil
		}
		T = mi.X.Type()
	}
	return T
}

// bijectionRule: the dispatch relation and the Type() methods are inverse bijections over all implementers.
func (c *Ctx) bijectionRule(r *Report, rule string, fn *ssa.Function, rel, ifaceName, tagMethod string, floor int) ([]dispatchCase, bool) {
	r.Rule(rule, "the type switch of the decoder and the "+tagMethod+"() methods of all "+ifaceName+" implementers are inverse bijections (constant <-> allocated type)", floor)
	nt := c.NamedType(rel, ifaceName)
	if nt == nil || fn == nil {
		r.undecided(rule, "anchor "+rel+"."+ifaceName, "-", "anchor does not resolve")
		return nil, false
	}
	cases, dphi := c.dispatchTable(fn, ifaceName)
	if cases == nil {
		cases = c.mapDispatchTable(fn, ifaceName)
	}
	if dphi != nil {
		// what the dispatch hands to Unmarshal is a new object holding nothing: a constructor that fills in
		// defaults, or hands out (a copy of) a kept object, makes the decoded value depend on more than the octets
		for _, e := range dphi.Edges {
			mi, ok := e.(*ssa.MakeInterface)
			if !ok {
				continue
			}
			why := c.freshZeroObject(mi.X, 0)
			r.Check(why == "", rule, typeKey(mi.X.Type())+": allocated empty", c.InstrPos(mi), "a new object whose fields are zero or new empty objects", "the object the decoder fills is not a new empty one: "+why)
		}
	}
	if cases == nil {
		r.undecided(rule, c.FuncName(fn)+": dispatch", c.Pos(fn.Pos()), "cannot read a constant -> type dispatch table (a φ of freshly allocated implementers selected by == tests) from the decoder")
		return nil, false
	}
	tab, ok := c.tagTable(nt.Underlying().(*types.Interface), tagMethod)
	if !ok {
		r.undecided(rule, rel+"."+ifaceName+"."+tagMethod, "-", "some implementer's "+tagMethod+"() does not return a single constant, or two implementers return the same constant")
		return nil, false
	}
	allOK := true
	disp := map[string]types.Type{}
	for _, cs := range cases {
		k := cs.K.ExactString()
		if _, dup := disp[k]; dup {
			r.bad(rule, "case "+k, c.Pos(fn.Pos()), "constant dispatched twice")
			allOK = false
		}
		disp[k] = cs.T
	}
	var ks []string
	for k := range tab {
		ks = append(ks, k)
	}
	sort.Strings(ks)
	for _, k := range ks {
		T := tab[k]
		got, ok := disp[k]
		if ok && types.Identical(got, T) {
			r.ok(rule, typeKey(T), c.Pos(fn.Pos()), fmt.Sprintf("%s() = %s and case %s allocates %s", tagMethod, k, k, typeKey(T)), true)
		} else if ok {
			r.bad(rule, typeKey(T), c.Pos(fn.Pos()), fmt.Sprintf("%s() = %s but case %s allocates %s", tagMethod, k, k, typeKey(got)))
			allOK = false
		} else {
			r.bad(rule, typeKey(T), c.Pos(fn.Pos()), fmt.Sprintf("%s() = %s has no case in the decoder: the encoder can emit a payload the decoder does not dispatch", tagMethod, k))
			allOK = false
		}
	}
	for k, T := range disp {
		if _, ok := tab[k]; !ok {
			r.bad(rule, "case "+k, c.Pos(fn.Pos()), fmt.Sprintf("case %s allocates %s whose %s() returns a different constant", k, typeKey(T), tagMethod))
			allOK = false
		}
	}
	// the numbers themselves: the two sides agreeing with each other says nothing about the wire; each type the
	// reference knows carries the code the RFC assigns to it (an implementer the reference does not know - a type
	// added later - has no reference code and is only held to the bijection)
	if ref := dispatchReference[rel+"."+ifaceName]; ref != nil {
		for _, k := range ks {
			want, known := ref[typeKey(tab[k])]
			if !known {
				continue
			}
			if k == want {
				r.ok(rule, typeKey(tab[k])+" = "+want, c.Pos(fn.Pos()), "the assigned number of the reference table", true)
			} else {
				r.bad(rule, typeKey(tab[k])+" = "+want, c.Pos(fn.Pos()), fmt.Sprintf("%s() = %s, the assigned number is %s: the payload is announced under (and dispatched from) a code that is another payload's or nobody's", tagMethod, k, want))
				allOK = false
			}
		}
	}
	return cases, allOK
}

// dispatchAllocEmptyRule: "the outcome is a function of the octets only" for the two dispatching decoders: the
// object each arm hands to Unmarshal is a new empty one (not a kept object, a copy of one, or one with defaults).
func (c *Ctx) dispatchAllocEmptyRule(r *Report, rule string) {
	r.Rule(rule, "every object the payload / EAP method dispatch allocates for Unmarshal is new and empty (zero fields or new empty sub-objects): nothing from an earlier decode or from package state is visible in a decoded value", 16)
	for _, d := range []struct {
		fn    *ssa.Function
		iface string
	}{{c.Method("message", "IKEPayloadContainer", "Decode"), "IKEPayload"}, {c.Method("eap", "EAP", "Unmarshal"), "EapTypeData"}} {
		if d.fn == nil {
			r.undecided(rule, "anchor "+d.iface, "-", "anchor does not resolve")
			continue
		}
		r.Func(c.FuncName(d.fn))
		_, dphi := c.dispatchTable(d.fn, d.iface)
		if dphi == nil {
			r.undecided(rule, c.FuncName(d.fn)+": dispatch", c.Pos(d.fn.Pos()), "cannot read the dispatch (a φ of allocated implementers selected by == tests) from the decoder")
			continue
		}
		for _, e := range dphi.Edges {
			mi, ok := e.(*ssa.MakeInterface)
			if !ok {
				continue
			}
			why := c.freshZeroObject(mi.X, 0)
			r.Check(why == "", rule, typeKey(mi.X.Type())+": allocated empty", c.InstrPos(mi), "a new object whose fields are zero or new empty objects", "the object the decoder fills is not a new empty one: "+why)
		}
	}
}

// freshZeroObject: v is a new allocation whose fields hold nothing but zero values and new allocations of the
// same kind (directly, or as the result of a module constructor all of whose returns are such). "" or the reason.
func (c *Ctx) freshZeroObject(v ssa.Value, depth int) string {
	if depth > 3 {
		return "constructor nesting too deep to follow"
	}
	switch x := v.(type) {
	case *ssa.Alloc:
		for _, ref := range *x.Referrers() {
			switch u := ref.(type) {
			case *ssa.Store:
				if u.Addr == ssa.Value(x) {
					if k, ok := u.Val.(*ssa.Const); !ok || !isZeroConst(k) {
						return "the whole object is assigned from " + u.Val.String() + " at " + c.InstrPos(u)
					}
				}
			case *ssa.FieldAddr:
				for _, r2 := range *u.Referrers() {
					st, ok := r2.(*ssa.Store)
					if !ok || st.Addr != ssa.Value(u) {
						continue
					}
					if k, ok := st.Val.(*ssa.Const); ok && isZeroConst(k) {
						continue
					}
					if _, ok := st.Val.(*ssa.Alloc); ok {
						if why := c.freshZeroObject(st.Val, depth+1); why != "" {
							return why
						}
						continue
					}
					if call, ok := st.Val.(*ssa.Call); ok && call.Call.StaticCallee() != nil && c.InModule(call.Call.StaticCallee()) {
						if why := c.freshZeroObject(st.Val, depth+1); why != "" {
							return why
						}
						continue
					}
					if _, isK := st.Val.(*ssa.Const); depth == 0 && !isK {
						// a store by the decoder itself (the inner type of an SK payload, taken from the generic
						// header): the wire-slot tables account for it
						continue
					}
					return "field " + FieldKey(u.X.Type(), u.Field) + " is preset to " + st.Val.String() + " at " + c.InstrPos(st)
				}
			}
		}
		return ""
	case *ssa.Call:
		cal := x.Call.StaticCallee()
		if cal == nil || !c.InModule(cal) || len(cal.Blocks) == 0 {
			return "it comes from a call that is not resolved to a module function"
		}
		n := 0
		for _, b := range cal.Blocks {
			ret, ok := b.Instrs[len(b.Instrs)-1].(*ssa.Return)
			if !ok || len(ret.Results) != 1 {
				continue
			}
			n++
			if why := c.freshZeroObject(ret.Results[0], depth+1); why != "" {
				return why
			}
		}
		if n == 0 {
			return "constructor " + c.FuncName(cal) + " has no single-result return"
		}
		return ""
	}
	return "it is " + v.String() + ", not a new allocation"
}

// dispatchReference: RFC 7296 section 3.2 (IKEv2 payload types) and RFC 3748 section 5 / RFC 5448 (EAP method types).
var dispatchReference = map[string]map[string]string{
	"message.IKEPayload": {
		"*message.SecurityAssociation": "33", "*message.KeyExchange": "34", "*message.IdentificationInitiator": "35",
		"*message.IdentificationResponder": "36", "*message.Certificate": "37", "*message.CertificateRequest": "38",
		"*message.Authentication": "39", "*message.Nonce": "40", "*message.Notification": "41", "*message.Delete": "42",
		"*message.VendorID": "43", "*message.TrafficSelectorInitiator": "44", "*message.TrafficSelectorResponder": "45",
		"*message.Encrypted": "46", "*message.Configuration": "47", "*message.PayloadEap": "48",
	},
	"eap.EapTypeData": {
		"*eap.EapIdentity": "1", "*eap.EapNotification": "2", "*eap.EapNak": "3", "*eap.EapAkaPrime": "50", "*eap.EapExpanded": "254",
	},
}

// evalExpr evaluates a pure SSA expression tree in which the only non-constant leaf is `leaf`
// (bound to x). This is checker-side evaluation of an expression over a finite domain (all 256
// values of one octet), i.e. a decision procedure for "which bit does this test look at";
// no function of the analysed repository is run.
func evalExpr(v, leaf ssa.Value, x int64, depth int) (int64, bool) {
	if v == leaf {
		return x, true
	}
	if depth > 12 {
		return 0, false
	}
	switch e := v.(type) {
	case *ssa.Const:
		if e.Value == nil {
			return 0, false
		}
		switch e.Value.Kind() {
		case constant.Int:
			return constant.Int64Val(e.Value)
		case constant.Bool:
			if constant.BoolVal(e.Value) {
				return 1, true
			}
			return 0, true
		}
		return 0, false
	case *ssa.Convert:
		a, ok := evalExpr(e.X, leaf, x, depth+1)
		if !ok {
			return 0, false
		}
		return truncTo(a, e.Type()), true
	case *ssa.ChangeType:
		return evalExpr(e.X, leaf, x, depth+1)
	case *ssa.UnOp:
		a, ok := evalExpr(e.X, leaf, x, depth+1)
		if !ok {
			return 0, false
		}
		switch e.Op {
		case token.NOT:
			if a == 0 {
				return 1, true
			}
			return 0, true
		case token.XOR:
			return truncTo(^a, e.Type()), true
		case token.SUB:
			return truncTo(-a, e.Type()), true
		}
		return 0, false
	case *ssa.BinOp:
		a, ok1 := evalExpr(e.X, leaf, x, depth+1)
		b, ok2 := evalExpr(e.Y, leaf, x, depth+1)
		if !ok1 || !ok2 {
			return 0, false
		}
		bv := func(t bool) (int64, bool) {
			if t {
				return 1, true
			}
			return 0, true
		}
		switch e.Op {
		case token.AND:
			return a & b, true
		case token.OR:
			return a | b, true
		case token.XOR:
			return truncTo(a^b, e.Type()), true
		case token.AND_NOT:
			return a &^ b, true
		case token.SHR:
			if b < 0 || b > 63 {
				return 0, false
			}
			return a >> uint(b), true
		case token.SHL:
			if b < 0 || b > 31 {
				return 0, false
			}
			return truncTo(a<<uint(b), e.Type()), true
		case token.ADD:
			return truncTo(a+b, e.Type()), true
		case token.SUB:
			return truncTo(a-b, e.Type()), true
		case token.MUL:
			return truncTo(a*b, e.Type()), true
		case token.QUO:
			if b == 0 {
				return 0, false
			}
			return a / b, true
		case token.REM:
			if b == 0 {
				return 0, false
			}
			return a % b, true
		case token.EQL:
			return bv(a == b)
		case token.NEQ:
			return bv(a != b)
		case token.LSS:
			return bv(a < b)
		case token.LEQ:
			return bv(a <= b)
		case token.GTR:
			return bv(a > b)
		case token.GEQ:
			return bv(a >= b)
		}
	}
	return 0, false
}

func truncTo(v int64, t types.Type) int64 {
	b, ok := t.Underlying().(*types.Basic)
	if !ok {
		return v
	}
	switch b.Kind() {
	case types.Uint8:
		return v & 0xff
	case types.Uint16:
		return v & 0xffff
	case types.Uint32:
		return v & 0xffffffff
	case types.Int8:
		return int64(int8(v))
	case types.Int16:
		return int64(int16(v))
	case types.Int32:
		return int64(int32(v))
	}
	return v
}

// exprLeaves collects the non-constant leaves of a pure expression tree.
func exprLeaves(v ssa.Value, out map[ssa.Value]bool, depth int) {
	if depth > 12 {
		out[v] = true
		return
	}
	switch e := v.(type) {
	case *ssa.Const:
	case *ssa.Convert:
		exprLeaves(e.X, out, depth+1)
	case *ssa.ChangeType:
		exprLeaves(e.X, out, depth+1)
	case *ssa.UnOp:
		if e.Op == token.MUL {
			out[v] = true
		} else {
			exprLeaves(e.X, out, depth+1)
		}
	case *ssa.BinOp:
		exprLeaves(e.X, out, depth+1)
		exprLeaves(e.Y, out, depth+1)
	default:
		out[v] = true
	}
}

// isElemLoad: v = *(&base[idx]) with constant idx; returns base and idx.
func isElemLoad(v ssa.Value) (ssa.Value, int64, bool) {
	u, ok := v.(*ssa.UnOp)
	if !ok || u.Op != token.MUL {
		return nil, 0, false
	}
	ia, ok := u.X.(*ssa.IndexAddr)
	if !ok {
		return nil, 0, false
	}
	k, ok := ia.Index.(*ssa.Const)
	if !ok {
		return nil, 0, false
	}
	i, ok := constInt64(k.Value)
	return ia.X, i, ok
}

// sameExpr: structural equality of two pure expressions (loads of the same element of the same
// base count as equal: decode scope never writes its input, rule decode.no-input-write).
func sameExpr(a, b ssa.Value, depth int) bool {
	if a == b {
		return true
	}
	if depth > 10 {
		return false
	}
	switch x := a.(type) {
	case *ssa.Const:
		y, ok := b.(*ssa.Const)
		if !ok {
			return false
		}
		if x.Value == nil || y.Value == nil {
			return x.Value == nil && y.Value == nil
		}
		return constant.Compare(x.Value, token.EQL, y.Value)
	case *ssa.UnOp:
		y, ok := b.(*ssa.UnOp)
		return ok && x.Op == y.Op && sameExpr(x.X, y.X, depth+1)
	case *ssa.IndexAddr:
		y, ok := b.(*ssa.IndexAddr)
		return ok && sameExpr(x.X, y.X, depth+1) && sameExpr(x.Index, y.Index, depth+1)
	case *ssa.BinOp:
		y, ok := b.(*ssa.BinOp)
		return ok && x.Op == y.Op && sameExpr(x.X, y.X, depth+1) && sameExpr(x.Y, y.Y, depth+1)
	case *ssa.Convert:
		y, ok := b.(*ssa.Convert)
		return ok && types.Identical(x.Type(), y.Type()) && sameExpr(x.X, y.X, depth+1)
	case *ssa.ChangeType:
		y, ok := b.(*ssa.ChangeType)
		return ok && sameExpr(x.X, y.X, depth+1)
	case *ssa.Slice:
		y, ok := b.(*ssa.Slice)
		if !ok || !sameExpr(x.X, y.X, depth+1) {
			return false
		}
		eq := func(p, q ssa.Value) bool {
			if p == nil || q == nil {
				return p == nil && q == nil
			}
			return sameExpr(p, q, depth+1)
		}
		return eq(x.Low, y.Low) && eq(x.High, y.High) && eq(x.Max, y.Max)
	case *ssa.Call:
		y, ok := b.(*ssa.Call)
		if !ok || len(x.Call.Args) != len(y.Call.Args) {
			return false
		}
		cx, cy := x.Call.StaticCallee(), y.Call.StaticCallee()
		if cx == nil || cx != cy {
			return false
		}
		if _, pure := externalReadOnly[cx.String()]; !pure {
			return false
		}
		for i := range x.Call.Args {
			if !sameExpr(x.Call.Args[i], y.Call.Args[i], depth+1) {
				return false
			}
		}
		return true
	}
	return false
}

// RunC13 decides property C13.
func RunC13(c *Ctx, r *Report) {
	prefix := "C13."
	r.Explanation = "CFG rules on the payload-chain walker: (1) the case constants and the Type() methods of the 16 implementers are inverse bijections, so every other type code reaches the default arm; (2) in the default arm the loop continues exactly when bit 7 of octet 1 of the current generic header is clear (decided by evaluating the branch condition for all 256 octet values), and then updates the next-type and cursor φ-nodes exactly as the normal path does, appending nothing; (3) the other default edge returns a non-nil error; (4) the critical bit influences no other branch; (5) progress and bounds of the skip path by the E2 prover."
	r.TrustedBase = append(r.TrustedBase, "go/types and go/ssa (x/tools v0.29.0)", "this checker's structural expression equality and finite-domain evaluation of one-octet tests")
	r.Assumptions = append(r.Assumptions, "decoders do not write their input (C18/C20 rule decode.no-input-write), so two loads of the same octet are equal")
	r.NotDecided = append(r.NotDecided, "value-level equality of the decoded messages with and without the inserted payloads; it follows from rules 1-5 because the loop carries no state other than the two φ-nodes checked")
	fn := c.Method("message", "IKEPayloadContainer", "Decode")
	if fn == nil {
		r.undecided(prefix+"anchor", "message.(*IKEPayloadContainer).Decode", "-", "anchor does not resolve")
		return
	}
	r.Func(c.FuncName(fn))
	// a critical unsupported payload inside a protected message is refused by the nested walker; that refusal
	// reaches the caller of DecodeDecrypt only if every step on the way hands it up with nothing beside it
	{
		ruleU := prefix + "unprotect.refusal-propagates"
		r.Rule(ruleU, "in DecodeDecrypt and decryptMsg the error of every call to a module function leads only to returns of a non-nil error with a nil message (the refusal of a critical unsupported payload in the embedded chain is not traded for a partial result)", 4)
		for _, g := range []*ssa.Function{c.Func("", "DecodeDecrypt"), c.Func("", "decryptMsg")} {
			if g == nil {
				r.undecided(ruleU, "anchor", "-", "DecodeDecrypt / decryptMsg does not resolve")
				continue
			}
			r.Func(c.FuncName(g))
			for _, b := range g.Blocks {
				for _, ins := range b.Instrs {
					call, ok := ins.(*ssa.Call)
					if !ok || errResult(call) == nil || len(c.CalleesAt(call).Mod) == 0 {
						continue
					}
					ok2, why := c.errorChecked(call)
					r.Check(ok2, ruleU, c.FuncName(g)+": "+c.SrcExpr(call), c.InstrPos(call), why, why)
				}
			}
		}
	}
	// an unsupported payload with an empty body is a payload too: the walker's test of the remaining length lets a
	// bare 4-octet generic header pass, at the end of the chain as anywhere else
	if w := c.slotWorld(r, prefix); w != nil {
		w.lengthGuardRuleIn(r, prefix+"decode.length-guards", fn, 1)
	}
	// whether a chain is accepted does not depend on what an earlier decode left in the message object
	c.decodeInputOnlyRule(r, prefix+"decode.input-only", c.DecodeScope(r, prefix))
	cases, _ := c.bijectionRule(r, prefix+"dispatch-bijection", fn, "message", "IKEPayload", "Type", 16)
	if cases == nil {
		return
	}
	if cases[0].Test == nil {
		r.undecided(prefix+"default-arm", "dispatch", c.Pos(fn.Pos()), "the dispatch is a lookup in a constructor table, not a sequence of tests on the type code; the skip rules are written for the latter")
		return
	}
	// the loop: header φ-nodes
	var loop *loopInfo
	for _, li := range naturalLoops(fn) {
		if li.body[cases[0].Test] {
			loop = li
		}
	}
	if loop == nil {
		r.undecided(prefix+"default-arm", "loop", c.Pos(fn.Pos()), "the type switch is not inside a loop")
		return
	}
	// loop state: the next-payload value and the cursor. The cursor is either a loop-carried byte slice that
	// is re-sliced (b = b[length:]) or an integer offset with the current payload taken as b[offset:].
	var cursor, nextT, offPhi *ssa.Phi
	var cursorVal ssa.Value
	for _, ins := range loop.header.Instrs {
		if p, ok := ins.(*ssa.Phi); ok {
			if isByteSlice(p.Type()) {
				cursor = p
				cursorVal = p
			} else if b, ok := p.Type().Underlying().(*types.Basic); ok && b.Kind() == types.Uint8 {
				nextT = p
			}
		}
	}
	if cursor == nil {
		for _, ins := range loop.header.Instrs {
			p, ok := ins.(*ssa.Phi)
			if !ok {
				continue
			}
			if b, ok := p.Type().Underlying().(*types.Basic); !ok || b.Kind() != types.Int {
				continue
			}
			for _, ref := range *p.Referrers() {
				if sl, ok := ref.(*ssa.Slice); ok && sl.Low == ssa.Value(p) && sl.High == nil && loop.body[sl.Block()] {
					if _, isParam := sl.X.(*ssa.Parameter); isParam && isByteSlice(sl.Type()) {
						offPhi, cursorVal = p, sl
					}
				}
			}
		}
	}
	ruleD := prefix + "default-arm"
	r.Rule(ruleD, "default arm: continue iff the critical bit (bit 7 of octet 1 of the current generic header) is clear, with the same φ updates as the normal path and no append; otherwise return an error", 5)
	if cursorVal == nil || nextT == nil {
		r.undecided(ruleD, "loop state", c.Pos(fn.Pos()), "cannot identify the cursor and next-payload φ-nodes of the walker loop")
		return
	}
	// the switch tag must be the next-payload φ
	tagOK := true
	for _, cs := range cases {
		t := cs.Tag
		if ct, ok := t.(*ssa.ChangeType); ok {
			t = ct.X
		}
		if cv, ok := t.(*ssa.Convert); ok {
			t = cv.X
		}
		if t != ssa.Value(nextT) {
			tagOK = false
		}
	}
	r.Check(tagOK, ruleD, "switch tag is the carried next-payload value", c.Pos(fn.Pos()), "every case compares the loop-carried next-payload φ", "a case does not test the loop-carried next-payload value")
	// default block: false successor of a test that is neither a test nor a body
	isTest, isBody := map[*ssa.BasicBlock]bool{}, map[*ssa.BasicBlock]bool{}
	for _, cs := range cases {
		isTest[cs.Test] = true
		isBody[cs.Body] = true
	}
	var def *ssa.BasicBlock
	for _, cs := range cases {
		f := cs.Test.Succs[1]
		if !isTest[f] && !isBody[f] {
			if def != nil && def != f {
				r.undecided(ruleD, "default block", c.Pos(fn.Pos()), "more than one fall-through block")
				return
			}
			def = f
		}
	}
	if def == nil {
		r.undecided(ruleD, "default block", c.Pos(fn.Pos()), "no default arm found: unknown type codes are not handled")
		return
	}
	// blocks that only jump on (left behind by an extracted-and-inlined helper) are not the arm itself
	for n := 0; n < 4 && len(def.Instrs) == 1 && len(def.Succs) == 1; n++ {
		if _, isJ := def.Instrs[0].(*ssa.Jump); !isJ {
			break
		}
		def = def.Succs[0]
	}
	iff, ok := def.Instrs[len(def.Instrs)-1].(*ssa.If)
	if !ok {
		r.bad(ruleD, "default arm tests the critical bit", c.InstrPos(def.Instrs[len(def.Instrs)-1]), "the default arm does not branch on the critical flag")
		return
	}
	leaves := map[ssa.Value]bool{}
	exprLeaves(iff.Cond, leaves, 0)
	var leaf ssa.Value
	for l := range leaves {
		leaf = l
	}
	base, idx, isEl := ssa.Value(nil), int64(-1), false
	if len(leaves) == 1 {
		base, idx, isEl = isElemLoad(leaf)
	}
	if !isEl || base != cursorVal || idx != 1 {
		r.bad(ruleD, "default arm tests the critical bit", c.InstrPos(iff), "the branch condition is not a function of octet 1 of the current generic header only")
		return
	}
	// evaluate for all 256 values
	skipOnTrue, skipOnFalse := true, true
	for x := int64(0); x < 256; x++ {
		v, ok := evalExpr(iff.Cond, leaf, x, 0)
		if !ok {
			r.undecided(ruleD, "default arm tests the critical bit", c.InstrPos(iff), "cannot evaluate the branch condition")
			return
		}
		clear := x&0x80 == 0
		if (v != 0) != clear {
			skipOnTrue = false
		}
		if (v == 0) != clear {
			skipOnFalse = false
		}
	}
	if !skipOnTrue && !skipOnFalse {
		r.bad(ruleD, "default arm tests the critical bit", c.InstrPos(iff), "the condition, evaluated for all 256 values of octet 1, is not equivalent to 'bit 7 is clear' (nor to its negation)")
		return
	}
	r.ok(ruleD, "default arm tests the critical bit", c.InstrPos(iff), "evaluated for all 256 values of octet 1: the condition is exactly 'bit 7 clear' (resp. its negation)", true)
	skip, reject := def.Succs[0], def.Succs[1]
	if skipOnFalse {
		skip, reject = reject, skip
	}
	// skip path: straight to the header, no effects, same φ updates as the normal path
	path := []*ssa.BasicBlock{}
	cur := skip
	okPath := true
	for cur != loop.header {
		path = append(path, cur)
		if len(cur.Succs) != 1 || len(path) > 4 {
			okPath = false
			break
		}
		cur = cur.Succs[0]
	}
	effects := ""
	for _, b := range path {
		for _, ins := range b.Instrs {
			switch x := ins.(type) {
			case *ssa.Store, *ssa.MapUpdate:
				effects = "store at " + c.InstrPos(ins)
			case ssa.CallInstruction:
				if _, isB := x.Common().Value.(*ssa.Builtin); isB {
					if x.Common().Value.Name() == "append" {
						effects = "append at " + c.InstrPos(ins)
					}
					continue
				}
				cs := c.CalleesAt(x)
				for _, e := range cs.External {
					if _, ro := externalReadOnly[e]; !ro {
						effects = "call to " + e
					}
				}
				if len(cs.Mod) > 0 {
					effects = "call at " + c.InstrPos(ins)
				}
			}
		}
	}
	r.Check(okPath && effects == "", ruleD, "skip path has no effect", c.InstrPos(skip.Instrs[0]), "the skip edge jumps back to the loop header without storing, appending or calling", "the skip path is not a plain jump back to the header: "+effects)
	if okPath {
		// the values the header φ-nodes receive along the skip path and along every normal path (a shared
		// latch block with its own φ-nodes is looked through)
		skipPath := append([]*ssa.BasicBlock{def}, path...)
		if len(path) == 0 {
			// the skip edge leads straight to the loop header: the test block itself is the header's predecessor
			skipPath = []*ssa.BasicBlock{def}
		}
		onSkip := map[*ssa.BasicBlock]bool{}
		for _, b := range skipPath {
			onSkip[b] = true
		}
		var normPaths [][]*ssa.BasicBlock
		for _, p := range loop.header.Preds {
			if !loop.body[p] {
				continue
			}
			if !onSkip[p] {
				normPaths = append(normPaths, []*ssa.BasicBlock{p})
				continue
			}
			// p lies on the skip path (a shared latch): the other ways into it are the normal paths
			for _, q := range p.Preds {
				if !onSkip[q] && loop.body[q] {
					normPaths = append(normPaths, []*ssa.BasicBlock{q, p})
				}
			}
		}
		valueOn := func(ph *ssa.Phi, pth []*ssa.BasicBlock) ssa.Value {
			lastB := pth[len(pth)-1]
			var v ssa.Value
			for i, p := range loop.header.Preds {
				if p == lastB {
					v = ph.Edges[i]
				}
			}
			for i := len(pth) - 1; i >= 1 && v != nil; i-- {
				if inner, ok := v.(*ssa.Phi); ok && inner.Block() == pth[i] {
					for j, p := range pth[i].Preds {
						if p == pth[i-1] {
							v = inner.Edges[j]
						}
					}
				}
			}
			return v
		}
		stateVar := cursor
		if stateVar == nil {
			stateVar = offPhi
		}
		same := len(normPaths) > 0 && stateVar != nil
		detail := ""
		var skipNext, skipCur ssa.Value
		if same {
			skipNext, skipCur = valueOn(nextT, skipPath), valueOn(stateVar, skipPath)
			if skipNext == nil || skipCur == nil {
				same = false
				detail = "the skip path does not reach the loop header"
			}
		}
		if same {
			for _, np := range normPaths {
				if !sameExpr(skipNext, valueOn(nextT, np), 0) {
					same = false
					detail = "next-payload update differs from the normal path"
				}
				if !sameExpr(skipCur, valueOn(stateVar, np), 0) {
					same = false
					detail = "cursor advance differs from the normal path"
				}
			}
			// and they are b[0] and b[length:] (resp. offset + length)
			if b0, i0, ok := isElemLoad(skipNext); !ok || b0 != cursorVal || i0 != 0 {
				same = false
				detail = "next payload type is not octet 0 of the skipped payload's generic header"
			}
			if cursor != nil {
				if sl, ok := skipCur.(*ssa.Slice); !ok || sl.X != ssa.Value(cursor) || sl.High != nil || sl.Low == nil {
					same = false
					detail = "cursor is not advanced by slicing off the skipped payload"
				}
			} else {
				if add, ok := skipCur.(*ssa.BinOp); !ok || add.Op != token.ADD || add.X != ssa.Value(offPhi) {
					same = false
					detail = "the offset is not advanced by adding the skipped payload's length"
				}
			}
		}
		r.Check(same, ruleD, "skip path updates next type and cursor like the normal path", c.InstrPos(skip.Instrs[0]), "nextPayload = b[0] and b = b[payloadLength:] on both back edges (structurally equal expressions)", detail)
	}
	// reject edge: all paths return a non-nil error
	okRej, why := c.allPathsReturnError(reject, loop)
	r.Check(okRej, ruleD, "critical unknown payload is rejected", c.InstrPos(reject.Instrs[0]), "every path from the critical edge returns a freshly made non-nil error", why)

	// rule 4: the critical bit influences nothing else
	rule4 := prefix + "critical-ignored-for-known-types"
	r.Rule(rule4, "octet 1 of the generic header (flags) flows only into the default arm's test; no case arm, payload decoder or stored field depends on it", 1)
	var bad []string
	nLoads := 0
	for _, b := range fn.Blocks {
		for _, ins := range b.Instrs {
			v, ok := ins.(ssa.Value)
			if !ok {
				continue
			}
			bs, i, ok := isElemLoad(v)
			if !ok || bs != cursorVal || i != 1 {
				continue
			}
			nLoads++
			// forward closure of uses
			seen := map[ssa.Value]bool{v: true}
			work := []ssa.Value{v}
			for len(work) > 0 {
				cur := work[len(work)-1]
				work = work[:len(work)-1]
				for _, ref := range *cur.Referrers() {
					switch x := ref.(type) {
					case *ssa.BinOp, *ssa.UnOp, *ssa.Convert, *ssa.ChangeType:
						xv := x.(ssa.Value)
						if !seen[xv] {
							seen[xv] = true
							work = append(work, xv)
						}
					case *ssa.If:
						if x.Block() != def {
							bad = append(bad, "branch at "+c.InstrPos(x))
						}
					case *ssa.DebugRef:
					default:
						bad = append(bad, "used by "+c.SrcExpr(x)+" at "+c.InstrPos(x))
					}
				}
			}
		}
	}
	// payload bodies exclude the generic header: Unmarshal receives b[4:length]
	hdrExcluded := true
	for _, b := range fn.Blocks {
		for _, ins := range b.Instrs {
			if call, ok := ins.(*ssa.Call); ok && call.Call.IsInvoke() && call.Call.Method.Name() == "Unmarshal" {
				sl, ok := call.Call.Args[0].(*ssa.Slice)
				if !ok || sl.X != cursorVal || sl.Low == nil {
					hdrExcluded = false
					continue
				}
				if k, ok := sl.Low.(*ssa.Const); !ok {
					hdrExcluded = false
				} else if v, _ := constInt64(k.Value); v < 2 {
					hdrExcluded = false
				}
			}
		}
	}
	if !hdrExcluded {
		bad = append(bad, "a payload decoder receives the generic header octets")
	}
	r.Check(len(bad) == 0 && nLoads > 0, rule4, c.FuncName(fn), c.Pos(fn.Pos()), fmt.Sprintf("%d load(s) of octet 1, each flowing only into the default arm's test; payload decoders receive b[4:length]", nLoads), "the flags octet also influences: "+strings.Join(bad, "; "))
	c.typeCodeRule(r, prefix+"type-code-decides-no-error", fn)

	// rule 5: progress and bounds of this function
	e := &E2{C: c, R: r, Prefix: prefix + "progress.", Strict: true}
	e.Run([]*ssa.Function{fn})
	r.Floors[prefix+"progress.term.loop"] = 1
}

// allPathsReturnError: every path from b leaves through a Return with a freshly made non-nil error.
func (c *Ctx) allPathsReturnError(b *ssa.BasicBlock, loop *loopInfo) (bool, string) {
	seen := map[*ssa.BasicBlock]bool{}
	st := []*ssa.BasicBlock{b}
	for len(st) > 0 {
		x := st[len(st)-1]
		st = st[:len(st)-1]
		if seen[x] {
			continue
		}
		seen[x] = true
		if x == loop.header {
			return false, "the critical edge can continue the loop"
		}
		last := x.Instrs[len(x.Instrs)-1]
		switch l := last.(type) {
		case *ssa.Return:
			if ok, why := c.isErrorReturn(l, nil); !ok {
				return false, "return at " + c.InstrPos(l) + " " + why
			}
		case *ssa.Panic:
			return false, "panics"
		default:
			st = append(st, x.Succs...)
		}
	}
	return true, ""
}

// typeCodeRule: a payload's type code - octet 16 of the IKE header, octet 0 of a generic payload header, the
// first-type argument of the walker, the NextPayload fields they are stored in - selects the decoder (the
// switch arms) and nothing else: on the way from a datagram to the decoded message no test whose failing
// side only returns an error may depend on it. Otherwise an unsupported payload is skipped in some positions
// and makes the message fail in others (at the front, where its type sits in the IKE header).
func (c *Ctx) typeCodeRule(r *Report, rule string, walker *ssa.Function) {
	r.Rule(rule, "no error exit on the decode path (ParseHeader, IKEMessage.Decode, the chain walker, DecodeDecrypt / the unprotect path) is decided by a payload type code (header octet 16, octet 0 of a generic header, the walker's first-type argument, the NextPayload fields): type codes select decoders, unknown ones reach the default arm", 3)
	var roots []*ssa.Function
	for _, fn := range []*ssa.Function{c.Func("message", "ParseHeader"), c.Method("message", "IKEMessage", "Decode"), walker, c.Func("", "DecodeDecrypt"), c.Func("", "decryptMsg")} {
		if fn != nil {
			roots = append(roots, fn)
		}
	}
	typeFields := map[string]bool{"message.IKEHeader.NextPayload": true, "message.Encrypted.NextPayload": true}
	ph := c.Func("message", "ParseHeader")
	seenFn := map[*ssa.Function]bool{}
	scope := map[*ssa.Function]bool{}
	for _, fn := range roots {
		scope[fn] = true
	}
	n := 0
	for _, fn := range roots {
		if seenFn[fn] {
			continue
		}
		seenFn[fn] = true
		f := c.NewFA(fn)
		x := newBVCtx(c, f)
		taint := map[ssa.Value]bool{}
		isSrc := func(v ssa.Value) bool {
			if fk, ok := fieldKeyOfLoad(v); ok && typeFields[fk] {
				return true
			}
			if p, ok := v.(*ssa.Parameter); ok && fn == walker && isIntType(p.Type()) {
				return true
			}
			if id, ok := x.wireLeafOf(v); ok {
				l := x.leaves[id]
				if l.Octets == 1 && l.Off.isConst() {
					if _, isParam := l.Root.(*ssa.Parameter); isParam && fn == ph && l.Off.C == 16 {
						return true
					}
					if fn == walker && l.Off.C == 0 {
						if _, isParam := l.Root.(*ssa.Parameter); !isParam {
							return true // octet 0 of the cursor: the next payload's type
						}
					}
				}
			}
			return false
		}
		intLike := func(t types.Type) bool {
			if isIntType(t) {
				return true
			}
			b, ok := t.Underlying().(*types.Basic)
			return ok && b.Info()&types.IsBoolean != 0
		}
		for changed, it := true, 0; changed && it < 20; it++ {
			changed = false
			mark := func(v ssa.Value) {
				if !taint[v] {
					taint[v] = true
					changed = true
				}
			}
			for _, p := range fn.Params {
				if isSrc(p) {
					mark(p)
				}
			}
			for _, b := range fn.Blocks {
				for _, ins := range b.Instrs {
					v, ok := ins.(ssa.Value)
					if !ok || taint[v] {
						continue
					}
					if isSrc(v) {
						mark(v)
						continue
					}
					switch e := v.(type) {
					case *ssa.BinOp:
						if taint[e.X] || taint[e.Y] {
							mark(v)
						}
					case *ssa.UnOp:
						if e.Op != token.MUL && taint[e.X] {
							mark(v)
						}
					case *ssa.Convert:
						if taint[e.X] {
							mark(v)
						}
					case *ssa.ChangeType:
						if taint[e.X] {
							mark(v)
						}
					case *ssa.Phi:
						for _, ed := range e.Edges {
							if taint[ed] {
								mark(v)
							}
						}
					case *ssa.Lookup:
						if taint[e.Index] {
							mark(v)
						}
					case *ssa.Extract:
						if taint[e.Tuple] {
							mark(v)
						}
					case *ssa.Call:
						// a predicate / conversion of the type code: the result depends on it
						res := e.Type()
						okRes := intLike(res)
						if tup, ok := res.(*types.Tuple); ok {
							for i := 0; i < tup.Len(); i++ {
								if intLike(tup.At(i).Type()) {
									okRes = true
								}
							}
						}
						if !okRes {
							continue
						}
						args := e.Call.Args
						if e.Call.IsInvoke() {
							args = append([]ssa.Value{e.Call.Value}, args...)
						}
						for _, a := range args {
							if taint[a] && intLike(a.Type()) {
								mark(v)
							}
						}
					}
				}
			}
		}
		for _, b := range fn.Blocks {
			if f.Dead[b] {
				continue
			}
			iff, ok := b.Instrs[len(b.Instrs)-1].(*ssa.If)
			if !ok || b.Succs[0] == b.Succs[1] || !taint[iff.Cond] {
				continue
			}
			n++
			text := iff.Cond.String()
			if v, ok := iff.Cond.(ssa.Instruction); ok {
				if s := c.SrcExpr(v); s != "" {
					text = s
				}
			}
			key := fmt.Sprintf("%s: test on a type code `%s`", c.FuncName(fn), text)
			e0, e1 := c.onlyErrorExit(b.Succs[0]), c.onlyErrorExit(b.Succs[1])
			// "type == K" with the error on the equal side refuses the one (implemented) type K in some malformed
			// situation; every other code, the unsupported ones included, takes the other side
			equalSideOnly := false
			if bo, ok := iff.Cond.(*ssa.BinOp); ok && (bo.Op == token.EQL || bo.Op == token.NEQ) {
				_, kx := bo.X.(*ssa.Const)
				_, ky := bo.Y.(*ssa.Const)
				if kx != ky {
					eqSucc := 0
					if bo.Op == token.NEQ {
						eqSucc = 1
					}
					if (eqSucc == 0 && e0 && !e1) || (eqSucc == 1 && e1 && !e0) {
						equalSideOnly = true
					}
				}
			}
			if equalSideOnly {
				r.ok(rule, key, c.InstrPos(iff), "the error side is the side where the code equals one particular constant: no other code, in particular no unsupported one, is refused by it", true)
			} else if e0 || e1 {
				r.bad(rule, key, c.InstrPos(iff), "one side of this test only returns an error: a datagram is refused because of the type code of a payload, so an unsupported non-critical payload in this position is not skipped")
			} else {
				r.ok(rule, key, c.InstrPos(iff), "selects a decoder / a path, both sides continue", true)
			}
		}
	}
	if n == 0 {
		r.undecided(rule, "type-code tests", "-", "no test on a type code was found on the decode path (the switch of the walker should be one)")
	}
}
