package lint

import (
	"fmt"
	"go/types"
	"sort"
	"strings"

	"ikeverif/checker/xt/ssa"
)

// Anchors that are unexported functions can be renamed by a maintainer without any change of behaviour.
// Rules name them; so that a rename is not reported as "anchor does not resolve", every unexported anchor
// has a frozen role description (package, receiver, signature, direct callers on the tree the rules were
// written for). When the name is gone, a function of the same package with the same receiver and signature
// that is called by the same functions - and only one such function - takes the role. Anything else
// (signature changed, function split or folded into its caller) stays unresolved and is reported.
type anchorSpec struct {
	Pkg, Recv, Name, Sig string
	Callers              []string
}

var anchorSpecs = []anchorSpec{
	// ANCHOR-TABLE-BEGIN (generated once with `ikelint -dump anchors`, then frozen)
	{Pkg: "eap", Recv: "EapAkaPrime", Name: "getAttrsKeys", Sig: "func() ([]eap.EapAkaPrimeAttrType)", Callers: []string{"eap.EapAkaPrime.Marshal"}},
	{Pkg: "eap", Recv: "EapAkaPrime", Name: "initMAC", Sig: "func() (error)", Callers: []string{"eap.EAP.CalcEapAkaPrimeAtMAC"}},
	{Pkg: "eap", Recv: "EapAkaPrimeAttr", Name: "setAttr", Sig: "func(eap.EapAkaPrimeAttrType, []byte) (error)", Callers: []string{"eap.EapAkaPrime.SetAttr"}},
	{Pkg: "", Recv: "", Name: "calculateIntegrity", Sig: "func(*security.IKESAKey, message.Role, []byte) ([]byte, error)", Callers: []string{"..encryptMsg", "..verifyIntegrity"}},
	{Pkg: "", Recv: "", Name: "decryptMsg", Sig: "func([]byte, *message.IKEMessage, *security.IKESAKey, message.Role) (*message.IKEMessage, error)", Callers: []string{"..DecodeDecrypt"}},
	{Pkg: "", Recv: "", Name: "decryptPayload", Sig: "func([]byte, *security.IKESAKey, message.Role) ([]byte, error)", Callers: []string{"..decryptMsg"}},
	{Pkg: "", Recv: "", Name: "encryptMsg", Sig: "func(*message.IKEMessage, *security.IKESAKey, message.Role) (error)", Callers: []string{"..EncodeEncrypt"}},
	{Pkg: "", Recv: "", Name: "encryptPayload", Sig: "func([]byte, *security.IKESAKey, message.Role) ([]byte, error)", Callers: []string{"..encryptMsg"}},
	{Pkg: "", Recv: "", Name: "verifyIntegrity", Sig: "func([]byte, []byte, *security.IKESAKey, message.Role) (error)", Callers: []string{"..decryptMsg"}},
	{Pkg: "security", Recv: "", Name: "concatenateNonceAndSPI", Sig: "func([]byte, uint64, uint64) ([]byte)", Callers: []string{"security.IKESAKey.GenerateKeyForIKESA"}},
	// ANCHOR-TABLE-END
}

// sigString: parameter and result types only (parameter names are free to change).
func sigString(fn *ssa.Function) string {
	q := func(p *types.Package) string { return p.Name() }
	tup := func(t *types.Tuple) string {
		var ps []string
		for i := 0; i < t.Len(); i++ {
			ps = append(ps, types.TypeString(t.At(i).Type(), q))
		}
		return "(" + strings.Join(ps, ", ") + ")"
	}
	return "func" + tup(fn.Signature.Params()) + " " + tup(fn.Signature.Results())
}

func recvName(fn *ssa.Function) string {
	r := fn.Signature.Recv()
	if r == nil {
		return ""
	}
	t := r.Type()
	if p, ok := t.(*types.Pointer); ok {
		t = p.Elem()
	}
	if nt, ok := t.(*types.Named); ok {
		return nt.Obj().Name()
	}
	return t.String()
}

func (c *Ctx) relPkg(fn *ssa.Function) string {
	if fn.Pkg == nil {
		return ""
	}
	return strings.TrimPrefix(strings.TrimPrefix(fn.Pkg.Pkg.Path(), c.modPath), "/")
}

// directCallers: names ("rel.Recv.Name") of the module functions with a static call to fn.
func (c *Ctx) directCallers(fn *ssa.Function) []string {
	set := map[string]bool{}
	for _, g := range c.ModFuncs {
		for _, b := range g.Blocks {
			for _, ins := range b.Instrs {
				if ci, ok := ins.(ssa.CallInstruction); ok && ci.Common().StaticCallee() == fn {
					p := g
					for p.Parent() != nil {
						p = p.Parent()
					}
					set[c.relPkg(p)+"."+recvName(p)+"."+p.Name()] = true
				}
			}
		}
	}
	var out []string
	for k := range set {
		out = append(out, k)
	}
	sort.Strings(out)
	return out
}

// AnchorTable renders the role table of the unexported anchors of the current tree (for freezing).
func (c *Ctx) AnchorTable() string {
	var sb strings.Builder
	for _, fn := range c.ModFuncs {
		if fn.Parent() != nil || fn.Object() == nil || fn.Object().Exported() || !inlineAnchors[fn.Name()] || fn.Name() == "init" || fn.Name() == "getAttribute" {
			continue
		}
		fmt.Fprintf(&sb, "\t{Pkg: %q, Recv: %q, Name: %q, Sig: %q, Callers: %#v},\n", c.relPkg(fn), recvName(fn), fn.Name(), sigString(fn), c.directCallers(fn))
	}
	return sb.String()
}

// resolveAnchors fills c.anchorAlias: anchor name -> the function that plays its role under another name.
func (c *Ctx) resolveAnchors() {
	c.anchorAlias = map[string]*ssa.Function{}
	c.aliasTarget = map[*ssa.Function]string{}
	byName := func(sp anchorSpec) *ssa.Function {
		for _, fn := range c.ModFuncs {
			if fn.Parent() == nil && fn.Name() == sp.Name && c.relPkg(fn) == sp.Pkg && recvName(fn) == sp.Recv {
				return fn
			}
		}
		return nil
	}
	missing := map[string]anchorSpec{}
	for _, sp := range anchorSpecs {
		if byName(sp) == nil {
			missing[sp.Pkg+"."+sp.Recv+"."+sp.Name] = sp
		}
	}
	if len(missing) == 0 {
		return
	}
	for round := 0; round < 3; round++ {
		progress := false
		for key, sp := range missing {
			if c.anchorAlias[key] != nil {
				continue
			}
			var cands []*ssa.Function
			for _, fn := range c.ModFuncs {
				if fn.Parent() != nil || fn.Object() == nil || c.relPkg(fn) != sp.Pkg || recvName(fn) != sp.Recv {
					continue
				}
				// an anchor may come back under an exported name the pinned tree does not have (getAttrsKeys
				// published as AttrTypes); an exported function of the pinned tree has a role of its own
				if fn.Object().Exported() && pinnedExported[c.FuncName(fn)] {
					continue
				}
				if inlineAnchors[fn.Name()] || isPkgInitName(fn.Name()) || c.aliasTarget[fn] != "" {
					continue
				}
				if sigString(fn) != sp.Sig {
					continue
				}
				// called by the functions that called the anchor (their names mapped through earlier aliases)
				have := map[string]bool{}
				for _, k := range c.directCallers(fn) {
					have[k] = true
				}
				for f2, k2 := range c.aliasTarget {
					if have[c.relPkg(f2)+"."+recvName(f2)+"."+f2.Name()] {
						have[k2] = true
					}
				}
				ok := true
				for _, want := range sp.Callers {
					if !have[want] {
						ok = false
					}
				}
				if ok {
					cands = append(cands, fn)
				}
			}
			if len(cands) == 1 {
				c.anchorAlias[key] = cands[0]
				c.aliasTarget[cands[0]] = key
				c.AnchorNotes = append(c.AnchorNotes, fmt.Sprintf("anchor %s resolved to the renamed function %s (same package, receiver and signature; called by %s)", key, cands[0].Name(), strings.Join(sp.Callers, ", ")))
				progress = true
			}
		}
		if !progress {
			break
		}
	}
}

// isAnchorFn: fn is an anchor by name or plays a renamed anchor's role.
func (c *Ctx) isAnchorFn(fn *ssa.Function) bool {
	return inlineAnchors[fn.Name()] || c.aliasTarget[fn] != ""
}

// anchorRoleOf: the pinned name whose role fn plays after a rename (resolveAnchors), if any.
func (c *Ctx) anchorRoleOf(fn *ssa.Function) (string, bool) {
	if n := c.aliasTarget[fn]; n != "" {
		return n, true
	}
	return "", false
}
