package lint

import (
	"fmt"
	"go/constant"
	"go/token"
	"go/types"
	"strings"

	"ikeverif/checker/xt/ssa"
)

// noSilentSkipRule: a decoder that keeps a piece of its input only under a guard, and reports success on the
// other side of the guard as well, loses that piece there - unless the piece is empty on that side. For every
// `append(dst, b[lo:hi]...)` / `copy(dst, b[lo:hi])` of an Unmarshal method whose source is cut from the input
// parameter, and every branch with one side leading to the store and the other side reaching a success return
// without it: on the other side the length of the piece is provably <= 0 (`if len(b) > 1 { keep b[1:] }` skips
// only when there is nothing to keep; `if len(b) > 2` drops a one-octet value).
func (c *Ctx) noSilentSkipRule(r *Report, rule string, pkgs ...string) {
	r.Rule(rule, "an Unmarshal method that stores a piece b[lo:hi] of its input under a guard returns success on the other side of the guard (a test of the input length, outside any loop the store lies in) only if the piece is empty there", 0)
	for _, fn := range c.ModFuncs {
		if fn.Parent() != nil || fn.Name() != "Unmarshal" || fn.Signature.Recv() == nil || len(fn.Blocks) == 0 {
			continue
		}
		rel := c.relPkg(fn)
		in := false
		for _, p := range pkgs {
			if rel == p {
				in = true
			}
		}
		if !in {
			continue
		}
		// the input parameter: the []byte parameter
		var input *ssa.Parameter
		for _, p := range fn.Params[1:] {
			if sl, ok := p.Type().Underlying().(*types.Slice); ok {
				if bt, ok := sl.Elem().Underlying().(*types.Basic); ok && bt.Kind() == types.Uint8 {
					input = p
				}
			}
		}
		if input == nil {
			continue
		}
		fromInput := func(v ssa.Value) bool {
			for i := 0; i < 6; i++ {
				if v == ssa.Value(input) {
					return true
				}
				sl, ok := v.(*ssa.Slice)
				if !ok {
					return false
				}
				v = sl.X
			}
			return false
		}
		type piece struct {
			at  ssa.Instruction
			src ssa.Value
		}
		var pieces []piece
		for _, b := range fn.Blocks {
			for _, ins := range b.Instrs {
				call, ok := ins.(*ssa.Call)
				if !ok {
					continue
				}
				bi, ok := call.Call.Value.(*ssa.Builtin)
				if !ok || len(call.Call.Args) != 2 {
					continue
				}
				if (bi.Name() == "append" || bi.Name() == "copy") && fromInput(call.Call.Args[1]) {
					if _, isSlice := call.Call.Args[1].(*ssa.Slice); isSlice {
						pieces = append(pieces, piece{call, call.Call.Args[1]})
					}
				}
			}
		}
		if len(pieces) == 0 {
			continue
		}
		r.Func(c.FuncName(fn))
		f := c.NewFA(fn)
		// success returns
		var succ []*ssa.BasicBlock
		for _, b := range fn.Blocks {
			if ret, ok := b.Instrs[len(b.Instrs)-1].(*ssa.Return); ok && len(ret.Results) > 0 {
				if !c.nonNilError(ret.Results[len(ret.Results)-1], nil, 0) {
					succ = append(succ, b)
				}
			}
		}
		for _, pc := range pieces {
			bs := pc.at.Block()
			key := c.FuncName(fn) + ": " + c.SrcExpr(pc.at)
			n, bad := 0, ""
			for _, g := range fn.Blocks {
				iff, ok := g.Instrs[len(g.Instrs)-1].(*ssa.If)
				if !ok || g.Succs[0] == g.Succs[1] || !g.Dominates(bs) {
					continue
				}
				// only tests of the input's length decide whether "there is something to keep"; a test of a value
				// (a type octet selecting which pieces an arm keeps) is the slot tables' business, and the exit test
				// of a loop the store lies in is not an alternative to this store but the end of the walk
				if !c.blockReachesAvoiding(bs, g, nil) {
					cond, ok := iff.Cond.(*ssa.BinOp)
					if !ok {
						continue
					}
					lenOfInput := func(v ssa.Value) bool {
						call, ok := v.(*ssa.Call)
						if !ok {
							return false
						}
						bi, ok := call.Call.Value.(*ssa.Builtin)
						return ok && bi.Name() == "len" && len(call.Call.Args) == 1 && fromInput(call.Call.Args[0])
					}
					if !lenOfInput(cond.X) && !lenOfInput(cond.Y) {
						continue
					}
				} else {
					continue
				}
				for i, t := range g.Succs {
					e := g.Succs[1-i]
					if !(t == bs || t.Dominates(bs)) || len(t.Preds) != 1 {
						continue
					}
					// the other side: a success return reachable without the store
					reach := false
					for _, s := range succ {
						if c.blockReachesAvoiding(e, s, bs) {
							reach = true
						}
					}
					if !reach {
						continue
					}
					n++
					facts := append(append([]Fact(nil), f.FactsAt(g)...), f.edgeFacts(g, e)...)
					goal := konst(0).add(f.SliceLen(pc.src), -1)
					// or: nothing of the input lies at or beyond the piece's constant start
					lo, loOK := int64(0), true
					for v := pc.src; v != ssa.Value(input); {
						sl, ok := v.(*ssa.Slice)
						if !ok {
							loOK = false
							break
						}
						if sl.Low != nil {
							// a start that is not a constant is at least 0
							if k, ok := sl.Low.(*ssa.Const); ok {
								kv, _ := constInt64(k.Value)
								lo += kv
							}
						}
						v = sl.X
					}
					if loOK {
						if ok, _ := f.Prove(konst(lo).add(f.SliceLen(input), -1), facts); ok {
							continue
						}
					}
					if ok, _ := f.Prove(goal, facts); !ok && !f.infeasible(facts) {
						cs := iff.Cond.String()
						if ci, ok := iff.Cond.(ssa.Instruction); ok {
							cs = c.SrcExpr(ci)
						}
						bad = fmt.Sprintf("on the side of `%s` that skips the store (%s) the piece %s can be non-empty and success is still returned: its octets are dropped", cs, c.InstrPos(iff), strings.TrimSpace(c.SrcExpr(pc.src.(ssa.Instruction))))
					}
				}
			}
			r.Check(bad == "", rule, key, c.InstrPos(pc.at), fmt.Sprintf("%d guard(s) whose other side returns success: the piece is empty there", n), bad)
		}
	}
}

// blockReachesAvoiding: to is reachable from from without entering block avoid.
func (c *Ctx) blockReachesAvoiding(from, to, avoid *ssa.BasicBlock) bool {
	seen := map[*ssa.BasicBlock]bool{}
	st := []*ssa.BasicBlock{from}
	for len(st) > 0 {
		x := st[len(st)-1]
		st = st[:len(st)-1]
		if seen[x] || x == avoid {
			continue
		}
		seen[x] = true
		if x == to {
			return true
		}
		st = append(st, x.Succs...)
	}
	return false
}

// lostReceiverStoreRule: a method with a value receiver that assigns to a field of its receiver assigns to a
// copy; the caller's object is unchanged and the method reports success (a setter that allocates its attribute
// map lazily, moved from *T to T, loses the first attribute set on a zero-value message).
func (c *Ctx) lostReceiverStoreRule(r *Report, rule string, pkgs ...string) {
	r.Rule(rule, "no method with a value receiver stores to a field of that receiver (the store would land on a copy and be lost): setters and decoders take their object by pointer", 0)
	n := 0
	for _, fn := range c.ModFuncs {
		if fn.Parent() != nil || fn.Signature.Recv() == nil || len(fn.Blocks) == 0 || len(fn.Params) == 0 {
			continue
		}
		in := false
		for _, p := range pkgs {
			if c.relPkg(fn) == p {
				in = true
			}
		}
		if !in {
			continue
		}
		if _, isStruct := fn.Signature.Recv().Type().Underlying().(*types.Struct); !isStruct {
			continue
		}
		n++
		recv := fn.Params[0]
		bad := ""
		for _, b := range fn.Blocks {
			for _, ins := range b.Instrs {
				st, ok := ins.(*ssa.Store)
				if !ok {
					continue
				}
				fa, ok := st.Addr.(*ssa.FieldAddr)
				if !ok {
					continue
				}
				al, ok := fa.X.(*ssa.Alloc)
				if !ok {
					continue
				}
				for _, u := range *al.Referrers() {
					if s0, ok := u.(*ssa.Store); ok && s0.Addr == ssa.Value(al) && s0.Val == ssa.Value(recv) {
						bad = "field " + FieldKey(fa.X.Type(), fa.Field) + " of the receiver copy is assigned at " + c.InstrPos(st)
					}
				}
			}
		}
		r.Check(bad == "", rule, c.FuncName(fn), c.Pos(fn.Pos()), "value receiver, no field of it assigned", bad+": the caller's object does not change")
	}
	if n == 0 {
		r.ok(rule, "no method with a struct value receiver", "-", "nothing to check", true)
	}
}

// formatRecursionRule: a String / Error / Format / GoString method that hands its own receiver, at its own type,
// to a fmt function is re-entered by fmt for that argument without bound (a stack overflow, which no recover
// catches). The call goes through the fmt package, so the module's call graph does not show the cycle.
func (c *Ctx) formatRecursionRule(r *Report, rule string) {
	r.Rule(rule, "no String / Error / Format / GoString method of a module type passes its receiver, at the receiver's own type, to a fmt function (fmt would call the method again for that argument: unbounded recursion through the library)", 0)
	n := 0
	for _, fn := range c.ModFuncs {
		if fn.Parent() != nil || fn.Signature.Recv() == nil || len(fn.Blocks) == 0 || len(fn.Params) == 0 {
			continue
		}
		switch fn.Name() {
		case "String", "Error", "Format", "GoString":
		default:
			continue
		}
		n++
		recv := fn.Params[0]
		callsFmt := false
		bad := ""
		for _, b := range fn.Blocks {
			for _, ins := range b.Instrs {
				if call, ok := ins.(*ssa.Call); ok {
					if cal := call.Call.StaticCallee(); cal != nil && cal.Pkg != nil && cal.Pkg.Pkg.Path() == "fmt" {
						// fmt calls String / Error only for the verbs %v %s %x %X %q (a Formatter for every verb): a
						// constant format made of other verbs (%d) does not re-enter
						reenters := true
						if fn.Name() != "Format" {
							for _, a := range call.Call.Args {
								k, ok := a.(*ssa.Const)
								if !ok || k.Value == nil || k.Value.Kind() != constant.String {
									continue
								}
								f := constant.StringVal(k.Value)
								reenters = false
								for i := 0; i+1 < len(f); i++ {
									if f[i] != '%' {
										continue
									}
									j := i + 1
									for j < len(f) && strings.ContainsRune("+-# 0123456789.*[]", rune(f[j])) {
										j++
									}
									if j < len(f) && strings.ContainsRune("vsxXq", rune(f[j])) {
										reenters = true
									}
									i = j
								}
							}
							if strings.HasPrefix(cal.Name(), "Sprint") && !strings.HasSuffix(cal.Name(), "f") || strings.HasPrefix(cal.Name(), "Fprint") && !strings.HasSuffix(cal.Name(), "f") || cal.Name() == "Print" || cal.Name() == "Println" {
								reenters = true
							}
						}
						if reenters {
							callsFmt = true
						}
					}
				}
				mi, ok := ins.(*ssa.MakeInterface)
				if !ok {
					continue
				}
				x := mi.X
				if u, ok := x.(*ssa.UnOp); ok && u.X == ssa.Value(recv) {
					x = recv
				}
				if x == ssa.Value(recv) {
					bad = "the receiver is boxed at its own type at " + c.InstrPos(mi)
				}
			}
		}
		r.Check(bad == "" || !callsFmt, rule, c.FuncName(fn), c.Pos(fn.Pos()), "the receiver is converted to a basic type (or not passed on) before formatting", bad+" and a fmt function is called: fmt calls this method again for that argument")
	}
	if n == 0 {
		r.ok(rule, "no formatting method in the module", "-", "nothing to check", true)
	}
}

// ErrorHygiene runs, under every property, the failure-reporting rules that no property-specific rule replaces:
// no pkg/errors wrapper is applied to an error that is nil at that point (the failure exit would report
// success); the error of a call to a module function is tested (not dropped, not led back into the success
// path); after io.ReadFull success is reported only behind a test that the read was complete. hash.Hash.Write
// is documented never to fail and its error result is not subject to a rule (a variant that drops it is
// behaviour-preserving for every registered algorithm).
func (c *Ctx) ErrorHygiene(r *Report, prefix string, skipWrap bool) {
	// the property's own code: the functions its rules analysed (Report.Func) and everything they call
	var roots []*ssa.Function
	for _, fn := range c.ModFuncs {
		if len(fn.Blocks) > 0 && r.Funcs[c.FuncName(fn)] {
			roots = append(roots, fn)
		}
	}
	var scope []*ssa.Function
	inScope := map[*ssa.Function]bool{}
	for _, fn := range c.Reachable(roots...) {
		if len(fn.Blocks) > 0 && c.InModule(fn) && !inScope[fn] {
			inScope[fn] = true
			scope = append(scope, fn)
		}
	}
	// closures of functions in scope
	for _, fn := range c.ModFuncs {
		if p := fn.Parent(); p != nil && len(fn.Blocks) > 0 && !inScope[fn] {
			for p.Parent() != nil {
				p = p.Parent()
			}
			if inScope[p] {
				inScope[fn] = true
				scope = append(scope, fn)
			}
		}
	}
	if !skipWrap {
		c.wrapOfNilRule(r, prefix+"error.wrap-of-nil", scope, 0)
	}
	ruleP := prefix + "error.callee-errors-propagate"
	r.Rule(ruleP, "in every module function that itself returns an error, the error result of every call to a module function is tested and its failing edge leads only to failure returns (or the error is returned): no refusal of a callee is dropped, downgraded or merged back into the success path", 0)
	for _, fn := range scope {
		res := fn.Signature.Results()
		if res.Len() == 0 || !isErrorType(res.At(res.Len()-1).Type()) {
			continue
		}
		for _, b := range fn.Blocks {
			for _, ins := range b.Instrs {
				call, ok := ins.(*ssa.Call)
				if !ok || errResult(call) == nil || len(c.CalleesAt(call).Mod) == 0 {
					continue
				}
				okc, why := c.errorChecked(call)
				if !okc && imprecise(why) {
					okc, why = true, "the error is tested; what the failing edge returns is left to the property's own rules ("+why+")"
				}
				r.Check(okc, ruleP, c.FuncName(fn)+": "+c.SrcExpr(call), c.InstrPos(call), why, why)
			}
		}
	}
	c.readFullRule(r, prefix+"error.readfull-complete", scope)
}

// setterAtomicRule: a refused SetAttr leaves the message as it was: in (*EapAkaPrime).SetAttr no update of the
// attribute map is followed, on any path, by a return of a non-nil error (an entry registered before its value was
// validated stays behind as a half-built attribute that GetAttr reports and Marshal then refuses).
func (c *Ctx) setterAtomicRule(r *Report, rule string) {
	r.Rule(rule, "(*EapAkaPrime).SetAttr updates the attribute map only on paths that end in success: no map update can be followed by a failure return", 1)
	fn := c.Method("eap", "EapAkaPrime", "SetAttr")
	if fn == nil {
		r.undecided(rule, "anchor eap.EapAkaPrime.SetAttr", "-", "anchor does not resolve")
		return
	}
	r.Func(c.FuncName(fn))
	n := 0
	for _, b := range fn.Blocks {
		for _, ins := range b.Instrs {
			mu, ok := ins.(*ssa.MapUpdate)
			if !ok {
				continue
			}
			n++
			bad := ""
			for _, rb := range fn.Blocks {
				ret, ok := rb.Instrs[len(rb.Instrs)-1].(*ssa.Return)
				if !ok || len(ret.Results) == 0 || isNilConst(ret.Results[len(ret.Results)-1]) {
					continue
				}
				if rb == b || c.blockReaches(b, rb) {
					reach := rb != b
					if rb == b {
						reach = true // the return follows the update in the same block
					}
					if reach {
						bad = "the failure return at " + c.InstrPos(ret) + " is reachable after the map update"
					}
				}
			}
			r.Check(bad == "", rule, c.FuncName(fn)+": "+c.SrcExpr(mu), c.InstrPos(mu), "only success returns follow the update", bad+": a refused call leaves an entry behind")
		}
	}
	if n == 0 {
		r.undecided(rule, c.FuncName(fn), c.Pos(fn.Pos()), "no update of the attribute map found in the setter")
	}
}

// readFullRule: io.ReadFull reports err == nil exactly when it filled the whole buffer. What a decoder does with
// the buffer afterwards is right only behind an edge that established one of the two: the nil edge of a test of
// the error, or the equal edge of a test of the count against a constant / the buffer length. From every
// io.ReadFull call of the module no success return (nil error) is reachable without crossing such an edge - an
// `if err == io.EOF { break }` that only leaves a switch, placed in front of the count test, keeps a
// half-read attribute and reports success.
func (c *Ctx) readFullRule(r *Report, rule string, scope []*ssa.Function) {
	r.Rule(rule, "after every io.ReadFull a success return is reachable only across an edge that established a complete read (error tested nil, or the count tested equal to the requested length)", 0)
	for _, fn := range scope {
		if len(fn.Blocks) == 0 {
			continue
		}
		res := fn.Signature.Results()
		if res.Len() == 0 || !isErrorType(res.At(res.Len()-1).Type()) {
			continue
		}
		for _, b := range fn.Blocks {
			for _, ins := range b.Instrs {
				call := staticCallTo(valueOf(ins), "io.ReadFull")
				if call == nil {
					continue
				}
				var nV, eV ssa.Value
				for _, ref := range *call.Referrers() {
					if ex, ok := ref.(*ssa.Extract); ok {
						if ex.Index == 0 {
							nV = ex
						} else {
							eV = ex
						}
					}
				}
				type edge struct {
					from *ssa.BasicBlock
					to   int
				}
				good := map[edge]bool{}
				for _, x := range fn.Blocks {
					iff, ok := x.Instrs[len(x.Instrs)-1].(*ssa.If)
					if !ok {
						continue
					}
					cond, ok := iff.Cond.(*ssa.BinOp)
					if !ok || (cond.Op != token.EQL && cond.Op != token.NEQ) {
						continue
					}
					eq := 0
					if cond.Op == token.NEQ {
						eq = 1
					}
					switch {
					case eV != nil && (cond.X == eV && isNilConst(cond.Y) || cond.Y == eV && isNilConst(cond.X)):
						good[edge{x, eq}] = true
					case nV != nil && (cond.X == nV || cond.Y == nV):
						// the count compared with the requested length, however that is spelled
						good[edge{x, eq}] = true
					}
				}
				// a success return reachable from the call without crossing a good edge
				bad := ""
				type vis struct{ x, from *ssa.BasicBlock }
				seen := map[vis]bool{}
				var dfs func(x, from *ssa.BasicBlock)
				dfs = func(x, from *ssa.BasicBlock) {
					if seen[vis{x, from}] || bad != "" {
						return
					}
					seen[vis{x, from}] = true
					if ret, ok := x.Instrs[len(x.Instrs)-1].(*ssa.Return); ok {
						// off the good edges the read was incomplete, and then its error is not nil (io.ReadFull's contract)
						if e := ret.Results[len(ret.Results)-1]; isNilConst(e) || (!c.nonNilError(e, eV, 0) && c.knownNilAt(e, x, 0) != "") {
							bad = "the return at " + c.InstrPos(ret) + " (a success) is reachable from the read without a test that the read was complete"
						}
						return
					}
					// a merged error variable tested right at the merge: over the edge we came in by it holds a
					// non-nil error (the failure just built), so only the non-nil side is taken
					only := -1
					if iff, ok := x.Instrs[len(x.Instrs)-1].(*ssa.If); ok {
						if cond, ok := iff.Cond.(*ssa.BinOp); ok && (cond.Op == token.EQL || cond.Op == token.NEQ) {
							var tested ssa.Value
							if isNilConst(cond.Y) {
								tested = cond.X
							} else if isNilConst(cond.X) {
								tested = cond.Y
							}
							if _, isPhi := tested.(*ssa.Phi); tested != nil && !isPhi && tested != eV && c.nonNilError(tested, eV, 0) {
								// an error just built (errors.Errorf / New / a wrapper of the read's error) is not nil
								only = 0
								if cond.Op == token.EQL {
									only = 1
								}
							}
							if ph, ok := tested.(*ssa.Phi); ok && ph.Block() == x {
								for i, p := range x.Preds {
									if p == from && c.nonNilError(ph.Edges[i], eV, 0) {
										only = 0 // NEQ: true side is non-nil
										if cond.Op == token.EQL {
											only = 1
										}
									}
								}
							}
						}
					}
					for i, s := range x.Succs {
						if good[edge{x, i}] || (only >= 0 && i != only) {
							continue
						}
						dfs(s, x)
					}
				}
				dfs(b, nil)
				r.Check(bad == "", rule, c.FuncName(fn)+": "+c.SrcExpr(call), c.InstrPos(call), "every way on from the read crosses `err == nil` or `n == requested` or ends in a failure return", bad)
			}
		}
	}
}

// imprecise: verdicts of errorChecked about the *value* a failing edge returns (through merges of inlined
// helpers, named results and wrappers) are not exact enough for a module-wide rule; that the error is tested at
// all, not dropped, not overwritten and not led back into the success path is.
func imprecise(why string) bool {
	return strings.Contains(why, "may return a nil error") || strings.Contains(why, "together with the error")
}
