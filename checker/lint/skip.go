package lint

import (
	"fmt"
	"go/types"
	"strings"

	"ikeverif/checker/xt/ssa"
)

// noSilentSkipRule: a decoder that keeps a piece of its input only under a guard, and reports success on the
// other side of the guard as well, loses that piece there - unless the piece is empty on that side. For every
// `append(dst, b[lo:hi]...)` / `copy(dst, b[lo:hi])` of an Unmarshal method whose source is cut from the input
// parameter, and every branch with one side leading to the store and the other side reaching a success return
// without it: on the other side the length of the piece is provably <= 0 (`if len(b) > 1 { keep b[1:] }` skips
// only when there is nothing to keep; `if len(b) > 2` drops a one-octet value).
func (c *Ctx) noSilentSkipRule(r *Report, rule string, pkgs ...string) {
	r.Rule(rule, "an Unmarshal method that stores a piece b[lo:hi] of its input under a guard returns success on the other side of the guard only if the piece is empty there", 3)
	for _, fn := range c.ModFuncs {
		if fn.Parent() != nil || fn.Name() != "Unmarshal" || fn.Signature.Recv() == nil || len(fn.Blocks) == 0 {
			continue
		}
		rel := c.relPkg(fn)
		in := false
		for _, p := range pkgs {
			if rel == p {
				in = true
			}
		}
		if !in {
			continue
		}
		// the input parameter: the []byte parameter
		var input *ssa.Parameter
		for _, p := range fn.Params[1:] {
			if sl, ok := p.Type().Underlying().(*types.Slice); ok {
				if bt, ok := sl.Elem().Underlying().(*types.Basic); ok && bt.Kind() == types.Uint8 {
					input = p
				}
			}
		}
		if input == nil {
			continue
		}
		fromInput := func(v ssa.Value) bool {
			for i := 0; i < 6; i++ {
				if v == ssa.Value(input) {
					return true
				}
				sl, ok := v.(*ssa.Slice)
				if !ok {
					return false
				}
				v = sl.X
			}
			return false
		}
		type piece struct {
			at  ssa.Instruction
			src ssa.Value
		}
		var pieces []piece
		for _, b := range fn.Blocks {
			for _, ins := range b.Instrs {
				call, ok := ins.(*ssa.Call)
				if !ok {
					continue
				}
				bi, ok := call.Call.Value.(*ssa.Builtin)
				if !ok || len(call.Call.Args) != 2 {
					continue
				}
				if (bi.Name() == "append" || bi.Name() == "copy") && fromInput(call.Call.Args[1]) {
					if _, isSlice := call.Call.Args[1].(*ssa.Slice); isSlice {
						pieces = append(pieces, piece{call, call.Call.Args[1]})
					}
				}
			}
		}
		if len(pieces) == 0 {
			continue
		}
		r.Func(c.FuncName(fn))
		f := c.NewFA(fn)
		// success returns
		var succ []*ssa.BasicBlock
		for _, b := range fn.Blocks {
			if ret, ok := b.Instrs[len(b.Instrs)-1].(*ssa.Return); ok && len(ret.Results) > 0 {
				if !c.nonNilError(ret.Results[len(ret.Results)-1], nil, 0) {
					succ = append(succ, b)
				}
			}
		}
		for _, pc := range pieces {
			bs := pc.at.Block()
			key := c.FuncName(fn) + ": " + c.SrcExpr(pc.at)
			n, bad := 0, ""
			for _, g := range fn.Blocks {
				iff, ok := g.Instrs[len(g.Instrs)-1].(*ssa.If)
				if !ok || g.Succs[0] == g.Succs[1] || !g.Dominates(bs) {
					continue
				}
				_ = iff
				for i, t := range g.Succs {
					e := g.Succs[1-i]
					if !(t == bs || t.Dominates(bs)) || len(t.Preds) != 1 {
						continue
					}
					// the other side: a success return reachable without the store
					reach := false
					for _, s := range succ {
						if c.blockReachesAvoiding(e, s, bs) {
							reach = true
						}
					}
					if !reach {
						continue
					}
					n++
					facts := append(append([]Fact(nil), f.FactsAt(g)...), f.edgeFacts(g, e)...)
					goal := konst(0).add(f.SliceLen(pc.src), -1)
					// or: nothing of the input lies at or beyond the piece's constant start
					lo, loOK := int64(0), true
					for v := pc.src; v != ssa.Value(input); {
						sl, ok := v.(*ssa.Slice)
						if !ok {
							loOK = false
							break
						}
						if sl.Low != nil {
							k, ok := sl.Low.(*ssa.Const)
							if !ok {
								loOK = false
								break
							}
							kv, _ := constInt64(k.Value)
							lo += kv
						}
						v = sl.X
					}
					if loOK {
						if ok, _ := f.Prove(konst(lo).add(f.SliceLen(input), -1), facts); ok {
							continue
						}
					}
					if ok, _ := f.Prove(goal, facts); !ok && !f.infeasible(facts) {
						cs := iff.Cond.String()
						if ci, ok := iff.Cond.(ssa.Instruction); ok {
							cs = c.SrcExpr(ci)
						}
						bad = fmt.Sprintf("on the side of `%s` that skips the store (%s) the piece %s can be non-empty and success is still returned: its octets are dropped", cs, c.InstrPos(iff), strings.TrimSpace(c.SrcExpr(pc.src.(ssa.Instruction))))
					}
				}
			}
			r.Check(bad == "", rule, key, c.InstrPos(pc.at), fmt.Sprintf("%d guard(s) whose other side returns success: the piece is empty there", n), bad)
		}
	}
}

// blockReachesAvoiding: to is reachable from from without entering block avoid.
func (c *Ctx) blockReachesAvoiding(from, to, avoid *ssa.BasicBlock) bool {
	seen := map[*ssa.BasicBlock]bool{}
	st := []*ssa.BasicBlock{from}
	for len(st) > 0 {
		x := st[len(st)-1]
		st = st[:len(st)-1]
		if seen[x] || x == avoid {
			continue
		}
		seen[x] = true
		if x == to {
			return true
		}
		st = append(st, x.Succs...)
	}
	return false
}
