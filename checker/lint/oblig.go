package lint

import (
	"crypto/sha1"
	"encoding/hex"
	"encoding/json"
	"fmt"
	"os"
	"path/filepath"
	"sort"
	"strings"
	"time"
)

// Verdicts.
const (
	Discharged = "discharged"
	Violated   = "violated"
	Undecided  = "undecided" // treated as violated: a sound checker must not pass what it cannot prove
)

// Obligation is one decided proof obligation / rule instance.
type Obligation struct {
	Rule       string `json:"rule"`             // rule id, e.g. "bounds.slice-hi"
	Key        string `json:"key"`              // rule + construct; no line numbers
	Pos        string `json:"pos"`              // file:line, diagnosis only
	Verdict    string `json:"verdict"`          // discharged | violated | undecided
	Detail     string `json:"detail,omitempty"` // proof sketch or failed goal
	NonTrivial bool   `json:"nontrivial"`       // discharge needed a fact, table row or path argument
	Clause     string `json:"clause,omitempty"` // which clause of the property this belongs to
	known      string // set when matched by a known finding
}

// Report collects the outcome of the rules of one property.
type Report struct {
	Property    string
	Level       string
	Obls        []Obligation
	Funcs       map[string]bool
	Assumptions []string
	TrustedBase []string
	Explanation string
	NotDecided  []string
	RuleDoc     map[string]string // rule id -> one line statement
	Floors      map[string]int    // rule id -> minimal number of instances
	Extra       map[string]any
	floorErrs   []string
	keyCount    map[string]int
}

func NewReport(prop, level string) *Report {
	return &Report{Property: prop, Level: level, Funcs: map[string]bool{}, RuleDoc: map[string]string{}, Floors: map[string]int{}, Extra: map[string]any{}, keyCount: map[string]int{}}
}

// Rule documents a rule and its instance floor.
func (r *Report) Rule(id, doc string, floor int) {
	r.RuleDoc[id] = doc
	r.Floors[id] = floor
}

// Add records an obligation. Keys are made unique by an ordinal suffix when repeated.
func (r *Report) Add(o Obligation) {
	base := o.Rule + " :: " + o.Key
	r.keyCount[base]++
	if n := r.keyCount[base]; n > 1 {
		o.Key = fmt.Sprintf("%s #%d", o.Key, n)
	}
	r.Obls = append(r.Obls, o)
}

func (r *Report) ok(rule, key, pos, detail string, nontrivial bool) {
	r.Add(Obligation{Rule: rule, Key: key, Pos: pos, Verdict: Discharged, Detail: detail, NonTrivial: nontrivial})
}
func (r *Report) bad(rule, key, pos, detail string) {
	r.Add(Obligation{Rule: rule, Key: key, Pos: pos, Verdict: Violated, Detail: detail, NonTrivial: true})
}
func (r *Report) undecided(rule, key, pos, detail string) {
	r.Add(Obligation{Rule: rule, Key: key, Pos: pos, Verdict: Undecided, Detail: detail, NonTrivial: true})
}

// Check adds a discharged or violated obligation depending on cond.
func (r *Report) Check(cond bool, rule, key, pos, okDetail, badDetail string) bool {
	if cond {
		r.ok(rule, key, pos, okDetail, true)
	} else {
		r.bad(rule, key, pos, badDetail)
	}
	return cond
}

func (r *Report) Func(name string) { r.Funcs[name] = true }

// KnownFinding is an entry of /verif/known_findings.json.
type KnownFinding struct {
	Property string `json:"property"`
	Rule     string `json:"rule"`
	Key      string `json:"key"`
	Status   string `json:"status"` // known | fixed
	Commit   string `json:"commit,omitempty"`
	What     string `json:"what"`
}

type KnownFile struct {
	Findings []KnownFinding `json:"findings"`
}

func LoadKnown(path string) (*KnownFile, error) {
	b, err := os.ReadFile(path)
	if err != nil {
		if os.IsNotExist(err) {
			return &KnownFile{}, nil
		}
		return nil, err
	}
	var k KnownFile
	if err := json.Unmarshal(b, &k); err != nil {
		return nil, fmt.Errorf("known findings: %v", err)
	}
	return &k, nil
}

// Outcome of finishing a report.
type Outcome struct {
	Violations   int
	KnownLines   []string
	ViolationLog []string
	ReplayPaths  []string
	Exit         int
}

func shortHash(s string) string {
	h := sha1.Sum([]byte(s))
	return hex.EncodeToString(h[:6])
}

// Finish applies floors and known findings, writes evidence and replay files, prints the lines
// required by the interface, and returns the exit status.
func (r *Report) Finish(tier string, seed int64, start time.Time, evidenceDir string, known *KnownFile, checkerCmd string, extraSamples []any) (*Outcome, error) {
	out := &Outcome{}
	// floors
	inst := map[string]int{}
	for _, o := range r.Obls {
		inst[o.Rule]++
	}
	var floorErrs []string
	for id, fl := range r.Floors {
		if inst[id] < fl {
			floorErrs = append(floorErrs, fmt.Sprintf("rule %s matched %d instances, floor is %d (a rule must not pass vacuously)", id, inst[id], fl))
		}
	}
	sort.Strings(floorErrs)
	if len(floorErrs) > 0 {
		for _, e := range floorErrs {
			fmt.Println("CANNOT-DECIDE:", e)
		}
		// A floor failure means the code moved away from the shape the rule is keyed on: the property
		// is undecided, which a sound checker reports as a violation of that rule.
		for _, e := range floorErrs {
			r.Add(Obligation{Rule: "meta.instance-floor", Key: e, Pos: "-", Verdict: Undecided, Detail: e, NonTrivial: true})
		}
	}
	// known findings
	for i := range r.Obls {
		o := &r.Obls[i]
		if o.Verdict == Discharged {
			continue
		}
		for _, k := range known.Findings {
			if k.Status == "known" && k.Property == r.Property && k.Rule == o.Rule && k.Key == o.Key {
				o.known = k.What
			}
		}
	}
	if err := os.MkdirAll(filepath.Join(evidenceDir, "replay"), 0o755); err != nil {
		return nil, err
	}
	// remove stale replay files of this property
	if ents, err := os.ReadDir(filepath.Join(evidenceDir, "replay")); err == nil {
		for _, e := range ents {
			if strings.HasPrefix(e.Name(), r.Property+"-") {
				os.Remove(filepath.Join(evidenceDir, "replay", e.Name()))
			}
		}
	}
	discharged, nontrivial := 0, map[string]bool{}
	var samples []any
	perRuleSample := map[string]int{}
	for _, o := range r.Obls {
		switch {
		case o.Verdict == Discharged:
			discharged++
			if o.NonTrivial {
				nontrivial[o.Rule+" :: "+o.Key] = true
			}
			if perRuleSample[o.Rule] < 2 && o.NonTrivial {
				perRuleSample[o.Rule]++
				samples = append(samples, map[string]any{"rule": o.Rule, "key": o.Key, "pos": o.Pos, "verdict": o.Verdict, "proof": o.Detail})
			}
		case o.known != "":
			out.KnownLines = append(out.KnownLines, fmt.Sprintf("KNOWN-FINDING: property=%s %s [%s :: %s]", r.Property, o.known, o.Rule, o.Key))
		default:
			out.Violations++
			name := fmt.Sprintf("%s-%s.json", r.Property, shortHash(o.Rule+"::"+o.Key))
			p := filepath.Join(evidenceDir, "replay", name)
			b, _ := json.MarshalIndent(map[string]any{
				"property": r.Property, "rule": o.Rule, "rule_statement": r.RuleDoc[o.Rule], "key": o.Key, "pos": o.Pos,
				"verdict": o.Verdict, "detail": o.Detail,
			}, "", " ")
			if err := os.WriteFile(p, b, 0o644); err != nil {
				return nil, err
			}
			out.ReplayPaths = append(out.ReplayPaths, p)
			out.ViolationLog = append(out.ViolationLog, fmt.Sprintf("  %s %s at %s\n      rule: %s\n      key: %s\n      %s", strings.ToUpper(o.Verdict), o.Rule, o.Pos, r.RuleDoc[o.Rule], o.Key, o.Detail))
			samples = append(samples, map[string]any{"rule": o.Rule, "key": o.Key, "pos": o.Pos, "verdict": o.Verdict, "detail": o.Detail})
		}
	}
	samples = append(samples, extraSamples...)
	if r.Assumptions == nil {
		r.Assumptions = []string{}
	}
	if r.TrustedBase == nil {
		r.TrustedBase = []string{}
	}
	if r.NotDecided == nil {
		r.NotDecided = []string{}
	}
	if out.KnownLines == nil {
		out.KnownLines = []string{}
	}
	funcs := make([]string, 0, len(r.Funcs))
	for f := range r.Funcs {
		funcs = append(funcs, f)
	}
	sort.Strings(funcs)
	ruleDocs := map[string]any{}
	for id, d := range r.RuleDoc {
		ruleDocs[id] = map[string]any{"statement": d, "instances": inst[id], "floor": r.Floors[id]}
	}
	cov := map[string]any{
		"obligations":         len(r.Obls),
		"discharged":          discharged,
		"evaluations":         len(r.Obls),
		"distinct_nontrivial": len(nontrivial),
		"rule":                "one obligation per (rule, construct) found by walking the type-checked SSA program of /repo; non-trivial = its discharge needed at least one dominating fact, table row, path or call-graph argument (counted by key, distinct)",
		"samples":             samples,
		"checker_cmd":         checkerCmd,
		"trusted_base":        r.TrustedBase,
		"explanation":         r.Explanation,
		"functions_analysed":  funcs,
		"rules":               ruleDocs,
		"not_decided":         r.NotDecided,
		"known_findings":      out.KnownLines,
	}
	for k, v := range r.Extra {
		cov[k] = v
	}
	ev := map[string]any{
		"property_id": r.Property,
		"tier":        tier,
		"seed":        seed,
		"level":       r.Level,
		"coverage":    cov,
		"assumptions": r.Assumptions,
		"wall_s":      time.Since(start).Seconds(),
		"violations":  out.Violations,
	}
	b, err := json.MarshalIndent(ev, "", " ")
	if err != nil {
		return nil, err
	}
	if err := os.WriteFile(filepath.Join(evidenceDir, r.Property+".json"), b, 0o644); err != nil {
		return nil, err
	}
	if out.Violations > 0 {
		out.Exit = 1
	}
	return out, nil
}
