package lint

import (
	"fmt"
	"go/types"
	"sort"
	"strings"

	"ikeverif/checker/xt/ssa"
)

// hash typestate bits
const (
	hsUnknown = 1 << iota
	hsFresh
	hsReset
	hsWritten
	hsSummed
)

func hsString(s int) string {
	var p []string
	for _, x := range []struct {
		b int
		n string
	}{{hsUnknown, "Unknown"}, {hsFresh, "Fresh"}, {hsReset, "Reset"}, {hsWritten, "Written"}, {hsSummed, "Summed"}} {
		if s&x.b != 0 {
			p = append(p, x.n)
		}
	}
	return strings.Join(p, "|")
}

func isHashHash(t types.Type) bool {
	nt, ok := t.(*types.Named)
	return ok && nt.Obj().Pkg() != nil && nt.Obj().Pkg().Path() == "hash" && nt.Obj().Name() == "Hash"
}

// hashTypestate runs the typestate automaton of DESIGN 3.5 over fn and reports every Write.
// Objects are identified by the canonical name of the receiver value (load classes are split by
// intervening writes to the field, which resets the state to Unknown — conservative).
func (c *Ctx) hashTypestate(r *Report, rule string, fn *ssa.Function) int {
	f := c.NewFA(fn)
	type st map[string]int
	get := func(s st, k string) int {
		if v, ok := s[k]; ok {
			return v
		}
		return hsUnknown
	}
	freshCall := func(v ssa.Value) bool {
		call, ok := v.(*ssa.Call)
		if !ok {
			return false
		}
		if cal := call.Call.StaticCallee(); cal != nil && cal.String() == "crypto/hmac.New" {
			return true
		}
		if call.Call.IsInvoke() && call.Call.Method.Name() == "Init" && isHashHash(call.Type()) {
			return true // descriptor Init builds a new HMAC (checked against the registry in C07)
		}
		return false
	}
	keyOf := func(v ssa.Value) string { return f.canon(v) }
	n := 0
	transfer := func(b *ssa.BasicBlock, s st, report bool) st {
		ns := st{}
		for k, v := range s {
			ns[k] = v
		}
		for _, ins := range b.Instrs {
			if v, ok := ins.(ssa.Value); ok && freshCall(v) {
				ns[keyOf(v)] = hsFresh
				continue
			}
			ci, ok := ins.(ssa.CallInstruction)
			if !ok {
				continue
			}
			cm := ci.Common()
			if cm.IsInvoke() && isHashHash(cm.Value.Type()) {
				k := keyOf(cm.Value)
				cur := get(ns, k)
				if freshCall(cm.Value) {
					if _, seen := ns[k]; !seen {
						cur = hsFresh
					}
				}
				switch cm.Method.Name() {
				case "Reset":
					ns[k] = hsReset
				case "Write":
					if report {
						n++
						key := fmt.Sprintf("%s: %s", c.FuncName(fn), c.SrcExpr(ins))
						if cur&^(hsFresh|hsReset|hsWritten) == 0 {
							r.ok(rule, key, c.InstrPos(ins), "state before Write is "+hsString(cur)+": the MAC/PRF computation starts from the keyed initial state", true)
						} else {
							r.bad(rule, key, c.InstrPos(ins), "state before Write may be "+hsString(cur)+": data would be appended to whatever an earlier operation left in the long-lived hash object (needs Reset or a fresh object first)")
						}
					}
					ns[k] = hsWritten
				case "Sum":
					ns[k] = hsSummed
				}
				continue
			}
			// passing a hash object to a module function: afterwards its state is unknown
			for _, a := range cm.Args {
				if isHashHash(a.Type()) {
					if len(c.CalleesAt(ci).Mod) > 0 {
						ns[keyOf(a)] = hsUnknown
					}
				}
			}
		}
		return ns
	}
	in := map[*ssa.BasicBlock]st{}
	out := map[*ssa.BasicBlock]st{}
	order := fn.DomPreorder()
	for changed, it := true, 0; changed && it < 64; it++ {
		changed = false
		for _, b := range order {
			s := st{}
			keys := map[string]bool{}
			for _, p := range b.Preds {
				for k := range out[p] {
					keys[k] = true
				}
			}
			for k := range keys {
				v := 0
				for _, p := range b.Preds {
					po, visited := out[p]
					if !visited {
						continue
					}
					v |= get(po, k)
				}
				if v == 0 {
					v = hsUnknown
				}
				s[k] = v
			}
			// φ of hash values: merge states of incoming objects
			for _, ins := range b.Instrs {
				phi, ok := ins.(*ssa.Phi)
				if !ok {
					break
				}
				if !isHashHash(phi.Type()) {
					continue
				}
				v := 0
				for i, e := range phi.Edges {
					po, visited := out[b.Preds[i]]
					if !visited {
						continue
					}
					if freshCall(e) {
						if _, seen := po[keyOf(e)]; !seen {
							v |= hsFresh
							continue
						}
					}
					v |= get(po, keyOf(e))
				}
				if v != 0 {
					s[keyOf(phi)] = v
				}
			}
			in[b] = s
			ns := transfer(b, s, false)
			old := out[b]
			same := old != nil && len(old) == len(ns)
			if same {
				for k, v := range ns {
					if old[k] != v {
						same = false
					}
				}
			}
			if !same {
				out[b] = ns
				changed = true
			}
		}
	}
	for _, b := range order {
		transfer(b, in[b], true)
	}
	return n
}

// RunC17 decides property C17.
func RunC17(c *Ctx, r *Report) {
	prefix := "C17."
	r.Explanation = "Sufficient structural condition for reusability of one IKESAKey object: (1) typestate of every hash.Hash object: Write only on a fresh object or after Reset with no Sum in between (forward dataflow, all module functions); (2) every IKECrypto method is receiver-pure and writes no package state; (3) IKESAKey fields are stored only by GenerateKeyForIKESA/NewIKESAKey, and protect, unprotect and child derivation have the SA's fields outside their mod-sets. With 1-3 the only state carried between operations is the internal state of hash objects, and every operation starts by resetting the one it uses."
	r.TrustedBase = append(r.TrustedBase, "go/types and go/ssa (x/tools v0.29.0)", "hash.Hash contract: Reset restores the keyed initial state, Sum does not change the state", "cipher.Block (AES) is stateless; the CBC mode object is created per call")
	r.Assumptions = append(r.Assumptions, "the SA key object is not used by two goroutines at once (C18 covers disjoint objects)", "EncrAesCbcCrypto.Iv/Padding are never assigned by non-test code (closed world)")
	r.NotDecided = append(r.NotDecided, "numerical equality of results (follows from 1-3 plus determinism of HMAC/AES, which are not analysed)")

	// rule 1
	rule1 := prefix + "hash.write-after-reset"
	r.Rule(rule1, "every hash.Hash.Write is on an object that is fresh (hmac.New / descriptor Init) or was Reset with no Sum in between", 4)
	for _, fn := range c.ModFuncs {
		has := false
		for _, b := range fn.Blocks {
			for _, ins := range b.Instrs {
				if ci, ok := ins.(ssa.CallInstruction); ok && ci.Common().IsInvoke() && isHashHash(ci.Common().Value.Type()) {
					has = true
				}
			}
		}
		if has {
			r.Func(c.FuncName(fn))
			c.hashTypestate(r, rule1, fn)
		}
	}

	c.libraryObjectRule(r, prefix+"key-objects-are-library-objects")
	// rule 2
	rule2 := prefix + "cipher.receiver-pure"
	r.Rule(rule2, "no IKECrypto method implementation stores to a field of its receiver type, to package state, or to non-fresh memory other than byte buffers it was handed", 2)
	if nt := c.NamedType("security/IKECrypto", "IKECrypto"); nt != nil {
		iface := nt.Underlying().(*types.Interface)
		for _, T := range c.Implementers(iface) {
			for i := 0; i < iface.NumMethods(); i++ {
				m := c.methodOf(T, iface.Method(i).Name())
				if m == nil {
					continue
				}
				r.Func(c.FuncName(m))
				var bad []string
				for _, k := range c.ModSet(m).sorted() {
					if strings.HasPrefix(k, "fresh:") {
						continue
					}
					if strings.HasPrefix(k, "field:") || strings.HasPrefix(k, "global:") || strings.HasPrefix(k, "map:") || strings.HasPrefix(k, "deref:") {
						bad = append(bad, k)
					}
				}
				// element writes into receiver-owned slices
				ar := c.Alias(&AliasCfg{Scope: c.Reachable(m), Source: func(fn *ssa.Function, v ssa.Value) bool {
					return fn == m && len(fn.Params) > 0 && v == ssa.Value(fn.Params[0])
				}})
				for _, w := range ar.WritesThrough {
					bad = append(bad, w.What+" at "+c.InstrPos(w.Ins))
				}
				if len(bad) == 0 {
					r.ok(rule2, c.FuncName(m), c.Pos(m.Pos()), "transitive effects: "+strings.Join(c.ModSet(m).sorted(), ", "), true)
				} else {
					r.bad(rule2, c.FuncName(m), c.Pos(m.Pos()), "cipher object carries state between calls: "+strings.Join(bad, "; "))
				}
			}
		}
	} else {
		r.undecided(rule2, "anchor IKECrypto", "-", "anchor does not resolve")
	}

	// rule 3
	rule3 := prefix + "sa.who-may-write"
	sa := c.NamedType("security", "IKESAKey")
	if sa == nil {
		r.undecided(rule3, "anchor security.IKESAKey", "-", "anchor does not resolve")
		return
	}
	st := sa.Underlying().(*types.Struct)
	r.Rule(rule3, "every store to a field of IKESAKey is in GenerateKeyForIKESA or NewIKESAKey, and no field address escapes", st.NumFields())
	allowedWriters := map[*ssa.Function]bool{}
	for _, w := range []*ssa.Function{c.Method("security", "IKESAKey", "GenerateKeyForIKESA"), c.Func("security", "NewIKESAKey")} {
		if w != nil {
			allowedWriters[w] = true
		}
	}
	tab := c.fieldStoreTable()
	for i := 0; i < st.NumFields(); i++ {
		k := FieldKey(sa, i)
		var bad []string
		n := 0
		if fs := tab[k]; fs != nil {
			for _, s := range fs.stores {
				n++
				if !allowedWriters[s.Parent()] {
					bad = append(bad, "store in "+c.FuncName(s.Parent())+" at "+c.InstrPos(s))
				}
			}
		}
		if c.addrOfFieldEscapes(k) {
			bad = append(bad, "the address of the field is taken")
		}
		if len(bad) == 0 {
			r.ok(rule3, k, "-", fmt.Sprintf("%d store(s), all in the key generator / constructor", n), true)
		} else {
			r.bad(rule3, k, "-", strings.Join(bad, "; "))
		}
	}
	rule4 := prefix + "sa.operations-do-not-write-sa"
	r.Rule(rule4, "protect (EncodeEncrypt), unprotect (DecodeDecrypt) and Child SA derivation have no IKESAKey field in their transitive mod-set", 3)
	for _, op := range []struct {
		name string
		fn   *ssa.Function
	}{{"ike.EncodeEncrypt", c.Func("", "EncodeEncrypt")}, {"ike.DecodeDecrypt", c.Func("", "DecodeDecrypt")}, {"(*security.ChildSAKey).GenerateKeyForChildSA", c.Method("security", "ChildSAKey", "GenerateKeyForChildSA")}} {
		if op.fn == nil {
			r.undecided(rule4, op.name, "-", "anchor does not resolve")
			continue
		}
		var bad []string
		for _, k := range c.ModSet(op.fn).sorted() {
			if strings.HasPrefix(k, "field:security.IKESAKey.") || strings.HasPrefix(k, "global:") {
				bad = append(bad, k)
			}
		}
		sort.Strings(bad)
		if len(bad) == 0 {
			r.ok(rule4, op.name, c.Pos(op.fn.Pos()), fmt.Sprintf("mod-set of %d keys contains no SA field and no package variable", len(c.ModSet(op.fn))), true)
		} else {
			r.bad(rule4, op.name, c.Pos(op.fn.Pos()), "operation writes "+strings.Join(bad, ", "))
		}
	}
}
