package lint

import (
	"fmt"
	"go/ast"
	"go/token"
	"go/types"
	"sort"
	"strings"

	"ikeverif/checker/xt/ssa"
)

func isInitFunc(fn *ssa.Function) bool {
	for fn.Parent() != nil {
		fn = fn.Parent()
	}
	return fn.Name() == "init" || strings.HasPrefix(fn.Name(), "init#")
}

// declaredPackageVars counts the names declared by package-level var declarations in the module's syntax trees.
func (c *Ctx) declaredPackageVars() int {
	n := 0
	for _, p := range c.Pkgs {
		if p.Module == nil || p.Module.Path != c.modPath {
			continue
		}
		for _, file := range p.Syntax {
			for _, d := range file.Decls {
				gd, ok := d.(*ast.GenDecl)
				if !ok || gd.Tok != token.VAR {
					continue
				}
				for _, sp := range gd.Specs {
					if vs, ok := sp.(*ast.ValueSpec); ok {
						for _, name := range vs.Names {
							if name.Name != "_" {
								n++
							}
						}
					}
				}
			}
		}
	}
	return n
}

// moduleGlobals lists package-level variables of the module.
func (c *Ctx) moduleGlobals() []*ssa.Global {
	var out []*ssa.Global
	for _, sp := range c.SSAPkgs {
		for _, m := range sp.Members {
			if g, ok := m.(*ssa.Global); ok {
				if g.Name() == "init$guard" {
					continue
				}
				out = append(out, g)
			}
		}
	}
	sort.Slice(out, func(i, j int) bool { return out[i].String() < out[j].String() })
	return out
}

// immutableDescriptor: T (named struct, pointer to one, or module interface) is a type whose
// objects cannot be modified through the API: all fields unexported, and no method of the
// module writes a field of T (receiver-pure), transitively.
func (c *Ctx) immutableDescriptor(t types.Type) (bool, string) {
	switch u := t.(type) {
	case *types.Pointer:
		return c.immutableDescriptor(u.Elem())
	}
	if _, ok := t.Underlying().(*types.Interface); ok {
		impl := c.Implementers(t.Underlying().(*types.Interface))
		if len(impl) == 0 {
			return false, "interface without module implementers"
		}
		for _, T := range impl {
			if ok, why := c.immutableDescriptor(T); !ok {
				return false, why
			}
		}
		return true, fmt.Sprintf("%d implementers, all immutable", len(impl))
	}
	nt, ok := t.(*types.Named)
	if !ok {
		if !pointerLike(t) {
			return true, "value type"
		}
		return false, "unnamed pointer-like type " + typeKey(t)
	}
	st, ok := nt.Underlying().(*types.Struct)
	if !ok {
		if !pointerLike(nt) {
			return true, "value type"
		}
		return false, typeKey(nt) + " is not a struct"
	}
	for i := 0; i < st.NumFields(); i++ {
		if st.Field(i).Exported() {
			return false, typeKey(nt) + " has exported field " + st.Field(i).Name()
		}
	}
	// no module function other than init stores to a field of nt
	prefix := "field:" + typeKey(nt) + "."
	for _, fn := range c.ModFuncs {
		if isInitFunc(fn) {
			continue
		}
		for k := range c.DirectEffects(fn) {
			if strings.HasPrefix(k, prefix) {
				return false, c.FuncName(fn) + " writes " + k
			}
		}
	}
	return true, "all fields unexported and never written outside init"
}

// RunC18 decides property C18.
func RunC18(c *Ctx, r *Report) {
	prefix := "C18."
	r.Explanation = "Sufficient structural condition for interference freedom: (1) package-level variables and everything reachable from them are written only in init (direct stores, and an alias analysis with the globals as sources for writes through derived pointers, map updates, external writers); (2) pointers reachable from globals leave the library only as immutable descriptors; (3) the module has no go statements, channels, sync/atomic, unsafe or reflect; (4) decoders never write into their input slices; (5) the only external mutable global used is crypto/rand.Reader."
	r.TrustedBase = append(r.TrustedBase, "go/types and go/ssa (x/tools v0.29.0)", "type-based alias classes", "frozen tables of external callees (which arguments they write)", "crypto/rand.Reader is safe for concurrent use (standard library contract)")
	r.Assumptions = append(r.Assumptions, "operations share no message and no SA key object (the property's own premise)", "the standard library is data-race free under its documented contracts")
	r.NotDecided = append(r.NotDecided, "data-race freedom inside the standard library", "that results equal those of a sequential run is implied by, not separately derived from, the absence of shared mutable state")

	globals := c.moduleGlobals()
	// the floor is counted independently, from the syntax: every name declared by a package-level var
	// declaration of a module package (17 on the tree the rule was written for, confirmed by hand)
	declared := c.declaredPackageVars()
	r.Rule(prefix+"globals.inventory", fmt.Sprintf("package-level variables of the module are enumerated (floor: the %d names the package-level var declarations of the syntax trees declare)", declared), declared)
	for _, g := range globals {
		r.ok(prefix+"globals.inventory", typeKey2(g), c.Pos(g.Pos()), "type "+typeKey(g.Type().(*types.Pointer).Elem()), false)
	}

	// ---- rule 1: writes only in init ----
	var scope []*ssa.Function
	for _, fn := range c.ModFuncs {
		if !isInitFunc(fn) {
			scope = append(scope, fn)
		}
	}
	isModGlobal := map[*ssa.Global]bool{}
	for _, g := range globals {
		isModGlobal[g] = true
	}
	ar := c.Alias(&AliasCfg{
		Scope: scope,
		Source: func(fn *ssa.Function, v ssa.Value) bool {
			g, ok := v.(*ssa.Global)
			return ok && isModGlobal[g]
		},
	})
	r.Rule(prefix+"globals.write-only-in-init", "no function other than init / package initialisers stores to a package-level variable or writes through memory reachable from one", 200)
	wt := map[*ssa.Function][]AliasSite{}
	for _, w := range ar.WritesThrough {
		wt[w.Fn] = append(wt[w.Fn], w)
	}
	ext := map[*ssa.Function][]AliasSite{}
	for _, w := range ar.ExtArgs {
		ext[w.Fn] = append(ext[w.Fn], w)
	}
	for _, fn := range scope {
		r.Func(c.FuncName(fn))
		var bad []string
		for _, k := range c.DirectEffects(fn).sorted() {
			if strings.HasPrefix(k, "global:") {
				bad = append(bad, "direct store to "+k)
			}
		}
		for _, w := range wt[fn] {
			bad = append(bad, w.What+" at "+c.InstrPos(w.Ins)+" ["+c.SrcExpr(w.Ins)+"]")
		}
		und := ""
		for _, w := range ext[fn] {
			und += w.What + " at " + c.InstrPos(w.Ins) + "; "
		}
		key := c.FuncName(fn)
		switch {
		case len(bad) > 0:
			r.bad(prefix+"globals.write-only-in-init", key, c.Pos(fn.Pos()), "writes package-level state outside init: "+strings.Join(bad, "; "))
		case und != "":
			r.undecided(prefix+"globals.write-only-in-init", key, c.Pos(fn.Pos()), und)
		default:
			nt := 0
			for _, lv := range ar.Tainted[fn] {
				if lv > 0 {
					nt++
				}
			}
			r.ok(prefix+"globals.write-only-in-init", key, c.Pos(fn.Pos()), fmt.Sprintf("no store/map update/external writer reaches package state (%d global-derived values tracked)", nt), nt > 0)
		}
	}

	// ---- rule 2: escape only as immutable descriptors ----
	r.Rule(prefix+"globals.escape-immutable", "a pointer reachable from a package-level variable is returned by an API function or stored into caller-visible memory only if its type is an immutable descriptor (unexported fields, never written outside init)", 8)
	checkType := func(where, pos string, t types.Type) {
		if !pointerLike(t) {
			return
		}
		if ok, why := c.immutableDescriptor(t); ok {
			r.ok(prefix+"globals.escape-immutable", where+" : "+typeKey(t), pos, why, true)
		} else {
			r.bad(prefix+"globals.escape-immutable", where+" : "+typeKey(t), pos, "global-reachable memory escapes as a mutable object: "+why)
		}
	}
	for _, fn := range scope {
		if !c.isAPI(fn) {
			continue
		}
		for _, b := range fn.Blocks {
			for _, ins := range b.Instrs {
				ret, ok := ins.(*ssa.Return)
				if !ok {
					continue
				}
				for i, res := range ret.Results {
					if ar.Level(fn, res) == 2 {
						checkType(fmt.Sprintf("%s result %d", c.FuncName(fn), i), c.InstrPos(ins), res.Type())
					}
				}
			}
		}
	}
	for _, k := range ar.SortedHeapKeys() {
		if strings.HasPrefix(k, "alloc:") {
			continue
		}
		for _, s := range ar.HeapKeys[k] {
			var val ssa.Value
			switch x := s.Ins.(type) {
			case *ssa.Store:
				val = x.Val
			case *ssa.MapUpdate:
				val = x.Value
			}
			if val != nil && ar.Level(s.Fn, val) == 2 {
				// a value boxed into an interface right here is judged by its concrete type
				t := val.Type()
				if mi, ok := val.(*ssa.MakeInterface); ok {
					t = mi.X.Type()
				}
				checkType(fmt.Sprintf("%s stores into %s", c.FuncName(s.Fn), k), c.InstrPos(s.Ins), t)
			}
		}
	}

	// ---- rule 3: no concurrency / unsafe primitives ----
	r.Rule(prefix+"no-concurrency-primitives", "no package of the module imports sync, sync/atomic, unsafe or reflect, and no function contains go, channel or select operations", 11)
	var pkgPaths []string
	for p := range c.SSAPkgs {
		pkgPaths = append(pkgPaths, p)
	}
	sort.Strings(pkgPaths)
	for _, p := range pkgPaths {
		sp := c.SSAPkgs[p]
		var bad []string
		for _, imp := range sp.Pkg.Imports() {
			switch imp.Path() {
			case "sync", "sync/atomic", "unsafe", "reflect":
				bad = append(bad, "imports "+imp.Path())
			}
		}
		for _, fn := range c.ModFuncs {
			root := fn
			for root.Parent() != nil {
				root = root.Parent()
			}
			if root.Pkg != sp {
				continue
			}
			for _, b := range fn.Blocks {
				for _, ins := range b.Instrs {
					switch x := ins.(type) {
					case *ssa.Go:
						bad = append(bad, "go statement at "+c.InstrPos(ins))
					case *ssa.Send, *ssa.Select, *ssa.MakeChan:
						bad = append(bad, "channel operation at "+c.InstrPos(ins))
					case *ssa.UnOp:
						if x.Op == token.ARROW {
							bad = append(bad, "channel receive at "+c.InstrPos(ins))
						}
					case *ssa.Convert:
						if b, ok := x.Type().Underlying().(*types.Basic); ok && b.Kind() == types.UnsafePointer {
							bad = append(bad, "unsafe.Pointer conversion at "+c.InstrPos(ins))
						}
					}
				}
			}
		}
		rel := strings.TrimPrefix(strings.TrimPrefix(p, ModulePath), "/")
		if rel == "" {
			rel = "ike"
		}
		if len(bad) == 0 {
			r.ok(prefix+"no-concurrency-primitives", rel, "-", "no sync/atomic/unsafe/reflect import, no go/chan/select", true)
		} else {
			r.bad(prefix+"no-concurrency-primitives", rel, "-", strings.Join(bad, "; "))
		}
	}

	// ---- rule 4: decoders do not write their input ----
	dscope := c.DecodeScope(r, prefix)
	dr := c.Alias(&AliasCfg{
		Scope: dscope,
		Source: func(fn *ssa.Function, v ssa.Value) bool {
			// parameters of internal helpers (unexported, every caller known) are no inputs of their own:
			// they carry what their callers pass, which the analysis propagates from the call sites
			p, ok := v.(*ssa.Parameter)
			return ok && isByteSlice(p.Type()) && !c.eligibleForCallerFacts(fn)
		},
	})
	r.Rule(prefix+"decode.no-input-write", "decode scope never writes through, copies into, or appends onto memory derived from a []byte parameter (read-only sharing of an input slice is safe)", 30)
	dw := map[*ssa.Function][]AliasSite{}
	for _, w := range dr.WritesThrough {
		dw[w.Fn] = append(dw[w.Fn], w)
	}
	for _, w := range dr.ExtArgs {
		dw[w.Fn] = append(dw[w.Fn], w)
	}
	for _, fn := range dscope {
		key := c.FuncName(fn)
		if ws := dw[fn]; len(ws) > 0 {
			var d []string
			for _, w := range ws {
				d = append(d, w.What+" at "+c.InstrPos(w.Ins))
			}
			r.bad(prefix+"decode.no-input-write", key, c.Pos(fn.Pos()), strings.Join(d, "; "))
		} else {
			n := 0
			for _, lv := range dr.Tainted[fn] {
				if lv == 2 {
					n++
				}
			}
			r.ok(prefix+"decode.no-input-write", key, c.Pos(fn.Pos()), fmt.Sprintf("%d input-derived values, none used as a write target", n), n > 0)
		}
	}

	// ---- rule 4b: the same for key derivation and Diffie-Hellman: nonces, shared secrets and keys handed in (or
	// kept in the SA object after being handed in) are read only - nothing is written through them, copied into
	// them or appended onto them (an append onto an input with spare capacity writes the caller's memory, which
	// two derivations from one nonce buffer would race on)
	var droots []*ssa.Function
	for _, spec := range [][3]string{{"security", "IKESAKey", "GenerateKeyForIKESA"}, {"security", "ChildSAKey", "GenerateKeyForChildSA"}} {
		if fn := c.Method(spec[0], spec[1], spec[2]); fn != nil {
			droots = append(droots, fn)
		}
	}
	for _, spec := range [][2]string{{"security", "NewIKESAKey"}, {"security", "NewChildSAKeyByProposal"}, {"security/lib", "PrfPlus"}, {"security", "CalculateDiffieHellmanMaterials"}} {
		if fn := c.Func(spec[0], spec[1]); fn != nil {
			droots = append(droots, fn)
		}
	}
	kscope := c.Reachable(droots...)
	kr := c.Alias(&AliasCfg{
		Scope: kscope,
		Source: func(fn *ssa.Function, v ssa.Value) bool {
			p, ok := v.(*ssa.Parameter)
			return ok && isByteSlice(p.Type()) && !c.eligibleForCallerFacts(fn)
		},
	})
	r.Rule(prefix+"derive.no-input-write", "key derivation and Diffie-Hellman never write through, copy into, or append onto memory derived from a []byte parameter (directly or after it was kept in the SA object)", 3)
	kw := map[*ssa.Function][]AliasSite{}
	for _, w := range kr.WritesThrough {
		kw[w.Fn] = append(kw[w.Fn], w)
	}
	for _, w := range kr.ExtArgs {
		kw[w.Fn] = append(kw[w.Fn], w)
	}
	for _, fn := range kscope {
		key := c.FuncName(fn)
		if ws := kw[fn]; len(ws) > 0 {
			var d []string
			for _, w := range ws {
				d = append(d, w.What+" at "+c.InstrPos(w.Ins))
			}
			r.bad(prefix+"derive.no-input-write", key, c.Pos(fn.Pos()), strings.Join(d, "; "))
		} else {
			n := 0
			for _, lv := range kr.Tainted[fn] {
				if lv == 2 {
					n++
				}
			}
			r.ok(prefix+"derive.no-input-write", key, c.Pos(fn.Pos()), fmt.Sprintf("%d input-derived values, none used as a write target", n), n > 0)
		}
	}

	// ---- rule 5: external globals ----
	r.Rule(prefix+"external-globals", "the only package-level variables of other packages that module code touches are on the frozen list (crypto/rand.Reader: concurrency-safe; io.EOF, binary.BigEndian: immutable)", 2)
	allowedExt := map[string]string{
		"crypto/rand.Reader":        "documented safe for concurrent use",
		"io.EOF":                    "immutable error value, only compared",
		"encoding/binary.BigEndian": "zero-size value",
		"io.ErrUnexpectedEOF":       "immutable error value",
	}
	extUse := map[string]string{}
	for _, fn := range c.ModFuncs {
		for _, b := range fn.Blocks {
			for _, ins := range b.Instrs {
				for _, op := range ins.Operands(nil) {
					if g, ok := (*op).(*ssa.Global); ok && !isModGlobal[g] && g.Pkg != nil && c.SSAPkgs[g.Pkg.Pkg.Path()] == nil {
						name := g.Pkg.Pkg.Path() + "." + g.Name()
						if _, seen := extUse[name]; !seen {
							extUse[name] = c.InstrPos(ins)
						}
						// stores to external globals are never allowed
						if st, ok := ins.(*ssa.Store); ok && st.Addr == ssa.Value(g) {
							r.bad(prefix+"external-globals", name+" written", c.InstrPos(ins), "module code assigns a package-level variable of another package")
						}
					}
				}
			}
		}
	}
	for _, name := range sortedKeys(extUse) {
		if why, ok := allowedExt[name]; ok {
			r.ok(prefix+"external-globals", name, extUse[name], why, true)
		} else {
			r.undecided(prefix+"external-globals", name, extUse[name], "external package-level variable not on the frozen list; its concurrency contract is unknown to the checker")
		}
	}
}

func sortedKeys(m map[string]string) []string {
	out := make([]string, 0, len(m))
	for k := range m {
		out = append(out, k)
	}
	sort.Strings(out)
	return out
}

// noSharedStateRule: the functions reachable from roots (closed world) neither store to a package-level variable
// nor write through memory reachable from one - a necessary condition for "the result is a function of the
// arguments" whenever two calls may overlap in time or follow each other (the C18 rule restricted to one
// property's code, so that the property's own check reports a hidden scratch buffer, cache or pool).
func (c *Ctx) noSharedStateRule(r *Report, rule, what string, floor int, roots ...*ssa.Function) {
	r.Rule(rule, "no function reachable from "+what+" stores to a package-level variable or writes through memory reachable from one (outside package initialisers): the result depends on the arguments only, whatever ran before or runs at the same time", floor)
	var rs []*ssa.Function
	for _, fn := range roots {
		if fn != nil {
			rs = append(rs, fn)
		}
	}
	if len(rs) == 0 {
		r.undecided(rule, "roots", "-", "no root of the rule resolves")
		return
	}
	var scope []*ssa.Function
	for _, fn := range c.Reachable(rs...) {
		if fn.Blocks != nil && c.InModule(fn) && !isInitFunc(fn) {
			scope = append(scope, fn)
		}
	}
	isModGlobal := map[*ssa.Global]bool{}
	for _, g := range c.moduleGlobals() {
		isModGlobal[g] = true
	}
	ar := c.Alias(&AliasCfg{
		Scope: scope,
		Source: func(fn *ssa.Function, v ssa.Value) bool {
			g, ok := v.(*ssa.Global)
			return ok && isModGlobal[g]
		},
	})
	wt := map[*ssa.Function][]AliasSite{}
	for _, w := range ar.WritesThrough {
		wt[w.Fn] = append(wt[w.Fn], w)
	}
	ext := map[*ssa.Function][]AliasSite{}
	for _, w := range ar.ExtArgs {
		ext[w.Fn] = append(ext[w.Fn], w)
	}
	for _, fn := range scope {
		var bad []string
		for _, k := range c.DirectEffects(fn).sorted() {
			if strings.HasPrefix(k, "global:") {
				bad = append(bad, "direct store to "+k)
			}
		}
		for _, w := range wt[fn] {
			bad = append(bad, w.What+" at "+c.InstrPos(w.Ins)+" ["+c.SrcExpr(w.Ins)+"]")
		}
		und := ""
		for _, w := range ext[fn] {
			und += w.What + " at " + c.InstrPos(w.Ins) + "; "
		}
		key := c.FuncName(fn)
		switch {
		case len(bad) > 0:
			r.bad(rule, key, c.Pos(fn.Pos()), "writes package-level state: "+strings.Join(bad, "; "))
		case und != "":
			r.undecided(rule, key, c.Pos(fn.Pos()), und)
		default:
			r.ok(rule, key, c.Pos(fn.Pos()), "no store / map update / external writer reaches package state", true)
		}
	}
}
