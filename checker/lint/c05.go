package lint

import (
	"fmt"
	"sort"
	"strings"
)

// specCompare checks one side's normalised tables against the reference layout.
func (w *slotWorld) specCompare(r *Report, rule, side string, m map[string]*normTable) {
	for _, rec := range w.recs {
		spec := w.ws.Records[rec]
		t := m[rec]
		if spec == nil {
			if t != nil && rec != "message.IKEPayloadContainer" && rec != "message.SecurityAssociation" {
				r.bad(rule, side+" "+rec, "-", "the "+side+"r has a record that the reference table does not know")
			}
			continue
		}
		if t == nil {
			r.bad(rule, side+" "+rec, "-", "the reference table has this record ("+spec.Source+") but no "+side+" table could be extracted")
			continue
		}
		// bits per field
		want := spec.bitRows(rec)
		wantByF := map[string]map[string]wbit{}
		for k, wb := range want {
			f := k[:strings.LastIndex(k, "#")]
			if wantByF[f] == nil {
				wantByF[f] = map[string]wbit{}
			}
			wantByF[f][k] = wb
		}
		got := map[string]map[string]wbit{}
		gotCond := map[string]map[string]bool{}
		for row := range t.Bits {
			if got[row.Field] == nil {
				got[row.Field] = map[string]wbit{}
				gotCond[row.Field] = map[string]bool{}
			}
			got[row.Field][fmt.Sprintf("%s#%d", row.Field, row.FBit)] = row.W
			gotCond[row.Field][row.Cond] = true
		}
		fields := map[string]bool{}
		for f := range wantByF {
			fields[f] = true
		}
		for f := range got {
			fields[f] = true
		}
		var fs []string
		for f := range fields {
			fs = append(fs, f)
		}
		sort.Strings(fs)
		for _, f := range fs {
			key := side + " " + f
			wf, gf := wantByF[f], got[f]
			if _, ext := spec.External[f[strings.LastIndex(f, ".")+1:]]; ext && wf == nil {
				r.ok(rule, key, "-", "carried outside this record: "+spec.External[f[strings.LastIndex(f, ".")+1:]], false)
				continue
			}
			if wf == nil {
				// a field of another record carried in this one (GenericPayload carries Encrypted.NextPayload)
				if rec == "message.GenericPayload" && f == "message.Encrypted.NextPayload" {
					r.ok(rule, key, "-", "octet 0 of the generic header (next payload of the SK payload)", true)
					continue
				}
				r.bad(rule, key, "-", fmt.Sprintf("the %sr maps bits of %s that the reference layout (%s) does not define: %s", side, f, spec.Source, describeMap(gf)))
				continue
			}
			if gf == nil {
				r.bad(rule, key, "-", fmt.Sprintf("the reference layout (%s) places %s at %s but the %sr does not map it", spec.Source, f, describeMap(wf), side))
				continue
			}
			var diffs []string
			for k, wb := range wf {
				if g, ok := gf[k]; !ok {
					diffs = append(diffs, k+" missing")
				} else if g != wb {
					diffs = append(diffs, fmt.Sprintf("%s at @%d.%d, reference @%d.%d", k, g.Off, g.Bit, wb.Off, wb.Bit))
				}
			}
			for k := range gf {
				if _, ok := wf[k]; !ok {
					diffs = append(diffs, k+" is outside the field's width in the reference layout")
				}
			}
			sort.Strings(diffs)
			// condition
			name := f[strings.LastIndex(f, ".")+1:]
			wantCond := spec.when(spec.Fields[name].When)
			condOK := true
			for c := range gotCond[f] {
				if c != wantCond {
					condOK = false
					diffs = append(diffs, fmt.Sprintf("present when {%s}, reference when {%s}", c, wantCond))
				}
			}
			if len(diffs) > 4 {
				diffs = append(diffs[:4], fmt.Sprintf("... %d more", len(diffs)-4))
			}
			r.Check(len(diffs) == 0 && condOK, rule, key, "-", fmt.Sprintf("%d bits at %s as in %s", len(wf), describeMap(wf), spec.Source), strings.Join(diffs, "; "))
		}
		// segments
		for _, ss := range spec.Segments {
			if strings.HasPrefix(ss.Field, "call:") {
				continue
			}
			wantCond := spec.when(ss.When)
			name := ss.Nested
			if ss.Field != "" {
				name = rec + "." + ss.Field
			}
			key := fmt.Sprintf("%s %s segment %s [%s : %s] when {%s}", side, rec, name, ss.Lo, ss.Hi, wantCond)
			found := false
			var have []string
			for _, g := range t.Segs {
				same := false
				if ss.Field != "" {
					same = g.Field == rec+"."+ss.Field
				} else {
					same = isListSeg(g) && normNested(g.Nested) == normNested(ss.Nested)
				}
				if !same {
					continue
				}
				have = append(have, fmt.Sprintf("[%s : %s] when {%s}", g.Lo, g.Hi, g.Cond))
				if ss.Field == "" {
					lo := strings.TrimSuffix(g.Lo, "+")
					if lo == "list" || strings.Fields(lo)[0] == strings.Fields(ss.Lo)[0] {
						if !strings.HasSuffix(g.Lo, "+") && g.Lo != "list" && canonTerms(g.Lo) != canonTerms(ss.Lo) {
							continue
						}
						found = true
					}
					continue
				}
				if canonTerms(g.Lo) == canonTerms(ss.Lo) && canonTerms(g.Hi) == canonTerms(ss.Hi) && g.Cond == wantCond {
					found = true
				}
			}
			r.Check(found, rule, key, "-", "as in "+spec.Source, fmt.Sprintf("the %sr has it at %v", side, have))
		}
		for _, g := range t.Segs {
			if g.Field == "" && normNested(g.Nested) == "" && side == "encode" {
				// octets that belong to no field and no nested record (fill, alignment)
				r.bad(rule, fmt.Sprintf("%s %s anonymous octets [%s : %s]", side, rec, g.Lo, g.Hi), g.Pos, "the encoder emits octets here that are no field and no nested record; the reference layout ("+spec.Source+") has no fill octets in this record")
				continue
			}
			if strings.HasPrefix(g.Field, "call:") || g.Field == "" || isListSeg(g) {
				continue
			}
			known := false
			for _, ss := range spec.Segments {
				if rec+"."+ss.Field == g.Field {
					known = true
				}
			}
			if !known {
				r.bad(rule, side+" "+rec+" segment "+g.Field, g.Pos, "the reference layout has no such octet string in this record")
			}
		}
	}
}

func describeMap(m map[string]wbit) string {
	var rows []bitRow
	for k, wb := range m {
		i := strings.LastIndex(k, "#")
		var j int
		fmt.Sscan(k[i+1:], &j)
		rows = append(rows, bitRow{Field: k[:i], FBit: j, W: wb})
	}
	return strings.Join(summarizeBits(rows), "; ")
}

// RunC05 decides property C05.
func RunC05(c *Ctx, r *Report) {
	prefix := "C05."
	r.Explanation = "The wire-slot tables of encoder (W) and decoder (R), extracted from the SSA form, are compared with a reference layout transcribed independently from RFC 7296 section 3 and RFC 3748: W = spec and R = spec for every fixed-offset field (offset, width, byte order, mask), every octet-string position (normalised through the length slots), every length/count slot (and that it carries the final length), the constants and 'last substructure' markers; reserved regions and the critical bit are written by nobody (fresh zeroed buffers) and read by nobody; the chain rule; transforms are filed by their type only."
	r.TrustedBase = append(r.TrustedBase, "go/types and go/ssa (x/tools v0.29.0)", "the checker's bit-provenance and linear-form engines", "spec/wire_layout.json, hand-transcribed from RFC 7296 3.1-3.16 and RFC 3748 4-5")
	r.Assumptions = append(r.Assumptions, "messages lie in the encodable domain (attribute types < 2^15, versions <= 15, vendor id < 2^24)")
	r.NotDecided = append(r.NotDecided, "value equality of concrete messages; 'an independently written parser recovers the fields' is replaced by 'the slot tables equal the RFC layout', which is necessary and, for fixed-offset fields, sufficient", "variable-length nesting beyond the length-slot linkage")
	w := c.slotWorld(r, prefix)
	if w == nil {
		return
	}
	r.Rule(prefix+"w-equals-spec", "encoder layout = RFC layout for every field (offset, width, byte order, mask/shift) and octet string", 60)
	w.specCompare(r, prefix+"w-equals-spec", "encode", w.enc)
	r.Rule(prefix+"r-equals-spec", "decoder layout = RFC layout for every field and octet string; in particular no reserved bit reaches a field", 60)
	w.specCompare(r, prefix+"r-equals-spec", "decode", w.dec)
	w.unresolvedRule(r, prefix+"resolved", true, true)
	w.lengthSlotRule(r, prefix+"length-slots")
	w.nestedDispatchRule(r, prefix+"nested-dispatch")
	w.strideRule(r, prefix+"record-stride")
	// a reference-built record of the shortest length the domain allows is not refused for its length
	w.lengthGuardRule(r, prefix+"decode.length-guards")
	c.counterNoWrapRule(r, prefix+"codec.counter-no-wrap")
	c.guardedNarrowingRule(r, prefix+"encode.guarded-narrowing")
	// the header's next-payload octet is what the encoder computes from the payload list (0 for an empty list),
	// never a value an earlier Decode or Encode left in the header object
	c.bookkeepingRecomputedRule(r, prefix, c.EncodeScope(r, prefix), map[string]bool{"field:message.IKEHeader.NextPayload": true, "field:message.IKEHeader.PayloadBytes": true})
	// a reference-built payload of type code K decodes to the payload type whose Type() is K
	c.bijectionRule(r, prefix+"dispatch.ike", c.Method("message", "IKEPayloadContainer", "Decode"), "message", "IKEPayload", "Type", 16)
	c.bijectionRule(r, prefix+"dispatch.eap", c.Method("eap", "EAP", "Unmarshal"), "eap", "EapTypeData", "Type", 5)
	c.assignedNumbersRule(r, prefix+"assigned-numbers", "message", "eap")
	// constants, markers, reserved
	ruleK := prefix + "constants-and-reserved"
	r.Rule(ruleK, "the only wire bits the encoder sets to 1 by constant are the type octets of EAP methods and the 'more substructures follow' markers (2 for proposals, 3 for transforms, under 'not last'); reserved fields and the critical bit are never written", 20)
	for _, rec := range w.recs {
		spec := w.ws.Records[rec]
		t := w.enc[rec]
		if spec == nil || t == nil {
			continue
		}
		want := map[string]bool{}
		for _, k := range spec.Constants {
			for i := 0; i < k.Octets*8; i++ {
				if (k.Value>>uint(i))&1 == 1 {
					wb := beBit(k.Off, k.Octets, i)
					want[fmt.Sprintf("%d.%d|", wb.Off, wb.Bit)] = true
				}
			}
		}
		for _, mk := range spec.Markers {
			for i := 0; i < mk.Octets*8; i++ {
				if (mk.More>>uint(i))&1 == 1 {
					wb := beBit(mk.Off, mk.Octets, i)
					want[fmt.Sprintf("%d.%d|#more", wb.Off, wb.Bit)] = true
				}
				if (mk.Last>>uint(i))&1 == 1 {
					wb := beBit(mk.Off, mk.Octets, i)
					want[fmt.Sprintf("%d.%d|#last", wb.Off, wb.Bit)] = true
				}
			}
		}
		var extra, missing []string
		for k := range t.Ones {
			if !want[k] {
				extra = append(extra, k)
			}
		}
		for k := range want {
			if !t.Ones[k] {
				missing = append(missing, k)
			}
		}
		sort.Strings(extra)
		sort.Strings(missing)
		detail := ""
		if len(extra) > 0 {
			detail += "sets bits " + strings.Join(extra, ", ") + " that the RFC leaves zero/reserved; "
		}
		if len(missing) > 0 {
			detail += "does not set " + strings.Join(missing, ", ")
		}
		r.Check(len(extra) == 0 && len(missing) == 0, ruleK, rec, "-", fmt.Sprintf("%d constant one-bit(s), all prescribed", len(t.Ones)), detail)
	}
	// chain
	c.chainRules(r, prefix)
	// transform filing
	ruleF := prefix + "transform-filing"
	r.Rule(ruleF, "the decoder files each transform into the proposal list selected by its transform type alone (1 encr, 2 prf, 3 integ, 4 dh, 5 esn), whatever the order on the wire", 5)
	if dt := w.dec["message.Proposal"]; dt != nil {
		filing := w.ws.Records["message.Proposal"].Filing
		for field, k := range filing {
			want := fmt.Sprintf("message.Transform.TransformType == %d", k)
			found := false
			var have []string
			for _, sg := range dt.Segs {
				if sg.Field == "message.Proposal."+field {
					have = append(have, sg.Cond)
					if sg.Cond == want {
						found = true
					}
				}
			}
			r.Check(found, ruleF, "message.Proposal."+field, "-", "appended exactly when "+want, fmt.Sprintf("filed when %v, expected %s", have, want))
		}
	}
	// EAP-AKA' (stream style): token sequences, case sets and the words-to-octets scaling
	c.akaRules(r, prefix, "decode")
}

// lengthSlotRule: C05 rule 5 (also used by C12).
func (w *slotWorld) lengthSlotRule(r *Report, ruleL string) {
	r.Rule(ruleL, "every length / count slot of the reference layout is written by the encoder with the prescribed quantity (for record lengths: the final length), and the encoder writes no other length slot", 14)
	for _, rec := range w.recs {
		spec := w.ws.Records[rec]
		t := w.enc[rec]
		if spec == nil || t == nil {
			continue
		}
		type lk struct {
			off int64
			oc  int
		}
		got := map[lk][]lenSlot{}
		for _, ls := range t.Lens {
			got[lk{ls.Off, ls.Octets}] = append(got[lk{ls.Off, ls.Octets}], ls)
		}
		for _, sl := range spec.Lengths {
			key := fmt.Sprintf("%s @%d w%d = %s", rec, sl.Off, sl.Octets, sl.Of)
			gs := got[lk{sl.Off, sl.Octets}]
			delete(got, lk{sl.Off, sl.Octets})
			if len(gs) == 0 {
				r.bad(ruleL, key, "-", "the encoder does not write this slot")
				continue
			}
			ok := true
			var have []string
			for _, g := range gs {
				of := g.Of
				if strings.Contains(of, ".Type()") {
					of = "next-payload"
				}
				if of != sl.Of && sameCountAsSum(sl.Of, of) {
					// the number of elements of a concatenation of lists is the sum of the lists' lengths
					of = sl.Of
				}
				have = append(have, of)
				if of != sl.Of {
					ok = false
				}
			}
			r.Check(ok, ruleL, key, gs[0].Pos, "written with "+strings.Join(uniqStrings(have), " / "), "the encoder writes "+strings.Join(have, " / ")+" there")
		}
		for k, gs := range got {
			r.bad(ruleL, fmt.Sprintf("%s @%d w%d", rec, k.off, k.oc), gs[0].Pos, "the encoder writes "+gs[0].Of+" into a slot the reference layout does not define as a length")
		}
	}
}

// sameCountAsSum: want is "count(A+B+...)" and got is "val:0 +1*len(A) +1*len(B) ..." over exactly the same
// fields, each once: the element count of the concatenated lists, spelled as the sum of their lengths.
func sameCountAsSum(want, got string) bool {
	if !strings.HasPrefix(want, "count(") || !strings.HasSuffix(want, ")") || !strings.HasPrefix(got, "val:0 ") {
		return false
	}
	ws := strings.Split(strings.TrimSuffix(strings.TrimPrefix(want, "count("), ")"), "+")
	gs := strings.Fields(strings.TrimPrefix(got, "val:0 "))
	if len(ws) != len(gs) {
		return false
	}
	seen := map[string]int{}
	for _, g := range gs {
		if !strings.HasPrefix(g, "+1*len(") || !strings.HasSuffix(g, ")") {
			return false
		}
		seen[strings.TrimSuffix(strings.TrimPrefix(g, "+1*len("), ")")]++
	}
	for _, w := range ws {
		if seen[w] != 1 {
			return false
		}
	}
	return true
}
