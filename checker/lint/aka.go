package lint

import (
	"fmt"
	"go/constant"
	"go/token"
	"go/types"
	"os"
	"sort"
	"strings"

	"ikeverif/checker/xt/ssa"
)

// Stream-style codec engine for EAP-AKA' (DESIGN 3.6): reader calls and binary.Write calls are
// turned into token sequences along the success paths of the decoder / encoder.

type akaTok struct {
	W   string // "1", "2", ... or "v" (variable)
	To  string // field:<Struct.Field> | const:<k> | drop | pad
	Pos string
	At  *LF    // encode, cursor style: position of the write in the result buffer
	Len *LF    // encode, cursor style: number of octets a variable-width write copies
	Hi  *LF    // encode, cursor style: end of the window a variable-width write may fill
	Src string // decode, variable-width reads: what the number of octets read derives from ("bits": the two octets after the length, divided by 8; "octets": those octets unscaled; "length": the length octet only)
}

func (t akaTok) String() string { return "[" + t.W + "→" + t.To + "]" }

type akaPath struct {
	Label string // case label: sorted constants joined by ",", or "default" / "header"
	Toks  []akaTok
	Opt   string // decisions on optional branches, e.g. "pad"
}

func toksString(ts []akaTok) string {
	var p []string
	for _, t := range ts {
		p = append(p, t.String())
	}
	return strings.Join(p, "")
}

func widthOfType(t types.Type) string {
	if n, ok := typeBits(t); ok && n >= 8 {
		return fmt.Sprint(n / 8)
	}
	return "v"
}

// storeTargetOf: where value v (possibly through conversions) is stored: "field:Struct.Field" or "".
func storeTargetOf(v ssa.Value, depth int) string {
	if depth > 4 || v.Referrers() == nil {
		return "" // (a package-level variable or a function has no referrer list)
	}
	for _, ref := range *v.Referrers() {
		switch x := ref.(type) {
		case *ssa.Store:
			if x.Val == v {
				if fa, ok := x.Addr.(*ssa.FieldAddr); ok {
					return "field:" + strings.TrimPrefix(FieldKey(fa.X.Type(), fa.Field), "field:")
				}
			}
		case *ssa.ChangeType:
			if t := storeTargetOf(x, depth+1); t != "" {
				return t
			}
		case *ssa.Convert:
			if t := storeTargetOf(x, depth+1); t != "" {
				return t
			}
		case *ssa.Call:
			if cal := x.Call.StaticCallee(); cal != nil && strings.HasPrefix(cal.String(), "(encoding/binary.bigEndian).Uint") {
				if t := storeTargetOf(x, depth+1); t != "" {
					return t
				}
			}
		}
	}
	return ""
}

// constCheckedOf: v is compared against a constant and a mismatch is an error: returns the constant.
func (c *Ctx) constCheckedOf(v ssa.Value, depth int) string {
	if depth > 3 {
		return ""
	}
	for _, ref := range *v.Referrers() {
		switch x := ref.(type) {
		case *ssa.ChangeType:
			if k := c.constCheckedOf(x, depth+1); k != "" {
				return k
			}
		case *ssa.BinOp:
			if x.Op != token.NEQ && x.Op != token.EQL {
				continue
			}
			k, ok := x.Y.(*ssa.Const)
			if !ok || k.Value == nil {
				continue
			}
			for _, r2 := range *x.Referrers() {
				if iff, ok := r2.(*ssa.If); ok {
					bad := iff.Block().Succs[0]
					if x.Op == token.EQL {
						bad = iff.Block().Succs[1]
					}
					if c.onlyErrorExit(bad) {
						return k.Value.ExactString()
					}
				}
			}
		}
	}
	return ""
}

// akaDecodePaths enumerates the success paths of EapAkaPrime.Unmarshal: one header path and, per
// attribute case, the token sequence from the type octet to the map update.
func (c *Ctx) akaDecodePaths(fn *ssa.Function) (header akaPath, cases []akaPath, err error) {
	f := c.NewFA(fn)
	loops := naturalLoops(fn)
	if len(loops) != 1 {
		return header, nil, fmt.Errorf("expected one attribute loop, found %d", len(loops))
	}
	li := loops[0]
	// target: the block with the MapUpdate
	var target *ssa.BasicBlock
	for _, b := range sortedBlocks(li.body) {
		for _, ins := range b.Instrs {
			if _, ok := ins.(*ssa.MapUpdate); ok {
				target = b
			}
		}
	}
	if target == nil {
		return header, nil, fmt.Errorf("no map update in the attribute loop")
	}
	tokOf := func(ins ssa.Instruction) (akaTok, bool) {
		call, ok := ins.(*ssa.Call)
		if !ok {
			return akaTok{}, false
		}
		cal := call.Call.StaticCallee()
		if cal == nil {
			return akaTok{}, false
		}
		switch cal.String() {
		case "(*bufio.Reader).ReadByte":
			v := resultN(call, 0)
			to := "drop"
			if v != nil {
				if t := storeTargetOf(v, 0); t != "" {
					to = t
				} else if k := c.constCheckedOf(v, 0); k != "" {
					to = "const:" + k
				}
			}
			return akaTok{W: "1", To: to, Pos: c.InstrPos(ins)}, true
		case "io.ReadFull":
			buf := call.Call.Args[1]
			w := "v"
			if l := f.SliceLen(buf); l.isConst() {
				w = fmt.Sprint(l.C)
			}
			to := "drop"
			root, _, _, _ := f.relSpan(buf)
			if fk, ok := fieldKeyOfLoad(buf); ok {
				to = "field:" + fk
			} else if fk, ok := fieldKeyOfLoad(root); ok {
				to = "field:" + fk
			} else if t := storeTargetOf(buf, 0); t != "" {
				to = t
			} else if t := storeTargetOf(root, 0); t != "" {
				to = t
			} else {
				// buffer later read by Uint16 and stored
				for _, cand := range []ssa.Value{buf, root} {
					if cand == nil || cand.Referrers() == nil {
						continue // a package-level buffer has no referrer list: nothing is read back from it here
					}
					for _, ref := range *cand.Referrers() {
						if c2, ok := ref.(*ssa.Call); ok && c2 != call {
							if cc := c2.Call.StaticCallee(); cc != nil && strings.HasPrefix(cc.String(), "(encoding/binary.bigEndian).Uint") {
								if t := storeTargetOf(c2, 0); t != "" {
									to = t
								}
							}
						}
						if sl, ok := ref.(*ssa.Slice); ok {
							for _, r3 := range *sl.Referrers() {
								if c2, ok := r3.(*ssa.Call); ok && c2 != call {
									if cc := c2.Call.StaticCallee(); cc != nil && strings.HasPrefix(cc.String(), "(encoding/binary.bigEndian).Uint") {
										if t := storeTargetOf(c2, 0); t != "" {
											to = t
										}
									}
								}
							}
						}
					}
				}
			}
			src := ""
			if w == "v" {
				src = akaLenOrigin(buf)
			}
			return akaTok{W: w, To: to, Pos: c.InstrPos(ins), Src: src}, true
		}
		return akaTok{}, false
	}
	// header: straight success path from entry to the loop header
	cur := fn.Blocks[0]
	seen := map[*ssa.BasicBlock]bool{}
	for cur != li.header && !seen[cur] {
		seen[cur] = true
		for _, ins := range cur.Instrs {
			if t, ok := tokOf(ins); ok {
				header.Toks = append(header.Toks, t)
			}
		}
		next := c.successSucc(cur, nil)
		if next == nil {
			return header, nil, fmt.Errorf("cannot follow the header path at %s", c.InstrPos(cur.Instrs[len(cur.Instrs)-1]))
		}
		cur = next
	}
	header.Label = "header"
	// loop body: enumerate paths header -> target
	var out []akaPath
	var walk func(b *ssa.BasicBlock, toks []akaTok, consts []string, negs int, opt []string, visited map[*ssa.BasicBlock]bool, depth int)
	walk = func(b *ssa.BasicBlock, toks []akaTok, consts []string, negs int, opt []string, visited map[*ssa.BasicBlock]bool, depth int) {
		if depth > 200 || visited[b] || !li.body[b] {
			return
		}
		visited = copyVisited(visited)
		visited[b] = true
		for _, ins := range b.Instrs {
			if t, ok := tokOf(ins); ok {
				toks = append(append([]akaTok(nil), toks...), t)
			}
		}
		if b == target {
			label := "default"
			if len(consts) > 0 {
				label = strings.Join(consts, ",")
			}
			out = append(out, akaPath{Label: label, Toks: toks, Opt: strings.Join(opt, ",")})
			return
		}
		last := b.Instrs[len(b.Instrs)-1]
		iff, ok := last.(*ssa.If)
		if !ok {
			for _, s := range b.Succs {
				walk(s, toks, consts, negs, opt, visited, depth+1)
			}
			return
		}
		// case test on the attribute type?
		if cond, ok := iff.Cond.(*ssa.BinOp); ok && cond.Op == token.EQL {
			if k, ok := cond.Y.(*ssa.Const); ok && k.Value != nil && k.Value.Kind() == constant.Int {
				if _, fld, isF := fieldLoad(cond.X); isF && fld == "attrType" {
					walk(b.Succs[0], toks, append(append([]string(nil), consts...), k.Value.ExactString()), negs, opt, visited, depth+1)
					if len(consts) == 0 {
						walk(b.Succs[1], toks, consts, negs+1, opt, visited, depth+1)
					}
					return
				}
			}
		}
		if next := c.successSucc(b, li); next != nil {
			walk(next, toks, consts, negs, opt, visited, depth+1)
			return
		}
		// genuine two-way branch (optional padding): follow both
		walk(b.Succs[0], toks, consts, negs, append(append([]string(nil), opt...), "T"), visited, depth+1)
		walk(b.Succs[1], toks, consts, negs, append(append([]string(nil), opt...), "F"), visited, depth+1)
	}
	walk(li.header, nil, nil, 0, nil, map[*ssa.BasicBlock]bool{}, 0)
	// merge labels of cases that share a body: paths with label "11" "1" "2" and equal tokens
	merged := map[string]*akaPath{}
	var order []string
	for _, p := range out {
		key := toksString(p.Toks) + "|" + p.Opt
		if m, ok := merged[key]; ok && (m.Label == "default") == (p.Label == "default") {
			if p.Label != "default" {
				m.Label = m.Label + "," + p.Label
			}
			continue
		}
		cp := p
		merged[key+"|"+fmt.Sprint(p.Label == "default")] = &cp
		merged[key] = &cp
		order = append(order, key)
	}
	seenP := map[*akaPath]bool{}
	for _, k := range order {
		p := merged[k]
		if seenP[p] {
			continue
		}
		seenP[p] = true
		ls := strings.Split(p.Label, ",")
		sort.Strings(ls)
		p.Label = strings.Join(uniqStrings(ls), ",")
		cases = append(cases, *p)
	}
	return header, cases, nil
}

func uniqStrings(a []string) []string {
	var out []string
	for i, s := range a {
		if i == 0 || s != a[i-1] {
			out = append(out, s)
		}
	}
	return out
}

func copyVisited(m map[*ssa.BasicBlock]bool) map[*ssa.BasicBlock]bool {
	n := make(map[*ssa.BasicBlock]bool, len(m)+1)
	for k, v := range m {
		n[k] = v
	}
	return n
}

// successSucc picks the successor of a branching block that continues the success path:
// the nil side of an error test, or the side that is not an error exit / loop exit. nil if both continue.
func (c *Ctx) successSucc(b *ssa.BasicBlock, li *loopInfo) *ssa.BasicBlock {
	last := b.Instrs[len(b.Instrs)-1]
	iff, ok := last.(*ssa.If)
	if !ok {
		if len(b.Succs) == 1 {
			return b.Succs[0]
		}
		return nil
	}
	if cond, ok := iff.Cond.(*ssa.BinOp); ok && (cond.Op == token.NEQ || cond.Op == token.EQL) {
		if isErrorType(cond.X.Type()) && isNilConst(cond.Y) {
			if cond.Op == token.NEQ {
				return b.Succs[1]
			}
			return b.Succs[0]
		}
	}
	e0, e1 := c.onlyErrorExit(b.Succs[0]), c.onlyErrorExit(b.Succs[1])
	if li != nil {
		if !li.body[b.Succs[0]] {
			e0 = true
		}
		if !li.body[b.Succs[1]] {
			e1 = true
		}
	}
	switch {
	case e0 && !e1:
		return b.Succs[1]
	case e1 && !e0:
		return b.Succs[0]
	}
	// a one-armed if without reader/writer tokens (lazy initialisation): continue at the join
	for i := 0; i < 2; i++ {
		arm, join := b.Succs[i], b.Succs[1-i]
		if len(arm.Succs) == 1 && arm.Succs[0] == join && !hasCodecCall(arm) {
			return join
		}
	}
	return nil
}

func hasCodecCall(b *ssa.BasicBlock) bool {
	for _, ins := range b.Instrs {
		if call, ok := ins.(*ssa.Call); ok {
			if cal := call.Call.StaticCallee(); cal != nil {
				switch cal.String() {
				case "(*bufio.Reader).ReadByte", "(*bytes.Reader).ReadByte", "io.ReadFull", "encoding/binary.Write", "(*bytes.Buffer).WriteByte", "(*bytes.Buffer).Write":
					return true
				}
			}
			if ap := isAppendCall(call); ap != nil && isPlainByteSlice(ap.Type()) {
				return true // octets appended to the output
			}
		}
	}
	return false
}

// akaEncodePaths enumerates the success paths of EapAkaPrime.Marshal.
func (c *Ctx) akaEncodePaths(fn *ssa.Function) (header akaPath, body []akaPath, err error) {
	loops := naturalLoops(fn)
	// the attribute loop: the one loop that emits octets (binary.Write / buffer writes / appends of octets);
	// a key-collecting loop folded into Marshal emits none
	var li *loopInfo
	fa := c.NewFA(fn)
	bx := newBVCtx(c, fa)
	// cursor style: the result is one zeroed buffer of the final size (make([]byte, n), returned as it is) that is
	// filled at a running offset; its writes are the emissions, each with its position
	var resBuf *ssa.MakeSlice
	for _, b := range fn.Blocks {
		if ret, ok := b.Instrs[len(b.Instrs)-1].(*ssa.Return); ok && len(ret.Results) >= 1 {
			if mk, ok := ret.Results[0].(*ssa.MakeSlice); ok && isPlainByteSlice(mk.Type()) && mk.Len == mk.Cap {
				resBuf = mk
			}
		}
	}
	// bufWrite: ins writes into resBuf: position, tokens
	bufWrite := func(ins ssa.Instruction) (LF, []akaTok, bool) {
		if resBuf == nil {
			return LF{}, nil, false
		}
		pos := c.InstrPos(ins)
		dataTok := func(w string, data ssa.Value) akaTok {
			if k, ok := data.(*ssa.Const); ok && k.Value != nil {
				return akaTok{W: w, To: "const:" + k.Value.ExactString(), Pos: pos}
			}
			if fk, ok := fieldKeyOfLoad(data); ok {
				return akaTok{W: w, To: "field:" + fk, Pos: pos}
			}
			return akaTok{W: w, To: "?", Pos: pos}
		}
		switch x := ins.(type) {
		case *ssa.Store:
			ia, ok := x.Addr.(*ssa.IndexAddr)
			if !ok || !isByteSlice(ia.X.Type()) {
				return LF{}, nil, false
			}
			root, lo, _, _ := fa.relSpan(ia.X)
			if root != ssa.Value(resBuf) {
				return LF{}, nil, false
			}
			return fa.unwrapOffset(lo.add(fa.LFOf(ia.Index), 1)), nil, true
		case *ssa.Call:
			if bi, ok := x.Call.Value.(*ssa.Builtin); ok && bi.Name() == "copy" {
				root, lo, hi, _ := fa.relSpan(x.Call.Args[0])
				if root != ssa.Value(resBuf) {
					return LF{}, nil, false
				}
				t := akaTok{W: "v", To: "?", Pos: pos}
				if fk, ok := fieldKeyOfLoad(x.Call.Args[1]); ok {
					t.To = "field:" + fk
				}
				ln := fa.SliceLen(x.Call.Args[1])
				t.Len = &ln
				h := fa.unwrapOffset(hi)
				t.Hi = &h
				return fa.unwrapOffset(lo), []akaTok{t}, true
			}
			if cal := x.Call.StaticCallee(); cal != nil {
				n := 0
				switch cal.String() {
				case "(encoding/binary.bigEndian).PutUint16":
					n = 2
				case "(encoding/binary.bigEndian).PutUint32":
					n = 4
				case "(encoding/binary.bigEndian).PutUint64":
					n = 8
				}
				if n > 0 {
					root, lo, _, _ := fa.relSpan(x.Call.Args[1])
					if root != ssa.Value(resBuf) {
						return LF{}, nil, false
					}
					return fa.unwrapOffset(lo), []akaTok{dataTok(fmt.Sprint(n), x.Call.Args[2])}, true
				}
			}
		}
		return LF{}, nil, false
	}
	emits := func(ins ssa.Instruction) bool {
		if _, _, ok := bufWrite(ins); ok {
			return true
		}
		call, ok := ins.(*ssa.Call)
		if !ok {
			return false
		}
		if staticCallTo(call, "encoding/binary.Write") != nil {
			return true
		}
		if cal := call.Call.StaticCallee(); cal != nil && (cal.String() == "(*bytes.Buffer).WriteByte" || cal.String() == "(*bytes.Buffer).Write") {
			return true
		}
		if ap := isAppendCall(call); ap != nil && isPlainByteSlice(ap.Type()) {
			if _, isField := fieldKeyOfLoad(ap.Call.Args[0]); !isField {
				return true
			}
		}
		return false
	}
	nEmit := 0
	var emitting []*loopInfo
	for _, l := range loops {
		has := false
		for b := range l.body {
			for _, ins := range b.Instrs {
				if emits(ins) {
					has = true
				}
			}
		}
		if has {
			emitting = append(emitting, l)
		}
	}
	// the attribute loop is the outermost emitting loop; an emitting loop nested in it (octet-by-octet fill)
	// is handled as part of one attribute
	for _, l := range emitting {
		nested := false
		for _, o := range emitting {
			if o != l && o.body[l.header] {
				nested = true
			}
		}
		if !nested {
			nEmit++
			li = l
		}
	}
	if nEmit != 1 {
		return header, nil, fmt.Errorf("expected one attribute loop that emits octets, found %d (of %d loops)", nEmit, len(loops))
	}
	// zeroFill: an inner loop whose only emission is the constant octet 0 (padding written one octet at a time)
	zeroFill := map[*ssa.BasicBlock]*loopInfo{}
	for _, l := range emitting {
		if l == li || !li.body[l.header] {
			continue
		}
		onlyZero := true
		for b := range l.body {
			for _, ins := range b.Instrs {
				call, ok := ins.(*ssa.Call)
				if !ok || !emits(ins) {
					continue
				}
				ap := isAppendCall(call)
				if ap == nil {
					onlyZero = false
					continue
				}
				sl, ok := ap.Call.Args[1].(*ssa.Slice)
				if !ok {
					onlyZero = false
					continue
				}
				al, ok := sl.X.(*ssa.Alloc)
				if !ok {
					onlyZero = false
					continue
				}
				for _, ref := range *al.Referrers() {
					if ia, ok := ref.(*ssa.IndexAddr); ok {
						for _, r2 := range *ia.Referrers() {
							if st, ok := r2.(*ssa.Store); ok {
								if k, ok := st.Val.(*ssa.Const); !ok || k.Value == nil || k.Value.ExactString() != "0" {
									onlyZero = false
								}
							}
						}
					}
				}
			}
		}
		if onlyZero {
			zeroFill[l.header] = l
		}
	}
	tokOf1 := func(ins ssa.Instruction) (akaTok, bool) {
		call := staticCallTo(valueOf(ins), "encoding/binary.Write")
		if call == nil {
			return akaTok{}, false
		}
		data := call.Call.Args[2]
		if mi, ok := data.(*ssa.MakeInterface); ok {
			data = mi.X
		}
		w := widthOfType(data.Type())
		to := "?"
		switch x := data.(type) {
		case *ssa.Const:
			if x.Value != nil {
				to = "const:" + x.Value.ExactString()
			}
		case *ssa.MakeSlice:
			to = "pad"
		case *ssa.Call:
			// attr.attrType.Value(): a module method that converts its receiver
			if cal := x.Call.StaticCallee(); cal != nil && c.InModule(cal) && len(x.Call.Args) == 1 {
				if fk, ok := fieldKeyOfLoad(x.Call.Args[0]); ok {
					to = "field:" + fk
				}
			}
		default:
			if fk, ok := fieldKeyOfLoad(data); ok {
				to = "field:" + fk
			} else if sl, ok := data.(*ssa.Slice); ok {
				if _, isAl := sl.X.(*ssa.Alloc); isAl {
					to = "pad"
				}
			}
		}
		return akaTok{W: w, To: to, Pos: c.InstrPos(ins)}, true
	}
	// one octet written by value: which field octet (or constant) it is
	octetTok := func(v ssa.Value, pos string) akaTok {
		for {
			if cv, ok := v.(*ssa.Convert); ok {
				if call, isCall := cv.X.(*ssa.Call); isCall && call.Call.StaticCallee() != nil {
					v = cv.X
					continue
				}
			}
			break
		}
		if call, ok := v.(*ssa.Call); ok {
			if cal := call.Call.StaticCallee(); cal != nil && c.InModule(cal) && len(call.Call.Args) == 1 {
				if fk, ok := fieldKeyOfLoad(call.Call.Args[0]); ok {
					return akaTok{W: "1", To: "field:" + fk, Pos: pos}
				}
			}
		}
		bv := bx.Eval(v)
		if kv, ok := bvConst(bv); ok {
			return akaTok{W: "1", To: fmt.Sprintf("const:%d", kv&0xff), Pos: pos}
		}
		if len(bv) >= 8 && bv[0].K == bRef {
			l := bx.leaves[bv[0].Leaf]
			same := true
			for i := 0; i < 8; i++ {
				if bv[i].K != bRef || bv[i].Leaf != bv[0].Leaf || bv[i].Idx != bv[0].Idx+i {
					same = false
				}
			}
			if same && l.Kind == "field" && bv[0].Idx%8 == 0 {
				if l.Width == 8 {
					return akaTok{W: "1", To: "field:" + l.Key, Pos: pos}
				}
				return akaTok{W: "1", To: fmt.Sprintf("field:%s#%d", l.Key, bv[0].Idx/8), Pos: pos}
			}
		}
		return akaTok{W: "1", To: "?", Pos: pos}
	}
	toksOf := func(ins ssa.Instruction) []akaTok {
		if t, ok := tokOf1(ins); ok {
			return []akaTok{t}
		}
		if at, ts, ok := bufWrite(ins); ok {
			if st, isStore := ins.(*ssa.Store); isStore {
				ts = []akaTok{octetTok(st.Val, c.InstrPos(ins))}
			}
			for i := range ts {
				a := at
				ts[i].At = &a
			}
			return ts
		}
		// out := []byte{b0, b1, ...} as the start of the output: the literal's octets are the first ones emitted
		if sl, ok := ins.(*ssa.Slice); ok && isPlainByteSlice(sl.Type()) && sl.Low == nil && sl.High == nil {
			if al, ok := sl.X.(*ssa.Alloc); ok && isByteArrayPtr(al.Type()) && isAppendBase(sl, 0) {
				n, _ := arrayLen(al.Type())
				pos := c.InstrPos(ins)
				out := make([]akaTok, n)
				for i := range out {
					out[i] = akaTok{W: "1", To: "const:0", Pos: pos}
				}
				for _, ref := range *al.Referrers() {
					ia, ok := ref.(*ssa.IndexAddr)
					if !ok {
						continue
					}
					k, ok := ia.Index.(*ssa.Const)
					if !ok {
						return []akaTok{{W: "v", To: "?", Pos: pos}}
					}
					idx, _ := constInt64(k.Value)
					for _, r2 := range *ia.Referrers() {
						if st, ok := r2.(*ssa.Store); ok && idx >= 0 && idx < n {
							out[idx] = octetTok(st.Val, pos)
						}
					}
				}
				return out
			}
		}
		call, ok := ins.(*ssa.Call)
		if !ok {
			return nil
		}
		if ap := isAppendCall(call); ap != nil && isPlainByteSlice(ap.Type()) {
			if _, isField := fieldKeyOfLoad(ap.Call.Args[0]); isField {
				return nil // an append onto a field of the message is not an emission
			}
			// out = append(out, b0, b1, ...) / append(out, value...) / append(out, make([]byte, pad)...)
			src := ap.Call.Args[1]
			pos := c.InstrPos(ins)
			if sl, ok := src.(*ssa.Slice); ok {
				if al, ok := sl.X.(*ssa.Alloc); ok && isByteArrayPtr(al.Type()) {
					n, _ := arrayLen(al.Type())
					out := make([]akaTok, n)
					for i := range out {
						out[i] = akaTok{W: "1", To: "const:0", Pos: pos}
					}
					stored := false
					for _, ref := range *al.Referrers() {
						ia, ok := ref.(*ssa.IndexAddr)
						if !ok {
							continue
						}
						k, ok := ia.Index.(*ssa.Const)
						if !ok {
							return []akaTok{{W: "v", To: "?", Pos: pos}}
						}
						idx, _ := constInt64(k.Value)
						for _, r2 := range *ia.Referrers() {
							if st, ok := r2.(*ssa.Store); ok && idx >= 0 && idx < n {
								out[idx] = octetTok(st.Val, pos)
								stored = true
							}
						}
					}
					if !stored {
						return []akaTok{{W: "v", To: "pad", Pos: pos}} // a zero array: fill octets
					}
					return out
				}
			}
			if _, ok := src.(*ssa.MakeSlice); ok {
				return []akaTok{{W: "v", To: "pad", Pos: pos}}
			}
			if fk, ok := fieldKeyOfLoad(src); ok {
				return []akaTok{{W: "v", To: "field:" + fk, Pos: pos}}
			}
			if k, ok := src.(*ssa.Const); ok && k.Value == nil {
				return nil
			}
			return []akaTok{{W: "v", To: "?", Pos: pos}}
		}
		cal := call.Call.StaticCallee()
		if cal == nil {
			return nil
		}
		switch cal.String() {
		case "(*bytes.Buffer).WriteByte":
			return []akaTok{octetTok(call.Call.Args[1], c.InstrPos(ins))}
		case "(*bytes.Buffer).Write":
			// a field of octets, or zero padding made on the spot: what binary.Write of the same value gives
			if src := call.Call.Args[1]; true {
				if _, ok := src.(*ssa.MakeSlice); ok {
					return []akaTok{{W: "v", To: "pad", Pos: c.InstrPos(ins)}}
				}
				if fk, ok := fieldKeyOfLoad(src); ok {
					return []akaTok{{W: "v", To: "field:" + fk, Pos: c.InstrPos(ins)}}
				}
				if k, ok := src.(*ssa.Const); ok && k.Value == nil {
					return nil
				}
			}
			// a slice literal: the octets stored into its backing array, in index order
			sl, ok := call.Call.Args[1].(*ssa.Slice)
			if !ok {
				return []akaTok{{W: "v", To: "?", Pos: c.InstrPos(ins)}}
			}
			al, ok := sl.X.(*ssa.Alloc)
			if !ok || !isByteArrayPtr(al.Type()) {
				return []akaTok{{W: "v", To: "?", Pos: c.InstrPos(ins)}}
			}
			n, _ := arrayLen(al.Type())
			out := make([]akaTok, n)
			for i := range out {
				out[i] = akaTok{W: "1", To: "const:0", Pos: c.InstrPos(ins)}
			}
			for _, ref := range *al.Referrers() {
				ia, ok := ref.(*ssa.IndexAddr)
				if !ok {
					continue
				}
				k, ok := ia.Index.(*ssa.Const)
				if !ok {
					return []akaTok{{W: "v", To: "?", Pos: c.InstrPos(ins)}}
				}
				idx, _ := constInt64(k.Value)
				for _, r2 := range *ia.Referrers() {
					if st, ok := r2.(*ssa.Store); ok && idx >= 0 && idx < n {
						out[idx] = octetTok(st.Val, c.InstrPos(ins))
					}
				}
			}
			return out
		}
		return nil
	}
	// cursor style: the writes of one path lie back to back from the cursor on; what the cursor skips behind the
	// last write is fill (the buffer is zeroed and nothing else writes it)
	var cursorErr error
	cursorStyle := func(ts []akaTok) bool {
		for _, t := range ts {
			if t.At != nil {
				return true
			}
		}
		return false
	}
	strip := func(ts []akaTok) []akaTok {
		out := make([]akaTok, len(ts))
		for i, t := range ts {
			t.At, t.Len, t.Hi = nil, nil, nil
			out[i] = t
		}
		return out
	}
	// contiguous checks that ts tile the buffer from start on; returns the position behind the last write
	contiguous := func(ts []akaTok, start LF) (LF, error) {
		pos := start
		for _, t := range ts {
			if t.At == nil {
				return pos, fmt.Errorf("an emission that is not a write into the result buffer (%s) among writes at a cursor", t.Pos)
			}
			if t.At.key() != pos.key() {
				return pos, fmt.Errorf("the write at %s is at %s, the octets before it end at %s", t.Pos, fa.Show(*t.At), fa.Show(pos))
			}
			switch {
			case t.W == "v" && t.Len != nil:
				pos = pos.add(*t.Len, 1)
			case t.W == "v":
				return pos, fmt.Errorf("a write of unknown width at %s", t.Pos)
			default:
				var n int64
				fmt.Sscan(t.W, &n)
				pos = pos.add(konst(n), 1)
			}
		}
		return pos, nil
	}
	// resolveOnPath: a position that is a φ of a merge inside the loop body (offset after an optional field) has,
	// on a given path, the value of the edge the path came in through
	resolveOnPath := func(l LF, path []*ssa.BasicBlock) LF {
		for round := 0; round < 4; round++ {
			changed := false
			for a, k := range l.T {
				ph, ok := fa.atomDef(a).(*ssa.Phi)
				if !ok || ph.Block() == li.header {
					continue
				}
				for i := 1; i < len(path); i++ {
					if path[i] != ph.Block() {
						continue
					}
					for j, p := range ph.Block().Preds {
						if p == path[i-1] {
							l = l.add(LF{T: map[int]int64{a: 1}}, -k).add(fa.unwrapOffset(fa.LFOf(ph.Edges[j])), k)
							changed = true
						}
					}
					break
				}
				if changed {
					break
				}
			}
			if !changed {
				break
			}
		}
		return l
	}
	resolveToks := func(ts []akaTok, path []*ssa.BasicBlock) []akaTok {
		out := make([]akaTok, len(ts))
		for i, t := range ts {
			if t.At != nil {
				v := resolveOnPath(*t.At, path)
				t.At = &v
			}
			if t.Hi != nil {
				v := resolveOnPath(*t.Hi, path)
				t.Hi = &v
			}
			out[i] = t
		}
		return out
	}
	labelConsistent := func(label []string) bool {
		eq := ""
		for _, l := range label {
			if strings.HasPrefix(l, "==") {
				if eq != "" && eq != l[2:] {
					return false
				}
				eq = l[2:]
			}
		}
		for _, l := range label {
			if strings.HasPrefix(l, "!=") && eq != "" && l[2:] == eq {
				return false
			}
		}
		return true
	}
	var cursorPhi *ssa.Phi
	finishCursor := func(ts []akaTok, from *ssa.BasicBlock) (withPad, plain []akaTok, err error) {
		if len(ts) == 0 || ts[0].At == nil {
			return nil, nil, fmt.Errorf("cursor-style path without a first write")
		}
		// the cursor: the integer φ of the loop header the first write is at
		if cursorPhi == nil {
			for _, ins := range li.header.Instrs {
				if ph, ok := ins.(*ssa.Phi); ok && isIntType(ph.Type()) && fa.LFOf(ph).key() == ts[0].At.key() {
					cursorPhi = ph
				}
			}
		}
		if cursorPhi == nil {
			return nil, nil, fmt.Errorf("the first write of an attribute (%s) is not at a loop-carried offset", ts[0].Pos)
		}
		end, err := contiguous(ts, fa.LFOf(cursorPhi))
		if err != nil {
			return nil, nil, err
		}
		var next *LF
		for i, p := range li.header.Preds {
			if p == from {
				n := fa.unwrapOffset(fa.LFOf(cursorPhi.Edges[i]))
				next = &n
			}
		}
		if next == nil {
			return nil, nil, fmt.Errorf("cannot find the cursor's next value")
		}
		rest := next.add(end, -1)
		if rest.isConst() && rest.C == 0 {
			return nil, strip(ts), nil
		}
		if lo, _ := fa.bounds(rest, fa.refine(fa.FactsAt(from))); lo < 0 {
			// unless the last write is confined to a window that ends where the next record starts: it then
			// writes at most up to there (that the value fits is what the negative-padding test is for)
			last := ts[len(ts)-1]
			if last.Hi == nil || last.Hi.key() != next.key() {
				return nil, nil, fmt.Errorf("the cursor may move to %s, before the end of what was written (%s)", fa.Show(*next), fa.Show(end))
			}
		}
		plain = strip(ts)
		withPad = append(append([]akaTok(nil), plain...), akaTok{W: "v", To: "pad", Pos: c.InstrPos(cursorPhi)})
		return withPad, plain, nil
	}
	cur := fn.Blocks[0]
	seen := map[*ssa.BasicBlock]bool{}
	for cur != li.header && !seen[cur] {
		seen[cur] = true
		for _, ins := range cur.Instrs {
			header.Toks = append(header.Toks, toksOf(ins)...)
		}
		// a loop that emits nothing (the key-collecting loop folded into Marshal) is stepped over
		var next *ssa.BasicBlock
		for _, l := range loops {
			if l != li && l.header == cur {
				for _, sc := range cur.Succs {
					if !l.body[sc] {
						next = sc
					}
				}
			}
		}
		if next == nil {
			next = c.successSucc(cur, nil)
		}
		if next == nil {
			return header, nil, fmt.Errorf("cannot follow the header path")
		}
		cur = next
	}
	header.Label = "header"
	headerRaw := header.Toks
	header.Toks = mergeOctetToks(strip(header.Toks))
	// loop body: paths from the header's body successor back to the header
	var pathOrder []*ssa.BasicBlock // blocks of the path being walked, in order
	var walk func(b *ssa.BasicBlock, toks []akaTok, label []string, visited map[*ssa.BasicBlock]bool, depth int)
	walk = func(b *ssa.BasicBlock, toks []akaTok, label []string, visited map[*ssa.BasicBlock]bool, depth int) {
		if depth > 200 {
			return
		}
		if b == li.header && depth > 0 {
			if cursorStyle(toks) {
				from := pathOrder[depth-2]
				if !labelConsistent(label) {
					return // a combination of branch decisions no attribute type takes
				}
				withPad, plain, cerr := finishCursor(resolveToks(toks, pathOrder[:depth-1]), from)
				if cerr != nil {
					cursorErr = cerr
					return
				}
				if withPad != nil {
					body = append(body, akaPath{Label: strings.Join(append(append([]string(nil), label...), "optT"), ","), Toks: mergeOctetToks(withPad)})
					body = append(body, akaPath{Label: strings.Join(append(append([]string(nil), label...), "optF"), ","), Toks: mergeOctetToks(plain)})
				} else {
					body = append(body, akaPath{Label: strings.Join(label, ","), Toks: mergeOctetToks(plain)})
				}
				return
			}
			body = append(body, akaPath{Label: strings.Join(label, ","), Toks: mergeOctetToks(toks)})
			return
		}
		if visited[b] || !li.body[b] {
			return
		}
		visited = copyVisited(visited)
		visited[b] = true
		pathOrder = append(pathOrder[:depth-1:depth-1], b)
		if zl, ok := zeroFill[b]; ok {
			// the fill loop as a whole is one run of padding octets; go on behind it
			// (it may run zero times: both variants are paths of the encoder)
			padded := append(append([]akaTok(nil), toks...), akaTok{W: "v", To: "pad", Pos: c.InstrPos(b.Instrs[len(b.Instrs)-1])})
			for _, sc := range b.Succs {
				if !zl.body[sc] {
					walk(sc, padded, append(append([]string(nil), label...), "optT"), visited, depth+1)
					walk(sc, toks, append(append([]string(nil), label...), "optF"), visited, depth+1)
				}
			}
			return
		}
		for _, ins := range b.Instrs {
			if ts := toksOf(ins); len(ts) > 0 {
				toks = append(append([]akaTok(nil), toks...), ts...)
			}
		}
		last := b.Instrs[len(b.Instrs)-1]
		iff, ok := last.(*ssa.If)
		if !ok {
			for _, s := range b.Succs {
				walk(s, toks, label, visited, depth+1)
			}
			return
		}
		if cond, ok := iff.Cond.(*ssa.BinOp); ok && (cond.Op == token.NEQ || cond.Op == token.EQL) {
			if k, ok := cond.Y.(*ssa.Const); ok && k.Value != nil && k.Value.Kind() == constant.Int {
				if _, fld, isF := fieldLoad(cond.X); isF && fld == "attrType" {
					eq, ne := b.Succs[0], b.Succs[1]
					if cond.Op == token.NEQ {
						eq, ne = ne, eq
					}
					walk(eq, toks, append(append([]string(nil), label...), "=="+k.Value.ExactString()), visited, depth+1)
					walk(ne, toks, append(append([]string(nil), label...), "!="+k.Value.ExactString()), visited, depth+1)
					return
				}
			}
		}
		if next := c.successSucc(b, li); next != nil {
			walk(next, toks, label, visited, depth+1)
			return
		}
		// a test on a value that an earlier branch of this very path fixed (a helper result φ(2, 4) selected by
		// the attribute type, compared with a constant later on): only the consistent side continues the path
		if tv, ok := condOnPath(iff.Cond, pathOrder[:depth]); ok {
			if tv {
				walk(b.Succs[0], toks, label, visited, depth+1)
			} else {
				walk(b.Succs[1], toks, label, visited, depth+1)
			}
			return
		}
		walk(b.Succs[0], toks, append(append([]string(nil), label...), "optT"), visited, depth+1)
		walk(b.Succs[1], toks, append(append([]string(nil), label...), "optF"), visited, depth+1)
	}
	defer func() {
		if os.Getenv("IKELINT_DEBUG_AKA") != "" {
			for _, p := range body {
				fmt.Fprintf(os.Stderr, "enc path %-30s %s\n", p.Label, toksString(p.Toks))
			}
		}
	}()
	for _, s := range li.header.Succs {
		if li.body[s] {
			walk(s, nil, nil, map[*ssa.BasicBlock]bool{}, 1)
		}
	}
	if cursorErr != nil {
		return header, nil, cursorErr
	}
	if cursorPhi != nil {
		// the fixed part tiles the buffer from 0 to the cursor's first value, and nothing writes the buffer
		// outside the fixed part and the attribute loop (the fill octets stay zero)
		var init *LF
		for i, p := range li.header.Preds {
			if !li.body[p] {
				v := fa.LFOf(cursorPhi.Edges[i])
				init = &v
			}
		}
		end, err := contiguous(headerRaw, konst(0))
		if err != nil {
			return header, nil, err
		}
		if init == nil || end.key() != init.key() {
			return header, nil, fmt.Errorf("the fixed part ends at %s but the first attribute is written at the cursor's first value", fa.Show(end))
		}
		for _, b := range fn.Blocks {
			if li.body[b] || seen[b] {
				continue
			}
			for _, ins := range b.Instrs {
				if _, _, ok := bufWrite(ins); ok {
					return header, nil, fmt.Errorf("the result buffer is written at %s, outside the fixed part and the attribute loop", c.InstrPos(ins))
				}
			}
		}
	}
	return header, body, nil
}

// akaSetterCases: per case constant of setAttr, the constants stored into reserved/length and the
// interval of len(value) on the way to the value store.
type akaSetCase struct {
	K        string
	Reserved string // "0", "bits" (8*len(value)) or ""
	LenLo    int64
	LenHi    int64
	Pos      string
}

func (c *Ctx) akaSetterCases(fn *ssa.Function) ([]akaSetCase, error) {
	f := c.NewFA(fn)
	var typeParam, valParam *ssa.Parameter
	for _, p := range fn.Params[1:] {
		if isByteSlice(p.Type()) {
			valParam = p
		} else {
			typeParam = p
		}
	}
	if typeParam == nil || valParam == nil {
		return nil, fmt.Errorf("parameters not found")
	}
	// case tests: typeParam == K
	type arm struct {
		k    string
		body *ssa.BasicBlock
	}
	var arms []arm
	for _, b := range fn.Blocks {
		iff, ok := b.Instrs[len(b.Instrs)-1].(*ssa.If)
		if !ok {
			continue
		}
		cond, ok := iff.Cond.(*ssa.BinOp)
		if !ok || cond.Op != token.EQL || cond.X != ssa.Value(typeParam) {
			continue
		}
		k, ok := cond.Y.(*ssa.Const)
		if !ok || k.Value == nil {
			continue
		}
		arms = append(arms, arm{k.Value.ExactString(), b.Succs[0]})
	}
	var out []akaSetCase
	for _, a := range arms {
		sc := akaSetCase{K: a.k, LenLo: 0, LenHi: INF}
		// success path from the arm body to the return, following non-error sides; gather facts at each step
		cur := a.body
		seen := map[*ssa.BasicBlock]bool{}
		var pathFacts []Fact
		for cur != nil && !seen[cur] {
			seen[cur] = true
			for _, ins := range cur.Instrs {
				if st, ok := ins.(*ssa.Store); ok {
					if fa, ok := st.Addr.(*ssa.FieldAddr); ok {
						fk := FieldKey(fa.X.Type(), fa.Field)
						if strings.HasSuffix(fk, ".reserved") {
							if k, ok := st.Val.(*ssa.Const); ok {
								sc.Reserved = k.Value.ExactString()
							} else {
								lf := f.LFOf(st.Val)
								if lf.key() == f.SliceLen(valParam).scale(8).key() {
									sc.Reserved = "bits"
								} else if cv, ok := st.Val.(*ssa.Convert); ok && f.LFOf(cv.X).key() == f.SliceLen(valParam).scale(8).key() {
									sc.Reserved = "bits"
								} else {
									sc.Reserved = "?"
								}
							}
						}
						if strings.HasSuffix(fk, ".value") {
							sc.Pos = c.InstrPos(st)
						}
					}
				}
			}
			last := cur.Instrs[len(cur.Instrs)-1]
			if _, ok := last.(*ssa.Return); ok {
				break
			}
			iff, ok := last.(*ssa.If)
			if !ok {
				if len(cur.Succs) == 1 {
					cur = cur.Succs[0]
					continue
				}
				break
			}
			// a test on the type parameter inside the arm: take the side consistent with this case
			if cond, ok := iff.Cond.(*ssa.BinOp); ok && cond.X == ssa.Value(typeParam) {
				if k, ok := cond.Y.(*ssa.Const); ok && k.Value != nil {
					same := k.Value.ExactString() == a.k
					takeTrue := (cond.Op == token.EQL) == same
					var fs []Fact
					_ = fs
					if takeTrue {
						cur = cur.Succs[0]
					} else {
						cur = cur.Succs[1]
					}
					continue
				}
			}
			next := c.successSucc(cur, nil)
			if next == nil {
				// both continue: cannot specialise; stop
				break
			}
			var fs []Fact
			f.condFacts(iff.Cond, next == cur.Succs[0], &fs)
			pathFacts = append(pathFacts, fs...)
			cur = next
		}
		e := f.refine(pathFacts)
		lo, hi := f.bounds(f.SliceLen(valParam), e)
		sc.LenLo, sc.LenHi = lo, hi
		out = append(out, sc)
	}
	sort.Slice(out, func(i, j int) bool { return out[i].K < out[j].K })
	return out, nil
}

// akaRules: C03 rule 6, C12 rule 4, C14 rules 3-5.
func (c *Ctx) akaRules(r *Report, prefix, mode string) {
	um := c.Method("eap", "EapAkaPrime", "Unmarshal")
	ma := c.Method("eap", "EapAkaPrime", "Marshal")
	sa := c.Method("eap", "EapAkaPrimeAttr", "setAttr")
	if um == nil || ma == nil || sa == nil {
		r.undecided(prefix+"aka.anchor", "EapAkaPrime Unmarshal / Marshal / setAttr", "-", "anchor does not resolve")
		return
	}
	r.Func(c.FuncName(um))
	r.Func(c.FuncName(ma))
	r.Func(c.FuncName(sa))
	dh, dcases, err := c.akaDecodePaths(um)
	if err != nil {
		r.undecided(prefix+"aka.tokens", "decode paths", c.Pos(um.Pos()), err.Error())
		return
	}
	eh, ebody, err := c.akaEncodePaths(ma)
	if err != nil {
		r.undecided(prefix+"aka.tokens", "encode paths", c.Pos(ma.Pos()), err.Error())
		return
	}
	setCases, err := c.akaSetterCases(sa)
	if err != nil {
		r.undecided(prefix+"aka.tokens", "setter cases", c.Pos(sa.Pos()), err.Error())
		return
	}
	kdf := c.constInt("eap", "AT_KDF")
	ruleT := prefix + "aka.tokens"
	r.Rule(ruleT, "EAP-AKA' token sequences: per attribute case the decoder's reads and the encoder's writes agree token by token (width class and field), a field the decoder drops is one the setter fixes to 0, and only padding is dropped", 5)
	// header
	hd, he := normToks(dh.Toks, nil, true), normToks(eh.Toks, nil, false)
	r.Check(hd == he, ruleT, "header [type][subtype][reserved]", c.Pos(um.Pos()), "decode "+toksString(dh.Toks)+" = encode "+toksString(eh.Toks), "decoder reads "+toksString(dh.Toks)+" but encoder writes "+toksString(eh.Toks))
	// per decode case
	setBy := map[string]akaSetCase{}
	for _, s := range setCases {
		setBy[s.K] = s
	}
	// Per attribute type T (every constant a setter case, a decoder case or an encoder test mentions, and one
	// representative "other" type): the decoder path taken for T and an encoder path taken for T agree.
	_ = kdf
	consts := map[string]bool{}
	for _, sc := range setCases {
		consts[sc.K] = true
	}
	for _, dc := range dcases {
		if dc.Label != "default" {
			for _, k := range strings.Split(dc.Label, ",") {
				consts[k] = true
			}
		}
	}
	labelConsts := func(lab string) (eq, ne []string) {
		for _, p := range strings.Split(lab, ",") {
			if strings.HasPrefix(p, "==") {
				eq = append(eq, p[2:])
			} else if strings.HasPrefix(p, "!=") {
				ne = append(ne, p[2:])
			}
		}
		return
	}
	for _, ep := range ebody {
		eq, ne := labelConsts(ep.Label)
		for _, k := range append(eq, ne...) {
			consts[k] = true
		}
	}
	var types []string
	for k := range consts {
		types = append(types, k)
	}
	sort.Slice(types, func(i, j int) bool {
		var a, b int
		fmt.Sscan(types[i], &a)
		fmt.Sscan(types[j], &b)
		return a < b
	})
	types = append(types, "other")
	consistent := func(lab, T string) bool {
		eq, ne := labelConsts(lab)
		for _, k := range eq {
			if k != T {
				return false
			}
		}
		for _, k := range ne {
			if k == T {
				return false
			}
		}
		return true
	}
	for _, T := range types {
		// decoder paths for T: the case that lists T, else the default
		var dcs []akaPath
		for _, dc := range dcases {
			if dc.Label == "default" {
				continue
			}
			for _, k := range strings.Split(dc.Label, ",") {
				if k == T {
					dcs = append(dcs, dc)
				}
			}
		}
		if len(dcs) == 0 {
			for _, dc := range dcases {
				if dc.Label == "default" {
					dcs = append(dcs, dc)
				}
			}
		}
		var encs []akaPath
		for _, ep := range ebody {
			if consistent(ep.Label, T) {
				encs = append(encs, ep)
			}
		}
		zero := map[string]bool{}
		if sc, ok := setBy[T]; ok && sc.Reserved == "0" {
			zero["field:eap.EapAkaPrimeAttr.reserved"] = true
		}
		for _, dc := range dcs {
			dn := normToks(dc.Toks, zero, true)
			matched := false
			var encStrs []string
			for _, ep := range encs {
				en := normToks(ep.Toks, zero, false)
				encStrs = appendUniq(encStrs, toksString(ep.Toks))
				if en == dn {
					matched = true
				}
			}
			key := "attribute type " + T + " (decoder case " + dc.Label + ")"
			if dc.Opt != "" {
				key += " (" + dc.Opt + ")"
			}
			r.Check(matched, ruleT, key, c.Pos(um.Pos()), "decode "+toksString(dc.Toks)+" matches an encoder path for this type", "decoder reads "+toksString(dc.Toks)+" but for this type the encoder writes "+strings.Join(encStrs, " or "))
		}
	}
	// case sets
	ruleC := prefix + "aka.case-sets"
	r.Rule(ruleC, "every attribute type the setter accepts is decoded by a case of its own or by the generic length-driven default; the decoder has such a default", 7)
	hasDefault := false
	dset := map[string]bool{}
	for _, dc := range dcases {
		if dc.Label == "default" {
			hasDefault = true
			continue
		}
		for _, k := range strings.Split(dc.Label, ",") {
			dset[k] = true
		}
	}
	r.Check(hasDefault, ruleC, "decoder default case consumes the attribute by its length", c.Pos(um.Pos()), "present", "attributes without a case of their own are not consumed: the rest of the attribute would be parsed as the next attribute")
	for _, s := range setCases {
		r.Check(dset[s.K] || hasDefault, ruleC, "setter case "+s.K, s.Pos, "decoded by case or default", "the setter accepts attribute type "+s.K+" but the decoder neither has a case for it nor a default")
	}
	c.akaScalingRule(r, prefix, um, setCases)
	c.akaLengthGuardRule(r, prefix, um, setCases)
	// a reference rule: claimed by the properties that speak about the RFC layout or about peers that are not
	// this library (C05 decode side, C14, C15) and by C12, whose canonical datagrams are built by an independent
	// encoder; not by the self round trip C03
	if mode == "decode" || mode == "full" || strings.HasPrefix(prefix, "C15.") || strings.HasPrefix(prefix, "C12.") {
		c.akaReferenceClasses(r, prefix+"aka.reference-classes", um, dcases, setCases)
	}
	if mode == "roundtrip" || mode == "stability" || mode == "decode" {
		return
	}
	c.setterTotality(r, prefix)
	// C14: setter size rules
	ruleS := prefix + "aka.setter-sizes"
	r.Rule(ruleS, "SetAttr refuses wrong sizes: AT_RAND, AT_AUTN, AT_MAC exactly 16 octets, AT_KDF exactly 2, AT_RES 4..16 octets; reserved = 0 for fixed attributes, = 8*len for AT_RES/AT_KDF_INPUT", 6)
	want := map[string][2]int64{}
	name := map[string]string{}
	for _, n := range []struct {
		k      string
		lo, hi int64
	}{{"AT_RAND", 16, 16}, {"AT_AUTN", 16, 16}, {"AT_MAC", 16, 16}, {"AT_KDF", 2, 2}, {"AT_RES", 4, 16}} {
		if k := c.constInt("eap", n.k); k != nil {
			want[fmt.Sprint(*k)] = [2]int64{n.lo, n.hi}
			name[fmt.Sprint(*k)] = n.k
		}
	}
	for _, s := range setCases {
		w, ok := want[s.K]
		if !ok {
			continue
		}
		hi := s.LenHi
		r.Check(s.LenLo == w[0] && hi == w[1], ruleS, name[s.K]+" size", s.Pos, fmt.Sprintf("len(value) in [%d, %d] on the storing path", s.LenLo, hi), fmt.Sprintf("the setter stores values of length [%d, %s], expected [%d, %d]", s.LenLo, infStr(hi), w[0], w[1]))
	}
	for _, n := range []string{"AT_RES", "AT_KDF_INPUT"} {
		if k := c.constInt("eap", n); k != nil {
			s := setBy[fmt.Sprint(*k)]
			r.Check(s.Reserved == "bits", ruleS, n+" length in bits", s.Pos, "reserved = 8*len(value)", "the bit-length field is not 8*len(value)")
		}
	}
}

func derefInt(p *int64) int64 {
	if p == nil {
		return -1
	}
	return *p
}

func infStr(v int64) string {
	if v >= INF {
		return "unbounded"
	}
	return fmt.Sprint(v)
}

// normToks renders a token sequence for comparison: dropped tokens of constant width whose
// counterpart is a field the setter fixes to zero are named by that field; variable-width drops and
// encoder pads are removed (zero padding: emitted as needed, skipped on reception).
func normToks(ts []akaTok, zero map[string]bool, decode bool) string {
	var parts []string
	for _, t := range ts {
		to := t.To
		if to == "pad" || (to == "drop" && t.W == "v") {
			continue
		}
		if decode && to == "drop" && t.W == "2" && zero["field:eap.EapAkaPrimeAttr.reserved"] {
			to = "field:eap.EapAkaPrimeAttr.reserved"
		}
		parts = append(parts, "["+t.W+"→"+to+"]")
	}
	return strings.Join(parts, "")
}

// akaScalingRule: the decoder converts the attribute length octet (in 4-octet words) into octets
// without wrap-around for every length the encodable domain produces in that attribute case.
// Domain: the setter's value-size interval per case, the property quantifiers for the unbounded
// ones (spec eap_aka_prime.max_value_octets), length = ceil((4 + len(value)) / 4).
func (c *Ctx) akaScalingRule(r *Report, prefix string, um *ssa.Function, setCases []akaSetCase) {
	rule := prefix + "aka.length-scaling"
	r.Rule(rule, "every multiplication / shift that scales the attribute length octet from words to octets is evaluated in a type that holds 4*length for every length of the encodable domain of that attribute case (no wrap-around)", 4)
	ws, err := loadWireSpec()
	if err != nil {
		r.undecided(rule, "spec", "-", err.Error())
		return
	}
	// domain max length (words) per case constant
	maxWords := map[string]int64{}
	names := map[string]string{}
	for _, n := range []string{"AT_RAND", "AT_AUTN", "AT_RES", "AT_MAC", "AT_KDF", "AT_KDF_INPUT", "AT_CHECKCODE"} {
		if k := c.constInt("eap", n); k != nil {
			names[fmt.Sprint(*k)] = n
		}
	}
	for _, s := range setCases {
		hi := s.LenHi
		if m, ok := ws.Aka.MaxValueOctets[names[s.K]]; ok && (hi >= INF || hi > m || hi >= (int64(1)<<40)) {
			hi = m
		}
		if hi >= int64(1)<<40 {
			continue
		}
		hdr := ws.Aka.HeaderOctets
		if names[s.K] == "AT_KDF" {
			hdr = 2
		}
		maxWords[s.K] = (hdr + hi + 3) / 4
	}
	loops := naturalLoops(um)
	if len(loops) != 1 {
		r.undecided(rule, "loop", c.Pos(um.Pos()), "attribute loop not found")
		return
	}
	li := loops[0]
	// case bodies
	type arm struct {
		k    string
		body *ssa.BasicBlock
	}
	var arms []arm
	var lastTest *ssa.BasicBlock
	for _, b := range sortedBlocks(li.body) {
		iff, ok := b.Instrs[len(b.Instrs)-1].(*ssa.If)
		if !ok {
			continue
		}
		cond, ok := iff.Cond.(*ssa.BinOp)
		if !ok || cond.Op != token.EQL {
			continue
		}
		k, ok := cond.Y.(*ssa.Const)
		if !ok || k.Value == nil {
			continue
		}
		if _, fld, isF := fieldLoad(cond.X); isF && fld == "attrType" {
			arms = append(arms, arm{k.Value.ExactString(), b.Succs[0]})
			lastTest = b
		}
	}
	reach := func(from *ssa.BasicBlock) map[*ssa.BasicBlock]bool {
		seen := map[*ssa.BasicBlock]bool{}
		st := []*ssa.BasicBlock{from}
		for len(st) > 0 {
			x := st[len(st)-1]
			st = st[:len(st)-1]
			if seen[x] || !li.body[x] || x == li.header {
				continue
			}
			seen[x] = true
			st = append(st, x.Succs...)
		}
		return seen
	}
	armReach := map[string]map[*ssa.BasicBlock]bool{}
	for _, a := range arms {
		armReach[a.k] = reach(a.body)
	}
	var defReach map[*ssa.BasicBlock]bool
	if lastTest != nil {
		defReach = reach(lastTest.Succs[1])
	}
	// words of cases handled by the default: setter cases without their own arm
	defWords := int64(0)
	for k, w := range maxWords {
		if _, own := armReach[k]; !own && w > defWords {
			defWords = w
		}
	}
	f := c.NewFA(um)
	n := 0
	for _, b := range sortedBlocks(li.body) {
		for _, ins := range b.Instrs {
			bo, ok := ins.(*ssa.BinOp)
			if !ok || (bo.Op != token.MUL && bo.Op != token.SHL) {
				continue
			}
			var lenOp, kOp ssa.Value
			if derivesFromLengthField(bo.X) {
				lenOp, kOp = bo.X, bo.Y
			} else if derivesFromLengthField(bo.Y) && bo.Op == token.MUL {
				lenOp, kOp = bo.Y, bo.X
			} else {
				continue
			}
			_ = lenOp
			kc, ok := kOp.(*ssa.Const)
			if !ok {
				continue
			}
			factor, _ := constInt64(kc.Value)
			if bo.Op == token.SHL {
				factor = 1 << uint(factor)
			}
			// which cases reach this instruction
			need := int64(0)
			var which []string
			for k, rs := range armReach {
				if rs[b] {
					if w := maxWords[k]; w > need {
						need = w
					}
					which = append(which, names[k]+"("+k+")")
				}
			}
			if defReach[b] && len(which) == 0 {
				// the default arm keeps attributes of every type this implementation does not interpret as
				// received: the whole range of the length octet is in its domain
				need = defWords
				if need < 255 {
					need = 255
				}
				which = append(which, "default")
			}
			// C12 quantifies over every byte string the decoder accepts: there the domain of an arm is whatever
			// length octet reaches the scaling under the arm's own guards (a guard such as `length != 5 -> error`
			// pins it; no guard leaves the whole octet)
			if strings.HasPrefix(prefix, "C12") {
				_, ghi := f.bounds(f.LFOf(lenOp), f.refine(f.FactsAt(b)))
				if ghi > 255 {
					ghi = 255
				}
				if ghi > need || len(which) > 0 {
					need = ghi
				}
				which = append(which, "as accepted")
			}
			sort.Strings(which)
			_, thi, isInt := f.typeRange(bo.Type())
			n++
			key := fmt.Sprintf("%s [%s]", c.SrcExpr(bo), strings.Join(which, ","))
			if !isInt {
				r.undecided(rule, key, c.InstrPos(bo), "not an integer operation")
				continue
			}
			r.Check(factor*need <= thi, rule, key, c.InstrPos(bo), fmt.Sprintf("%d * %d words = %d fits %s", factor, need, factor*need, bo.Type()), fmt.Sprintf("evaluated in %s: %d * length wraps for length > %d, but this case's domain reaches %d words (%d octets)", bo.Type(), factor, thi/factor, need, factor*need))
		}
	}
	if n == 0 {
		r.undecided(rule, "no scaling operation found", c.Pos(um.Pos()), "the decoder does not scale the length octet by a constant: the rule's anchor is gone")
	}
}

// derivesFromLengthField: v is the attribute's length field, possibly converted.
func derivesFromLengthField(v ssa.Value) bool {
	for i := 0; i < 4; i++ {
		switch x := v.(type) {
		case *ssa.Convert:
			v = x.X
			continue
		case *ssa.ChangeType:
			v = x.X
			continue
		}
		break
	}
	_, fld, ok := fieldLoad(v)
	return ok && fld == "length"
}

// mergeOctetToks joins the octets of one wider field written most significant first
// ([1→field:F#1][1→field:F#0]) into the token a binary.Write of the field gives ([2→field:F]).
func mergeOctetToks(ts []akaTok) []akaTok {
	var out []akaTok
	for i := 0; i < len(ts); i++ {
		t := ts[i]
		h := strings.LastIndex(t.To, "#")
		if t.W != "1" || !strings.HasPrefix(t.To, "field:") || h < 0 {
			out = append(out, t)
			continue
		}
		base := t.To[:h]
		var hi int
		fmt.Sscan(t.To[h+1:], &hi)
		j, want := i+1, hi-1
		for j < len(ts) && want >= 0 && ts[j].W == "1" && ts[j].To == fmt.Sprintf("%s#%d", base, want) {
			j++
			want--
		}
		if want < 0 && j-i == hi+1 {
			out = append(out, akaTok{W: fmt.Sprint(hi + 1), To: base, Pos: t.Pos})
			i = j - 1
			continue
		}
		out = append(out, t)
	}
	return out
}

// akaLenOrigin classifies where the length of a read buffer comes from: it follows the buffer to its
// make([]byte, n) (through a field it was stored to) and n through arithmetic, conversions and φ-nodes.
func akaLenOrigin(buf ssa.Value) string {
	var mk *ssa.MakeSlice
	v := buf
	for i := 0; i < 4 && mk == nil; i++ {
		switch x := v.(type) {
		case *ssa.MakeSlice:
			mk = x
		case *ssa.Slice:
			v = x.X
		case *ssa.ChangeType:
			v = x.X
		case *ssa.UnOp:
			// a load of a field: the nearest store to the same field of the same object that precedes it
			fa, ok := x.X.(*ssa.FieldAddr)
			if !ok || x.Op != token.MUL {
				return "?"
			}
			var best *ssa.Store
			for _, b := range x.Block().Parent().Blocks {
				for _, ins := range b.Instrs {
					st, ok := ins.(*ssa.Store)
					if !ok {
						continue
					}
					fb, ok := st.Addr.(*ssa.FieldAddr)
					if !ok || fb.X != fa.X || fb.Field != fa.Field {
						continue
					}
					if dominatesInstr(st, x) && (best == nil || dominatesInstr(best, st)) {
						best = st
					}
				}
			}
			if best == nil {
				return "?"
			}
			v = best.Val
		default:
			return "?"
		}
	}
	if mk == nil {
		return "?"
	}
	scaled, reserved, length := false, false, false
	seen := map[ssa.Value]bool{}
	var walk func(v ssa.Value, div bool, depth int)
	walk = func(v ssa.Value, div bool, depth int) {
		if depth > 10 || seen[v] {
			return
		}
		seen[v] = true
		switch x := v.(type) {
		case *ssa.BinOp:
			d := div
			if k, ok := x.Y.(*ssa.Const); ok && k.Value != nil {
				if n, ok := constInt64(k.Value); ok && (x.Op == token.QUO && n == 8 || x.Op == token.SHR && n == 3) {
					d = true
				}
			}
			walk(x.X, d, depth+1)
			walk(x.Y, div, depth+1)
		case *ssa.Convert:
			walk(x.X, div, depth+1)
		case *ssa.ChangeType:
			walk(x.X, div, depth+1)
		case *ssa.Phi:
			for _, e := range x.Edges {
				walk(e, div, depth+1)
			}
		case *ssa.Call:
			if cal := x.Call.StaticCallee(); cal != nil && strings.HasPrefix(cal.String(), "(encoding/binary.bigEndian).Uint") {
				reserved = true
				if div {
					scaled = true
				}
			}
		case *ssa.UnOp:
			if fk, ok := fieldKeyOfLoad(x); ok {
				switch {
				case strings.HasSuffix(fk, ".reserved"):
					reserved = true
					if div {
						scaled = true
					}
				case strings.HasSuffix(fk, ".length"):
					length = true
				}
			}
		case *ssa.Extract:
			length = true // a ReadByte result: the length octet
		}
	}
	walk(mk.Len, false, 0)
	switch {
	case reserved && scaled:
		return "bits"
	case reserved:
		return "octets"
	case length:
		return "length"
	}
	return "?"
}

// akaReferenceClasses: which attribute types take which meaning of octets 2-3 is not something the two
// sides of the codec can settle between themselves: a decoder and a setter that both treat AT_CHECKCODE or
// AT_IDENTITY like AT_RES round-trip with each other and are wrong for every peer. The reference table
// (spec/wire_layout.json, eap_aka_prime) lists the types per meaning.
func (c *Ctx) akaReferenceClasses(r *Report, rule string, um *ssa.Function, dcases []akaPath, setCases []akaSetCase) {
	r.Rule(rule, "octets 2-3 of an EAP-AKA' attribute carry the value length in bits exactly for the attribute types of the reference table (AT_RES, AT_KDF_INPUT), a length in octets only for those it lists (AT_IDENTITY ...), and are zero where it says reserved: decoder cases and setter cases are classified by how the number of value octets is derived and compared with the table", 6)
	ws, err := loadWireSpec()
	if err != nil {
		r.undecided(rule, "reference table", "-", err.Error())
		return
	}
	set := func(l []int64) map[string]bool {
		m := map[string]bool{}
		for _, k := range l {
			m[fmt.Sprint(k)] = true
		}
		return m
	}
	bits, octs, zero := set(ws.Aka.LengthInBits), set(ws.Aka.LengthInOctets), set(ws.Aka.ReservedZero)
	if len(bits) == 0 {
		r.undecided(rule, "reference table", "-", "eap_aka_prime.length_in_bits is empty")
		return
	}
	decodedAsBits := map[string]bool{}
	for _, dc := range dcases {
		cls := ""
		pos := c.Pos(um.Pos())
		for _, t := range dc.Toks {
			if t.W == "v" && strings.HasSuffix(t.To, ".value") {
				cls = t.Src
				pos = t.Pos
			}
		}
		var labels []string
		if dc.Label != "default" {
			labels = strings.Split(dc.Label, ",")
		}
		key := "decoder case " + dc.Label
		if dc.Opt != "" {
			key += " (" + dc.Opt + ")"
		}
		switch cls {
		case "bits":
			var wrong []string
			for _, k := range labels {
				decodedAsBits[k] = true
				if !bits[k] {
					wrong = append(wrong, k)
				}
			}
			if dc.Label == "default" {
				wrong = append(wrong, "every type without a case of its own")
			}
			r.Check(len(wrong) == 0, rule, key, pos, "value length = octets 2-3 / 8 for types "+dc.Label+", all listed as length-in-bits", "the decoder sizes the value of attribute type(s) "+strings.Join(wrong, ", ")+" from octets 2-3 taken as a bit count; the reference table gives that meaning only to "+fmt.Sprint(ws.Aka.LengthInBits)+": a well-formed attribute from a peer is cut short or refused")
		case "octets":
			var wrong []string
			for _, k := range labels {
				if !octs[k] {
					wrong = append(wrong, k)
				}
			}
			if dc.Label == "default" {
				wrong = append(wrong, "every type without a case of its own")
			}
			r.Check(len(wrong) == 0, rule, key, pos, "value length = octets 2-3 for types "+dc.Label+", all listed as length-in-octets", "the decoder sizes the value of attribute type(s) "+strings.Join(wrong, ", ")+" from octets 2-3 taken as an octet count; the reference table gives that meaning only to "+fmt.Sprint(ws.Aka.LengthInOctets))
		case "length":
			var wrong []string
			for _, k := range labels {
				if bits[k] {
					wrong = append(wrong, k)
				}
			}
			r.Check(len(wrong) == 0, rule, key, pos, "value length from the length octet", "attribute type(s) "+strings.Join(wrong, ", ")+" carry their exact value length in bits in octets 2-3, but this case sizes the value from the length octet alone (padding would become part of the value)")
		default:
			r.undecided(rule, key, pos, "cannot tell what the number of value octets read derives from")
		}
	}
	for k := range bits {
		r.Check(decodedAsBits[k], rule, "attribute type "+k+" is decoded with its bit length", c.Pos(um.Pos()), "a decoder case sizes its value from octets 2-3 / 8", "no decoder case sizes the value of type "+k+" from the bit length in octets 2-3")
	}
	for _, s := range setCases {
		key := "setter case " + s.K
		switch {
		case bits[s.K]:
			r.Check(s.Reserved == "bits", rule, key, s.Pos, "octets 2-3 := 8*len(value)", "octets 2-3 must carry 8*len(value) for this type, the setter stores "+s.Reserved)
		case zero[s.K]:
			r.Check(s.Reserved == "0", rule, key, s.Pos, "octets 2-3 := 0 (reserved)", "octets 2-3 are reserved (zero when sending) for this type, the setter stores "+s.Reserved)
		case s.Reserved == "bits":
			r.bad(rule, key, s.Pos, "the setter stores 8*len(value) into octets 2-3 of attribute type "+s.K+"; the reference table gives that meaning only to "+fmt.Sprint(ws.Aka.LengthInBits))
		default:
			r.ok(rule, key, s.Pos, "octets 2-3: "+s.Reserved, true)
		}
	}
}

// isPlainByteSlice: []byte / []uint8 with an unnamed element type (not a list of a named octet type).
// isAppendBase: v is (through φ-nodes) the slice some append extends.
func isAppendBase(v ssa.Value, depth int) bool {
	if depth > 3 || v.Referrers() == nil {
		return false
	}
	for _, u := range *v.Referrers() {
		switch x := u.(type) {
		case *ssa.Call:
			if ap := isAppendCall(x); ap != nil && ap.Call.Args[0] == v {
				return true
			}
		case *ssa.Phi:
			if isAppendBase(x, depth+1) {
				return true
			}
		}
	}
	return false
}

func isPlainByteSlice(t types.Type) bool {
	st, ok := t.Underlying().(*types.Slice)
	if !ok {
		return false
	}
	b, ok := st.Elem().(*types.Basic)
	return ok && (b.Kind() == types.Uint8 || b.Kind() == types.Byte)
}

// condOnPath evaluates a comparison between constants and φ-nodes of constants along one concrete path
// (the φ takes the edge of the block that precedes its own block on the path).
func condOnPath(cond ssa.Value, path []*ssa.BasicBlock) (bool, bool) {
	bo, ok := cond.(*ssa.BinOp)
	if !ok {
		return false, false
	}
	val := func(v ssa.Value) (int64, bool) {
		for i := 0; i < 4; i++ {
			switch x := v.(type) {
			case *ssa.Convert:
				v = x.X
				continue
			case *ssa.ChangeType:
				v = x.X
				continue
			}
			break
		}
		switch x := v.(type) {
		case *ssa.Const:
			if x.Value == nil || x.Value.Kind() != constant.Int {
				return 0, false
			}
			return constInt64(x.Value)
		case *ssa.Phi:
			for pi, b := range path {
				if b != x.Block() || pi == 0 {
					continue
				}
				for ei, p := range x.Block().Preds {
					if p == path[pi-1] {
						if k, ok := x.Edges[ei].(*ssa.Const); ok && k.Value != nil && k.Value.Kind() == constant.Int {
							return constInt64(k.Value)
						}
					}
				}
			}
		}
		return 0, false
	}
	a, ok1 := val(bo.X)
	b, ok2 := val(bo.Y)
	if !ok1 || !ok2 {
		return false, false
	}
	switch bo.Op {
	case token.EQL:
		return a == b, true
	case token.NEQ:
		return a != b, true
	case token.LSS:
		return a < b, true
	case token.LEQ:
		return a <= b, true
	case token.GTR:
		return a > b, true
	case token.GEQ:
		return a >= b, true
	}
	return false, false
}
