package lint

import (
	"fmt"
	"go/constant"
	"go/token"
	"go/types"
	"math/big"
	"sort"
	"strings"

	"ikeverif/checker/xt/ssa"
)

// piTimesPow2 returns floor(pi * 2^k) computed with Machin's formula on big integers
// (pi = 16 arctan(1/5) - 4 arctan(1/239)), with 64 guard bits.
func piTimesPow2(k uint) *big.Int {
	prec := k + 64
	one := new(big.Int).Lsh(big.NewInt(1), prec)
	arctanInv := func(x int64) *big.Int {
		// arctan(1/x) * 2^prec
		sum := new(big.Int)
		term := new(big.Int).Div(one, big.NewInt(x))
		x2 := big.NewInt(x * x)
		for n := int64(0); term.Sign() != 0; n++ {
			t := new(big.Int).Div(term, big.NewInt(2*n+1))
			if n%2 == 0 {
				sum.Add(sum, t)
			} else {
				sum.Sub(sum, t)
			}
			term.Div(term, x2)
		}
		return sum
	}
	pi := new(big.Int).Mul(big.NewInt(16), arctanInv(5))
	pi.Sub(pi, new(big.Int).Mul(big.NewInt(4), arctanInv(239)))
	return pi.Rsh(pi, 64)
}

// modpPrime derives the RFC 2409 / RFC 3526 prime: 2^n - 2^(n-64) - 1 + 2^64 * (floor(2^(n-130) * pi) + c).
func modpPrime(n uint, c int64) *big.Int {
	p := new(big.Int).Lsh(big.NewInt(1), n)
	p.Sub(p, new(big.Int).Lsh(big.NewInt(1), n-64))
	p.Sub(p, big.NewInt(1))
	t := piTimesPow2(n - 130)
	t.Add(t, big.NewInt(c))
	t.Lsh(t, 64)
	return p.Add(p, t)
}

func (c *Ctx) stringConst(rel, name string) (string, bool) {
	p := c.Pkg(rel)
	if p == nil {
		return "", false
	}
	nc, ok := p.Members[name].(*ssa.NamedConst)
	if !ok || nc.Value.Value == nil || nc.Value.Value.Kind() != constant.String {
		return "", false
	}
	return constant.StringVal(nc.Value.Value), true
}

func staticCallTo(v ssa.Value, name string) *ssa.Call {
	call, ok := v.(*ssa.Call)
	if !ok {
		return nil
	}
	if cal := call.Call.StaticCallee(); cal != nil && cal.String() == name {
		return call
	}
	return nil
}

// RunC09 decides property C09.
func RunC09(c *Ctx, r *Report) {
	prefix := "C09."
	r.Explanation = "Structural necessary conditions for the MODP groups: (1) the prime constants equal the primes derived inside the checker from the RFC 2409 / RFC 3526 formula 2^n - 2^(n-64) - 1 + 2^64*(floor(2^(n-130) pi) + c) (pi by a Machin series on big integers), generators are 2, the constants are parsed base 16 into the descriptor that carries the matching transform identifier; (2) both methods of both groups return Zero(modulus length - len(x)) || x with x = Exp(base, secret, own modulus).Bytes(); (3) exponents come from crypto/rand.Int(crypto/rand.Reader, 2^2048-1), errors are propagated, values are returned only when greater than 2^128-1, both bounds written only in init; (4) the same secret feeds the public value and the shared key, and a random-source failure yields an error."
	r.TrustedBase = append(r.TrustedBase, "go/types exact constant values", "math/big arithmetic of the checker host", "go/ssa (x/tools v0.29.0)")
	r.Assumptions = append(r.Assumptions, "math/big.Int.Exp computes modular exponentiation and its result is smaller than the modulus (so Bytes() is at most modulus-length long)", "crypto/rand.Reader is the system random source")
	r.NotDecided = append(r.NotDecided, "that two parties compute the same shared secret (a theorem about Exp, not about this code)", "that exponents differ from call to call beyond 'drawn from crypto/rand on every call'")

	// rule 1: constants
	c.registryRules(r, prefix+"registry.", "security/dh")
	rule1 := prefix + "prime-constants"
	r.Rule(rule1, "Group2PrimeString / Group14PrimeString equal the RFC-formula primes (1024 bit, c=129093; 2048 bit, c=124476); generators are 2", 4)
	for _, g := range []struct {
		name, gen string
		n         uint
		c         int64
	}{{"Group2PrimeString", "Group2Generator", 1024, 129093}, {"Group14PrimeString", "Group14Generator", 2048, 124476}} {
		s, ok := c.stringConst("security/dh", g.name)
		if !ok {
			r.undecided(rule1, "dh."+g.name, "-", "constant does not resolve")
			continue
		}
		got, ok := new(big.Int).SetString(s, 16)
		want := modpPrime(g.n, g.c)
		if !ok {
			r.bad(rule1, "dh."+g.name, "-", "constant is not a hexadecimal number")
		} else if got.Cmp(want) == 0 {
			r.ok(rule1, "dh."+g.name, "-", fmt.Sprintf("equals the %d-bit prime derived from the RFC formula (%d hex digits, probable prime: %v)", g.n, len(s), want.ProbablyPrime(8)), true)
		} else {
			diff := new(big.Int).Xor(got, want)
			r.bad(rule1, "dh."+g.name, "-", fmt.Sprintf("differs from the RFC %d-bit MODP prime (first differing bit %d from the least significant end)", g.n, diff.BitLen()-1))
		}
		if k := c.constInt("security/dh", g.gen); k != nil && *k == 2 {
			r.ok(rule1, "dh."+g.gen, "-", "generator is 2", true)
		} else {
			r.bad(rule1, "dh."+g.gen, "-", "generator is not 2")
		}
	}

	// rule 1b: init wiring
	rule1b := prefix + "group-wiring"
	r.Rule(rule1b, "init parses each prime constant base 16 into the descriptor whose TransformID is the group's IANA number (2 / 14), with generator from the group's constant and factorBytesLength = len(factor.Bytes())", 2)
	ents, _, err := c.registryEntries("security/dh", "dhTypes")
	if err != nil {
		r.undecided(rule1b, "dh.dhTypes", "-", err.Error())
	}
	wantGroup := map[int64][2]string{2: {"Group2PrimeString", "Group2Generator"}, 14: {"Group14PrimeString", "Group14Generator"}}
	for _, e := range ents {
		d := c.descriptorOf(e.Val)
		name := constant.StringVal(e.Key)
		if d == nil || d.Named == nil {
			r.undecided(rule1b, "dh.dhTypes["+name+"]", c.InstrPos(e.Site), "not a struct literal")
			continue
		}
		tid := int64(-1)
		if m := c.methodOf(types.NewPointer(d.Named), "TransformID"); m != nil {
			if res, err := c.evalMethod(m, d, nil); err == nil && len(res) == 1 && res[0].Results[0].K != nil {
				tid, _ = constant.Int64Val(res[0].Results[0].K)
			}
		}
		w, ok := wantGroup[tid]
		var bad []string
		if !ok {
			bad = append(bad, fmt.Sprintf("TransformID %d is not a supported MODP group", tid))
		} else {
			ps, _ := c.stringConst("security/dh", w[0])
			// factor <- Extract#0 SetString(new big.Int, const ps, 16)
			fv := d.Fields["factor"]
			if ex, ok := fv.(*ssa.Extract); ok {
				fv = ex.Tuple
			}
			call := staticCallTo(fv, "(*math/big.Int).SetString")
			if call == nil {
				bad = append(bad, "factor is not the result of big.Int.SetString")
			} else {
				sk, ok1 := call.Call.Args[1].(*ssa.Const)
				bk, ok2 := call.Call.Args[2].(*ssa.Const)
				if !ok1 || sk.Value == nil || constant.StringVal(sk.Value) != ps {
					bad = append(bad, "factor is not parsed from "+w[0])
				}
				if b, _ := constInt64(bk.Value); !ok2 || b != 16 {
					bad = append(bad, "factor is not parsed with base 16")
				}
				if _, isNew := call.Call.Args[0].(*ssa.Alloc); !isNew {
					bad = append(bad, "factor does not live in its own big.Int")
				}
			}
			gk := c.constInt("security/dh", w[1])
			gcall := staticCallTo(d.Fields["generator"], "(*math/big.Int).SetUint64")
			if gcall == nil {
				bad = append(bad, "generator is not built by big.Int.SetUint64")
			} else if k, ok := gcall.Call.Args[1].(*ssa.Const); !ok || gk == nil {
				bad = append(bad, "generator is not a constant")
			} else if v, _ := constInt64(k.Value); v != *gk {
				bad = append(bad, "generator is not "+w[1])
			}
			// factorBytesLength = len(factor.Bytes())
			okLen := false
			if lc, ok := d.Fields["factorBytesLength"].(*ssa.Call); ok {
				if bi, ok := lc.Call.Value.(*ssa.Builtin); ok && bi.Name() == "len" {
					if bc := staticCallTo(lc.Call.Args[0], "(*math/big.Int).Bytes"); bc != nil {
						a := bc.Call.Args[0]
						b := d.Fields["factor"]
						if a == b {
							okLen = true
						}
					}
				}
			}
			// ... or the same number spelled (factor.BitLen() + 7) / 8
			if q, ok := d.Fields["factorBytesLength"].(*ssa.BinOp); ok && q.Op == token.QUO {
				if k8, ok := q.Y.(*ssa.Const); ok {
					if v8, _ := constInt64(k8.Value); v8 == 8 {
						if sum, ok := q.X.(*ssa.BinOp); ok && sum.Op == token.ADD {
							x, y := sum.X, sum.Y
							if _, isK := x.(*ssa.Const); isK {
								x, y = y, x
							}
							if k7, ok := y.(*ssa.Const); ok {
								if v7, _ := constInt64(k7.Value); v7 == 7 {
									if bc := staticCallTo(x, "(*math/big.Int).BitLen"); bc != nil && bc.Call.Args[0] == d.Fields["factor"] {
										okLen = true
									}
								}
							}
						}
					}
				}
			}
			if !okLen {
				bad = append(bad, "factorBytesLength is not len(factor.Bytes()) of the same factor")
			}
		}
		r.Check(len(bad) == 0, rule1b, "dh.dhTypes["+name+"]", c.InstrPos(e.Site), fmt.Sprintf("group %d: factor = SetString(%s, 16), generator = %s, length = len(factor.Bytes())", tid, w[0], w[1]), strings.Join(bad, "; "))
	}

	// rule 2: method shapes
	rule2 := prefix + "exp-and-padding"
	r.Rule(rule2, "GetPublicValue / GetSharedKey of every DH group return Zero(factorBytesLength - len(x)) || x with x = new(big.Int).Exp(base, secret, own factor).Bytes(), base = own generator / the peer value", 4)
	if nt := c.NamedType("security/dh", "DHType"); nt != nil {
		for _, T := range c.Implementers(nt.Underlying().(*types.Interface)) {
			for _, mn := range []string{"GetPublicValue", "GetSharedKey"} {
				m := c.methodOf(T, mn)
				key := typeKey(T) + "." + mn
				if m == nil {
					r.undecided(rule2, key, "-", "method not found")
					continue
				}
				r.Func(c.FuncName(m))
				okS, dS := c.dhMethodShape(m, mn)
				r.Check2(okS, dS, rule2, key, c.Pos(m.Pos()))
			}
		}
	} else {
		r.undecided(rule2, "anchor dh.DHType", "-", "anchor does not resolve")
	}

	// rule 3: GenerateRandomNumber
	c.randomNumberRules(r, prefix)
	c.dhConstantsImmutableRule(r, prefix+"group-constants-immutable")
}

// dhMethodShapes: rule "exp-and-padding" under another property's prefix (C07: the two ends of an exchange
// end up with the same SKEYSEED only if both represent g^ir as the RFC 7296 2.14 fixed-length string).
func (c *Ctx) dhMethodShapes(r *Report, rule string) {
	r.Rule(rule, "GetPublicValue / GetSharedKey of every DH group return Zero(factorBytesLength - len(x)) || x with x = new(big.Int).Exp(base, secret, own factor).Bytes() (the g^ir string SKEYSEED is computed from, RFC 7296 2.14)", 4)
	nt := c.NamedType("security/dh", "DHType")
	if nt == nil {
		r.undecided(rule, "anchor dh.DHType", "-", "anchor does not resolve")
		return
	}
	for _, T := range c.Implementers(nt.Underlying().(*types.Interface)) {
		for _, mn := range []string{"GetPublicValue", "GetSharedKey"} {
			m := c.methodOf(T, mn)
			key := typeKey(T) + "." + mn
			if m == nil {
				r.undecided(rule, key, "-", "method not found")
				continue
			}
			okS, dS := c.dhMethodShape(m, mn)
			r.Check2(okS, dS, rule, key, c.Pos(m.Pos()))
		}
	}
}

// dhConstantsImmutableRule: the primes and generators live in package-level descriptors built by init; the
// RFC-prime rule compares what init stores. That is the prime every later computation uses only if nothing
// outside init writes memory reachable from the DH package's variables - in particular no math/big method
// with a descriptor's number as its receiver (z.Sub(z, ...) overwrites z).
func (c *Ctx) dhConstantsImmutableRule(r *Report, rule string) {
	r.Rule(rule, "outside init no function stores to, or passes to a writing callee, memory reachable from the package-level variables of security/dh (group descriptors with their prime, generator and length): the constants init checked are the ones every exchange uses", 1)
	var scope []*ssa.Function
	for _, fn := range c.ModFuncs {
		if !isInitFunc(fn) {
			scope = append(scope, fn)
		}
	}
	dhPkg := c.Pkg("security/dh")
	if dhPkg == nil {
		r.undecided(rule, "package security/dh", "-", "anchor does not resolve")
		return
	}
	n := 0
	isDH := map[*ssa.Global]bool{}
	for _, g := range c.moduleGlobals() {
		if g.Pkg == dhPkg {
			isDH[g] = true
			n++
		}
	}
	if n == 0 {
		r.undecided(rule, "package security/dh", "-", "no package-level variable found")
		return
	}
	ar := c.Alias(&AliasCfg{Scope: scope, Source: func(fn *ssa.Function, v ssa.Value) bool {
		g, ok := v.(*ssa.Global)
		return ok && isDH[g]
	}})
	// inside the init functions (the existing one, or one in a file added later that runs after it): a math/big
	// method that writes its receiver has a number made on the spot as receiver, never one taken out of a descriptor
	for _, fn := range c.ModFuncs {
		if !isInitFunc(fn) || fn.Pkg != dhPkg {
			continue
		}
		for _, b := range fn.Blocks {
			for _, ins := range b.Instrs {
				call, ok := ins.(*ssa.Call)
				if !ok || call.Call.IsInvoke() || len(call.Call.Args) == 0 {
					continue
				}
				cal := call.Call.StaticCallee()
				if cal == nil || !strings.HasPrefix(cal.String(), "(*math/big.Int).") {
					continue
				}
				res := cal.Signature.Results()
				if res.Len() == 0 || !strings.HasSuffix(res.At(0).Type().String(), "big.Int") {
					continue
				}
				recv := call.Call.Args[0]
				fresh := false
				for i := 0; i < 4; i++ {
					if _, ok := recv.(*ssa.Alloc); ok {
						fresh = true
						break
					}
					// z.SetString(...) yields (z, ok); x.Op(...) yields x
					if ex, ok := recv.(*ssa.Extract); ok {
						recv = ex.Tuple
					}
					inner, ok := recv.(*ssa.Call)
					if !ok || inner.Call.StaticCallee() == nil || !strings.HasPrefix(inner.Call.StaticCallee().String(), "(*math/big.Int).") || len(inner.Call.Args) == 0 {
						break
					}
					recv = inner.Call.Args[0]
				}
				r.Check(fresh, rule, c.FuncName(fn)+": "+c.SrcExpr(call), c.InstrPos(call), "the receiver is a number made on the spot", "a math/big method that writes its receiver is applied in init to a number that is not made on the spot (one taken from a registered group descriptor is overwritten: the prime every exchange uses is no longer the constant that was checked)")
			}
		}
	}
	var bad []string
	for _, w := range ar.WritesThrough {
		bad = append(bad, c.FuncName(w.Fn)+": "+w.What+" at "+c.InstrPos(w.Ins)+" ["+c.SrcExpr(w.Ins)+"]")
	}
	for _, w := range ar.ExtArgs {
		bad = append(bad, c.FuncName(w.Fn)+": "+w.What+" at "+c.InstrPos(w.Ins)+" ["+c.SrcExpr(w.Ins)+"]")
	}
	for _, fn := range scope {
		for _, k := range c.DirectEffects(fn).sorted() {
			if strings.HasPrefix(k, "global:security/dh.") {
				bad = append(bad, c.FuncName(fn)+": direct store to "+k)
			}
		}
	}
	sort.Strings(bad)
	if len(bad) > 4 {
		bad = append(bad[:4], fmt.Sprintf("... %d more", len(bad)-4))
	}
	nt := 0
	for _, m := range ar.Tainted {
		for _, lv := range m {
			if lv > 0 {
				nt++
			}
		}
	}
	r.Check(len(bad) == 0 && nt > 0, rule, "package-level state of security/dh", "-", fmt.Sprintf("%d variable(s), %d derived values tracked through the module, none written outside init", n, nt), strings.Join(bad, "; "))
}

// Check2 adds an obligation from an (ok, detail) pair.
func (r *Report) Check2(ok bool, detail string, rule, key, pos string) {
	if ok {
		r.ok(rule, key, pos, detail, true)
	} else {
		r.bad(rule, key, pos, detail)
	}
}

func (c *Ctx) dhMethodShape(m *ssa.Function, mn string) (bool, string) {
	var rets []*ssa.Return
	for _, b := range m.Blocks {
		if ret, ok := b.Instrs[len(b.Instrs)-1].(*ssa.Return); ok {
			rets = append(rets, ret)
		}
	}
	if len(rets) != 1 || len(rets[0].Results) != 1 {
		return false, "expected a single return of one value"
	}
	// result = zeros(factorBytesLength - len(x)) | x, by append(make(L-len(x)), x...) or by copying x into the
	// tail of make(L)
	f := c.NewFA(m)
	recv0 := m.Params[0]
	// ... or by big.Int.FillBytes into a fresh buffer of factorBytesLength octets (the library's own "big-endian,
	// zero-extended on the left"; it panics rather than truncates when the value does not fit)
	var fillExp *ssa.Call
	if fb := staticCallTo(rets[0].Results[0], "(*math/big.Int).FillBytes"); fb != nil && len(fb.Call.Args) == 2 {
		mk, isMk := fb.Call.Args[1].(*ssa.MakeSlice)
		if !isMk {
			return false, "FillBytes does not write into a freshly made buffer"
		}
		if b, fld, ok := fieldLoad(mk.Len); !ok || b != ssa.Value(recv0) || fld != "factorBytesLength" {
			return false, "the buffer FillBytes writes is not factorBytesLength octets long"
		}
		fillExp = staticCallTo(fb.Call.Args[0], "(*math/big.Int).Exp")
		if fillExp == nil {
			return false, "the value FillBytes writes is not Exp(...)"
		}
	}
	var parts []cpart
	var x ssa.Value
	exp := fillExp
	if exp == nil {
		var okP bool
		parts, okP = c.concatOf(f, rets[0].Results[0], rets[0], 0)
		if !okP || len(parts) != 2 || parts[0].Kind != "zeros" || parts[1].Kind != "slice" {
			if okP {
				return false, "result is " + partsString(f, parts) + ", expected zeros(L - len(x)) | x"
			}
			return false, "result is not zeros | x (append onto a fresh zero slice, or a copy into the tail of a fresh buffer)"
		}
		x = parts[1].Val
		bytesCall := staticCallTo(x, "(*math/big.Int).Bytes")
		if bytesCall == nil {
			return false, "x is not big.Int.Bytes()"
		}
		exp = staticCallTo(bytesCall.Call.Args[0], "(*math/big.Int).Exp")
		if exp == nil {
			return false, "x is not Exp(...).Bytes()"
		}
	}
	if _, isNew := exp.Call.Args[0].(*ssa.Alloc); !isNew {
		return false, "Exp writes into an existing big.Int"
	}
	recv := m.Params[0]
	isRecvField := func(v ssa.Value, name string) bool {
		b, f, ok := fieldLoad(v)
		return ok && b == ssa.Value(recv) && f == name
	}
	// base
	if mn == "GetPublicValue" {
		if !isRecvField(exp.Call.Args[1], "generator") {
			return false, "the base is not the group's own generator"
		}
		if paramIndex(m, exp.Call.Args[2]) != 1 {
			return false, "the exponent is not the secret parameter"
		}
	} else {
		if paramIndex(m, exp.Call.Args[1]) != 2 {
			return false, "the base is not the peer's public value"
		}
		if paramIndex(m, exp.Call.Args[2]) != 1 {
			return false, "the exponent is not the secret parameter"
		}
	}
	if !isRecvField(exp.Call.Args[3], "factor") {
		return false, "the modulus is not the group's own factor"
	}
	if fillExp != nil {
		return true, "new(big.Int).Exp(base, secret, factor).FillBytes(make([]byte, factorBytesLength))"
	}
	// zeros length = factorBytesLength - len(x)
	var fbl ssa.Value
	for _, bb := range m.Blocks {
		for _, ins := range bb.Instrs {
			if v, ok := ins.(ssa.Value); ok && isRecvField(v, "factorBytesLength") {
				fbl = v
			}
		}
	}
	if fbl == nil {
		return false, "the padded length is not the group's factorBytesLength"
	}
	wantZ := f.LFOf(fbl).add(f.SliceLen(x), -1)
	okZ := parts[0].Len.key() == wantZ.key()
	if !okZ {
		// E1 keeps L - len(x) as an atom when L is not bounded: compare the expression itself
		if id, ok := singleAtom(parts[0].Len); ok {
			if sub, ok := f.atomDef(id).(*ssa.BinOp); ok && sub.Op == token.SUB && isRecvField(sub.X, "factorBytesLength") && f.LFOf(sub.Y).key() == f.SliceLen(x).key() {
				okZ = true
			}
		}
	}
	if !okZ {
		return false, "padding length is " + f.Show(parts[0].Len) + ", expected factorBytesLength - len(x)"
	}
	return true, "Zero(factorBytesLength - len(x)) || x, x = new(big.Int).Exp(base, secret, factor).Bytes()"
}

func (c *Ctx) randomNumberRules(r *Report, prefix string) {
	rule := prefix + "random-exponent"
	r.Rule(rule, "GenerateRandomNumber draws from crypto/rand.Int(crypto/rand.Reader, &max), turns a failure into an error with a nil number, and returns a number only on the Cmp(&min) == 1 edge; max = 2^2048-1 and min = 2^128-1 are written only in init", 5)
	gn := c.Func("security", "GenerateRandomNumber")
	if gn == nil {
		r.undecided(rule, "anchor security.GenerateRandomNumber", "-", "anchor does not resolve")
		return
	}
	r.Func(c.FuncName(gn))
	p := c.Pkg("security")
	maxG, _ := p.Members["randomNumberMaximum"].(*ssa.Global)
	minG, _ := p.Members["randomNumberMinimum"].(*ssa.Global)
	var rcall *ssa.Call
	for _, b := range gn.Blocks {
		for _, ins := range b.Instrs {
			if call := staticCallTo(valueOf(ins), "crypto/rand.Int"); call != nil {
				rcall = call
			}
		}
	}
	if rcall == nil {
		r.bad(rule, "security.GenerateRandomNumber: source", c.Pos(gn.Pos()), "no call to crypto/rand.Int")
		return
	}
	// the bounds: the two package variables set in init (checked below), or - when they are computed, per call or
	// at declaration - numbers the checker evaluates from the constants (new(big.Int).Lsh(NewInt(1), n) - 1, ...)
	wantMax := new(big.Int).Sub(new(big.Int).Lsh(big.NewInt(1), 2048), big.NewInt(1))
	wantMin := new(big.Int).Sub(new(big.Int).Lsh(big.NewInt(1), 128), big.NewInt(1))
	computed := false
	isBound := func(v ssa.Value, g *ssa.Global, want *big.Int, at ssa.Instruction) bool {
		if g != nil && v == ssa.Value(g) {
			return true
		}
		if got, ok := c.evalBig(gn, v, at, 0); ok && got.Cmp(want) == 0 {
			computed = true
			return true
		}
		return false
	}
	srcOK := isBound(rcall.Call.Args[1], maxG, wantMax, rcall)
	if mi, ok := rcall.Call.Args[0].(*ssa.MakeInterface); ok {
		if u, ok := mi.X.(*ssa.UnOp); ok {
			if g, ok := u.X.(*ssa.Global); !ok || g.Pkg.Pkg.Path() != "crypto/rand" || g.Name() != "Reader" {
				srcOK = false
			}
		} else {
			srcOK = false
		}
	} else if u, ok := rcall.Call.Args[0].(*ssa.UnOp); ok {
		if g, ok := u.X.(*ssa.Global); !ok || g.Pkg.Pkg.Path() != "crypto/rand" || g.Name() != "Reader" {
			srcOK = false
		}
	} else {
		srcOK = false
	}
	r.Check(srcOK, rule, "security.GenerateRandomNumber: source", c.InstrPos(rcall), "rand.Int(crypto/rand.Reader, &randomNumberMaximum)", "the exponent is not drawn from crypto/rand.Reader below randomNumberMaximum")
	ok2, why := c.errorChecked(rcall)
	r.Check(ok2, rule, "security.GenerateRandomNumber: failure is an error", c.InstrPos(rcall), why, why)
	// success returns: result 0 must be the rand.Int number, dominated by Cmp(&min) == 1 true edge
	num := resultN(rcall, 0)
	okRet, n := true, 0
	detail := ""
	// cmpEdge: the edge pb -> x is taken only when number.Cmp(&randomNumberMinimum) was +1
	cmpEdge := func(pb, x *ssa.BasicBlock) bool {
		iff, ok := pb.Instrs[len(pb.Instrs)-1].(*ssa.If)
		if !ok || pb.Succs[0] == pb.Succs[1] {
			return false
		}
		cond, ok := iff.Cond.(*ssa.BinOp)
		if !ok {
			return false
		}
		cmp := staticCallTo(cond.X, "(*math/big.Int).Cmp")
		k, _ := cond.Y.(*ssa.Const)
		if cmp == nil || k == nil {
			return false
		}
		kv, _ := constInt64(k.Value)
		// Cmp yields -1, 0 or +1: on this edge, which of them can it have been? "greater" iff only +1
		onTrue := pb.Succs[0] == x
		only1 := true
		any := false
		for _, rv := range []int64{-1, 0, 1} {
			var t bool
			switch cond.Op {
			case token.EQL:
				t = rv == kv
			case token.NEQ:
				t = rv != kv
			case token.LSS:
				t = rv < kv
			case token.LEQ:
				t = rv <= kv
			case token.GTR:
				t = rv > kv
			case token.GEQ:
				t = rv >= kv
			default:
				only1 = false
			}
			if t == onTrue {
				any = true
				if rv != 1 {
					only1 = false
				}
			}
		}
		return any && only1 && cmp.Call.Args[0] == num && isBound(cmp.Call.Args[1], minG, wantMin, cmp)
	}
	// nonNilEdge: the edge pb -> x is taken only when v was not nil
	nonNilEdge := func(v ssa.Value) func(pb, x *ssa.BasicBlock) bool {
		return func(pb, x *ssa.BasicBlock) bool {
			iff, ok := pb.Instrs[len(pb.Instrs)-1].(*ssa.If)
			if !ok || pb.Succs[0] == pb.Succs[1] {
				return false
			}
			cond, ok := iff.Cond.(*ssa.BinOp)
			if !ok || (cond.Op != token.EQL && cond.Op != token.NEQ) {
				return false
			}
			if !(cond.X == v && isNilConst(cond.Y)) && !(cond.Y == v && isNilConst(cond.X)) {
				return false
			}
			if cond.Op == token.NEQ {
				return pb.Succs[0] == x
			}
			return pb.Succs[1] == x
		}
	}
	// under: the program point (entering `to` from `from`, or anywhere in `to` when from is nil) lies behind an edge satisfying e
	under := func(from, to *ssa.BasicBlock, e func(pb, x *ssa.BasicBlock) bool) bool {
		start := to
		if from != nil {
			if e(from, to) {
				return true
			}
			start = from
		}
		for x := start; x != nil; x = x.Idom() {
			if len(x.Preds) == 1 && e(x.Preds[0], x) {
				return true
			}
		}
		return false
	}
	// nilOn: v is nil when control enters `to` from `from`: the nil constant, a value behind the nil edge of a
	// test of it, or a merge of such values
	nilEdge := func(v ssa.Value) func(pb, x *ssa.BasicBlock) bool {
		nn := nonNilEdge(v)
		return func(pb, x *ssa.BasicBlock) bool {
			for i, s := range pb.Succs {
				if s == x && len(pb.Succs) == 2 && pb.Succs[0] != pb.Succs[1] {
					return nn(pb, pb.Succs[1-i])
				}
			}
			return false
		}
	}
	var nilOn func(v ssa.Value, from, to *ssa.BasicBlock, seen map[ssa.Value]bool) bool
	nilOn = func(v ssa.Value, from, to *ssa.BasicBlock, seen map[ssa.Value]bool) bool {
		if isNilConst(v) {
			return true
		}
		if under(from, to, nilEdge(v)) {
			return true
		}
		if ph, ok := v.(*ssa.Phi); ok {
			if seen[ph] {
				return true
			}
			seen[ph] = true
			for i, e := range ph.Edges {
				if !nilOn(e, ph.Block().Preds[i], ph.Block(), seen) {
					return false
				}
			}
			return true
		}
		return false
	}
	for _, b := range gn.Blocks {
		ret, ok := b.Instrs[len(b.Instrs)-1].(*ssa.Return)
		if !ok {
			continue
		}
		// the ways this return is a success: the error result is nil, or is nil on some of the edges into the
		// return's block (named results merged before a single return)
		type entry struct {
			v    ssa.Value
			from *ssa.BasicBlock
		}
		var entries []entry
		if isNilConst(ret.Results[1]) {
			entries = append(entries, entry{ret.Results[0], nil})
		} else if ephi, ok := ret.Results[1].(*ssa.Phi); ok && ephi.Block() == b {
			for i, e := range ephi.Edges {
				if c.nonNilError(e, nil, 0) {
					continue
				}
				v := ret.Results[0]
				if vphi, ok := v.(*ssa.Phi); ok && vphi.Block() == b {
					v = vphi.Edges[i]
				}
				if !nilOn(e, b.Preds[i], b, map[ssa.Value]bool{}) {
					okRet = false
					detail = "cannot tell whether the return at " + c.InstrPos(ret) + " is a success"
				}
				entries = append(entries, entry{v, b.Preds[i]})
			}
		} else if !c.nonNilError(ret.Results[1], nil, 0) {
			n++
			okRet = false
			detail = "cannot tell whether the return at " + c.InstrPos(ret) + " is a success"
		}
		for _, en := range entries {
			n++
			// origins of the returned value through merges: the drawn number on a Cmp == 1 edge; nil only if
			// the returned value itself was tested non-nil before the return
			sawNil := false
			seen := map[ssa.Value]bool{}
			var walk func(v ssa.Value, from, to *ssa.BasicBlock)
			walk = func(v ssa.Value, from, to *ssa.BasicBlock) {
				switch t := v.(type) {
				case *ssa.Phi:
					if seen[t] {
						return
					}
					seen[t] = true
					for i, e := range t.Edges {
						walk(e, t.Block().Preds[i], t.Block())
					}
					return
				case *ssa.Const:
					if t.IsNil() {
						sawNil = true
						return
					}
				}
				if v != num {
					okRet = false
					detail = "a returned number is not the one drawn from rand.Int"
					return
				}
				if !under(from, to, cmpEdge) {
					okRet = false
					detail = "a number can be returned without having been compared greater than randomNumberMinimum"
				}
			}
			walk(en.v, en.from, b)
			if sawNil && !under(en.from, b, nonNilEdge(en.v)) {
				okRet = false
				detail = "a nil number can be returned as a success"
			}
		}
	}
	r.Check(okRet && n > 0, rule, "security.GenerateRandomNumber: lower bound", c.Pos(gn.Pos()), fmt.Sprintf("%d success return(s), each of the drawn number on the number.Cmp(&min) == 1 edge", n), detail)
	// bounds constants in init
	for _, bd := range []struct {
		g    *ssa.Global
		reps int64
		what string
	}{{maxG, 512, "2^2048-1"}, {minG, 32, "2^128-1"}} {
		if bd.g == nil || computed {
			// computed bounds: their values were evaluated where they are used
			r.Check(computed, rule, "security."+map[int64]string{512: "randomNumberMaximum", 32: "randomNumberMinimum"}[bd.reps]+" = "+bd.what, c.Pos(gn.Pos()), "the bound used evaluates to "+bd.what+" (constant propagation over the math/big operations that build it)", "the bound is neither a package variable set in init nor a number that evaluates to "+bd.what)
			continue
		}
		okC, n := false, 0
		for _, fn := range c.ModFuncs {
			for _, b := range fn.Blocks {
				for _, ins := range b.Instrs {
					call := staticCallTo(valueOf(ins), "(*math/big.Int).SetString")
					if call == nil || call.Call.Args[0] != ssa.Value(bd.g) {
						continue
					}
					n++
					rep := staticCallTo(call.Call.Args[1], "strings.Repeat")
					bk, _ := call.Call.Args[2].(*ssa.Const)
					if rep == nil || bk == nil || !isInitFunc(fn) {
						continue
					}
					sk, _ := rep.Call.Args[0].(*ssa.Const)
					nk, _ := rep.Call.Args[1].(*ssa.Const)
					if sk == nil || nk == nil || sk.Value == nil {
						continue
					}
					base, _ := constInt64(bk.Value)
					cnt, _ := constInt64(nk.Value)
					if strings.ToUpper(constant.StringVal(sk.Value)) == "F" && cnt == bd.reps && base == 16 {
						okC = true
					}
				}
			}
		}
		if n == 0 {
			// 2^n - 1 computed: g.Lsh(one, n) then g.Sub(&g, one) with one = big.NewInt(1), the only two calls that
			// write g, both in init, in this order
			var writers []*ssa.Call
			inInit := true
			for _, fn := range c.ModFuncs {
				for _, b := range fn.Blocks {
					for _, ins := range b.Instrs {
						call, ok := ins.(*ssa.Call)
						if !ok || call.Call.IsInvoke() || len(call.Call.Args) == 0 || call.Call.Args[0] != ssa.Value(bd.g) {
							continue
						}
						cal := call.Call.StaticCallee()
						if cal == nil || !strings.HasPrefix(cal.String(), "(*math/big.Int).") {
							continue
						}
						if res := cal.Signature.Results(); res.Len() >= 1 && strings.HasSuffix(res.At(0).Type().String(), "big.Int") {
							writers = append(writers, call)
							if !isInitFunc(fn) {
								inInit = false
							}
						}
					}
				}
			}
			isOne := func(v ssa.Value) bool {
				call := staticCallTo(v, "math/big.NewInt")
				if call == nil {
					return false
				}
				k, ok := call.Call.Args[0].(*ssa.Const)
				if !ok {
					return false
				}
				kv, _ := constInt64(k.Value)
				return kv == 1
			}
			if len(writers) == 2 && inInit {
				lsh, sub := writers[0], writers[1]
				if lsh.Call.StaticCallee().Name() == "Sub" {
					lsh, sub = sub, lsh
				}
				if lsh.Call.StaticCallee().Name() == "Lsh" && sub.Call.StaticCallee().Name() == "Sub" && dominatesInstr(lsh, sub) &&
					isOne(lsh.Call.Args[1]) && (sub.Call.Args[1] == ssa.Value(bd.g) || sub.Call.Args[1] == ssa.Value(lsh)) && isOne(sub.Call.Args[2]) {
					if k, ok := lsh.Call.Args[2].(*ssa.Const); ok {
						if kv, _ := constInt64(k.Value); kv == bd.reps*4 {
							okC, n = true, 1
						}
					}
				}
			}
		}
		r.Check(okC && n == 1, rule, "security."+bd.g.Name()+" = "+bd.what, c.Pos(bd.g.Pos()), fmt.Sprintf("set once, in init, to SetString(strings.Repeat(\"F\", %d), 16)", bd.reps), "the bound is not set exactly once in init to "+bd.what)
	}
	// rule 4: CalculateDiffieHellmanMaterials
	rule4 := prefix + "dh-materials"
	r.Rule(rule4, "CalculateDiffieHellmanMaterials propagates a random-source failure as an error without keys and feeds one secret to both GetPublicValue and GetSharedKey of the SA's group", 2)
	cd := c.Func("security", "CalculateDiffieHellmanMaterials")
	if cd == nil {
		r.undecided(rule4, "anchor", "-", "anchor does not resolve")
		return
	}
	r.Func(c.FuncName(cd))
	calls := c.callsTo(cd, gn)
	if len(calls) != 1 {
		r.bad(rule4, "one exponent per call", c.Pos(cd.Pos()), fmt.Sprintf("GenerateRandomNumber called %d times", len(calls)))
		return
	}
	ok3, why3 := c.errorChecked(calls[0])
	r.Check(ok3, rule4, "random-source failure is an error", c.InstrPos(calls[0]), why3, why3)
	secret := resultN(calls[0], 0)
	pubOK, shOK := false, false
	for _, b := range cd.Blocks {
		for _, ins := range b.Instrs {
			call, ok := ins.(*ssa.Call)
			if !ok || !call.Call.IsInvoke() {
				continue
			}
			_, fld, isF := fieldLoad(call.Call.Value)
			if !isF || fld != "DhInfo" {
				continue
			}
			switch call.Call.Method.Name() {
			case "GetPublicValue":
				pubOK = call.Call.Args[0] == secret
			case "GetSharedKey":
				shOK = call.Call.Args[0] == secret
				// peer value: big.Int.SetBytes(new, peer param)
				sb := staticCallTo(call.Call.Args[1], "(*math/big.Int).SetBytes")
				if sb == nil || paramIndex(cd, sb.Call.Args[1]) != 1 {
					shOK = false
				}
			}
		}
	}
	r.Check(pubOK && shOK, rule4, "one secret feeds public value and shared key", c.Pos(cd.Pos()), "GetPublicValue(secret) and GetSharedKey(secret, SetBytes(peerPublicValue)) on ikesaKey.DhInfo", "public value and shared key do not use the same freshly drawn secret / the peer's value")
}

func valueOf(ins ssa.Instruction) ssa.Value {
	v, _ := ins.(ssa.Value)
	return v
}
