package lint

import (
	"fmt"
	"go/token"
	"os"
	"strings"

	"ikeverif/checker/xt/ssa"
)

// RunC06 decides property C06.
func RunC06(c *Ctx, r *Report) {
	prefix := "C06."
	r.Explanation = "Dataflow shape of protection against RFC 7296 3.14: the inner payloads are encoded, encrypted under the sender's direction key and extended by an L-octet placeholder before the message is encoded (so both length fields are final when the MAC is computed); the MAC input is that encoding minus its last L octets; the MAC output is copied into the tail of the very Encrypted payload the final Encode serialises, and nothing else changes afterwards; the SK next-payload field names the first inner payload; Encrypt emits IV | CBC(plaintext | pad | padlen); padding count in [1,16] with pad length p-1; Decrypt strips last+1 and accepts any pad content."
	r.TrustedBase = append(r.TrustedBase, "go/types and go/ssa (x/tools v0.29.0)", "the checker's dominance and linear-form helpers", "plain encoding is deterministic and does not alter payloads (C20)")
	r.Assumptions = append(r.Assumptions, "crypto/aes, crypto/cipher and crypto/hmac are correct", "EncrAesCbcCrypto.Iv/Padding are never assigned by non-test code")
	r.NotDecided = append(r.NotDecided, "byte-level interoperability with a concrete independent implementation (value-level)", "acceptance arithmetic for pad lengths above 16 from a peer beyond the structural rule 'strip last+1'")
	r.Rule(prefix+"anchor", "every function named by the rules resolves", 0)
	a, ok := c.ikeFuncs(r, prefix)
	if !ok {
		return
	}
	em := a.encryptMsg
	r.Func(c.FuncName(em))
	c.protectTotality(r, prefix)
	c.registryLengthRules(r, prefix)
	// the algorithms applied are the negotiated ones: a received transform resolves to the descriptor registered for it
	c.registryRules(r, prefix+"registry.integ.", "security/integ")
	c.registryRules(r, prefix+"registry.encr.", "security/encr")
	// the Encrypted payload is appended to a list built from nothing: were the old list's storage kept, the SK
	// payload would overwrite the first inner payload of a list the caller still uses for the next message
	c.protectListFreshRule(r, prefix+"protect.list-rebuilt-from-nil", em)
	c.protectIntactOnFailureRule(r, prefix+"protect.message-intact-on-failure", a)
	f := c.NewFA(em)
	rule := prefix + "protect-order"
	r.Rule(rule, "encryptMsg: inner = Payloads.Encode() of the original list; ciphertext = encryptPayload(inner); Reset and BuildEncrypted(next, ciphertext|Zero(L)) dominate the ikeMsg.Encode() whose result minus its last L octets is MAC'd; the MAC is copied into sk.EncryptedData[len-L:] of the payload BuildEncrypted returned; after that Encode nothing but the checksum copy changes the message", 6)
	contEncode := c.Method("message", "IKEPayloadContainer", "Encode")
	msgEncode := c.Method("message", "IKEMessage", "Encode")
	build := c.Method("message", "IKEPayloadContainer", "BuildEncrypted")
	reset := c.Method("message", "IKEPayloadContainer", "Reset")
	if contEncode == nil || msgEncode == nil || build == nil || reset == nil {
		r.undecided(rule, "anchors", "-", "container Encode / message Encode / BuildEncrypted / Reset do not resolve")
		return
	}
	one := func(callee *ssa.Function, what string) *ssa.Call {
		cs := c.callsTo(em, callee)
		if len(cs) != 1 {
			r.bad(rule, "ike.encryptMsg: one call to "+what, c.Pos(em.Pos()), fmt.Sprintf("found %d", len(cs)))
			return nil
		}
		return cs[0]
	}
	ce, me, bc, rc := one(contEncode, "Payloads.Encode"), one(msgEncode, "ikeMsg.Encode"), one(build, "BuildEncrypted"), one(reset, "Payloads.Reset")
	ep := one(a.encryptPayload, "encryptPayload")
	ci := one(a.calculateIntegrity, "calculateIntegrity")
	if ce == nil || me == nil || bc == nil || rc == nil || ep == nil || ci == nil {
		return
	}
	// inner = Encode of the original payload list (loaded before Reset)
	okInner := false
	if al, ok := ce.Call.Args[0].(*ssa.Alloc); ok {
		// ikePayloads := ikeMsg.Payloads stored into a local whose address is the receiver
		for _, ref := range *al.Referrers() {
			if st, ok := ref.(*ssa.Store); ok && st.Addr == ssa.Value(al) {
				if base, fld, ok := fieldLoad(st.Val); ok && fld == "Payloads" && paramIndex(em, base) == 0 && dominatesInstr(st, rc) {
					okInner = true
				}
			}
		}
	} else if fa, ok := ce.Call.Args[0].(*ssa.FieldAddr); ok {
		okInner = paramIndex(em, fa.X) == 0 && dominatesInstr(ce, rc)
	}
	plain := resultN(ce, 0)
	r.Check(okInner && ep.Call.Args[0] == plain && onNilErrEdge(errResult(ce), ep.Block()), rule, "ike.encryptMsg: plaintext = encoding of the original payload list", c.InstrPos(ce), "ikePayloads (read before Reset).Encode() feeds encryptPayload on its nil-error edge", "the bytes encrypted are not the encoding of the message's original payload list")
	// order
	okOrder := dominatesInstr(ep, bc) && dominatesInstr(rc, bc) && dominatesInstr(bc, me) && onNilErrEdge(errResult(ep), bc.Block())
	// receivers
	if fa, ok := bc.Call.Args[0].(*ssa.FieldAddr); !ok || paramIndex(em, fa.X) != 0 {
		okOrder = false
	}
	if fa, ok := rc.Call.Args[0].(*ssa.FieldAddr); !ok || paramIndex(em, fa.X) != 0 {
		okOrder = false
	}
	if paramIndex(em, me.Call.Args[0]) != 0 {
		okOrder = false
	}
	r.Check(okOrder, rule, "ike.encryptMsg: Reset, BuildEncrypted, then Encode", c.InstrPos(me), "the message is encoded after its payload list was replaced by the SK payload carrying ciphertext and placeholder: both length fields are final", "the encoding that is MAC'd is not taken after Reset + BuildEncrypted on the same message")
	// MAC input
	L := c.outputLenCall(em)
	encoded := resultN(me, 0)
	okSpan, ds := false, "MAC input is not encoded[:len(encoded)-L]"
	if sl, ok := ci.Call.Args[2].(*ssa.Slice); ok && sl.Low == nil && sl.High != nil && sl.X == encoded && L != nil {
		want := f.SliceLen(encoded).add(f.LFOf(L), -1)
		if f.LFOf(sl.High).key() == want.key() && onNilErrEdge(errResult(me), ci.Block()) {
			okSpan = true
			ds = "calculateIntegrity(key, role, encoded[:len(encoded)-L]) on Encode's nil-error edge"
		}
	}
	r.Check(okSpan, rule, "ike.encryptMsg: MAC input = encoding minus the last L octets", c.InstrPos(ci), ds, ds)
	// copy into tail of sk
	okCopy, dc := false, "the MAC is not copied into sk.EncryptedData[len-L:] of the payload returned by BuildEncrypted"
	var cp *ssa.Call
	for _, b := range em.Blocks {
		for _, ins := range b.Instrs {
			if call, ok := ins.(*ssa.Call); ok {
				if bi, ok := call.Call.Value.(*ssa.Builtin); ok && bi.Name() == "copy" {
					cp = call
				}
			}
		}
	}
	if cp != nil && L != nil {
		if sl, ok := cp.Call.Args[0].(*ssa.Slice); ok && sl.High == nil && sl.Low != nil {
			if base, fld, ok := fieldLoad(sl.X); ok && fld == "EncryptedData" && base == ssa.Value(bc) {
				want := f.SliceLen(sl.X).add(f.LFOf(L), -1)
				if f.LFOf(sl.Low).key() == want.key() && cp.Call.Args[1] == resultN(ci, 0) && onNilErrEdge(errResult(ci), cp.Block()) {
					okCopy = true
					dc = "copy(sk.EncryptedData[len-L:], calculateIntegrity(...)) with sk = BuildEncrypted(...)"
				}
			}
		}
	}
	pos := c.Pos(em.Pos())
	if cp != nil {
		pos = c.InstrPos(cp)
	}
	r.Check(okCopy, rule, "ike.encryptMsg: checksum lands in the tail of the serialised SK payload", pos, dc, dc)
	// nothing else changes after the MAC'd Encode
	var extra []string
	for _, b := range em.Blocks {
		for _, ins := range b.Instrs {
			if !dominatesInstr(me, ins) || ins == ssa.Instruction(me) {
				continue
			}
			switch x := ins.(type) {
			case *ssa.Store:
				if !freshRoot(x.Addr) {
					extra = append(extra, "store at "+c.InstrPos(ins))
				}
			case *ssa.MapUpdate:
				extra = append(extra, "map update at "+c.InstrPos(ins))
			case *ssa.Call:
				if x == cp || x == ci {
					continue
				}
				if _, isB := x.Call.Value.(*ssa.Builtin); isB {
					if x.Call.Value.Name() == "copy" || x.Call.Value.Name() == "append" {
						extra = append(extra, x.Call.Value.Name()+" at "+c.InstrPos(ins))
					}
					continue
				}
				for _, m := range c.CalleesAt(x).Mod {
					for _, k := range c.ModSet(m).sorted() {
						if !strings.HasPrefix(k, "fresh:") {
							extra = append(extra, "call to "+c.FuncName(m)+" (writes "+k+") at "+c.InstrPos(ins))
							break
						}
					}
				}
			}
		}
	}
	r.Check(len(extra) == 0, rule, "ike.encryptMsg: only the checksum changes after the MAC'd encoding", c.InstrPos(me), "after ikeMsg.Encode() the function only computes the MAC and copies it", "the message may change between the MAC'd encoding and the final encoding: "+strings.Join(extra, "; "))
	// EncodeEncrypt: the final Encode directly follows encryptMsg
	ee := a.EncodeEncrypt
	var extra2 []string
	for _, b := range ee.Blocks {
		for _, ins := range b.Instrs {
			switch x := ins.(type) {
			case *ssa.Store, *ssa.MapUpdate:
				extra2 = append(extra2, "store at "+c.InstrPos(ins))
			case *ssa.Call:
				for _, m := range c.CalleesAt(x).Mod {
					if m != a.encryptMsg && m != msgEncode {
						extra2 = append(extra2, "call to "+c.FuncName(m))
					}
				}
			}
		}
	}
	r.Check(len(extra2) == 0, rule, "ike.EncodeEncrypt: final Encode directly follows encryptMsg", c.Pos(ee.Pos()), "no other effect between protection and the final encoding", strings.Join(extra2, "; "))

	// shared rules
	c.innerChainRules(r, prefix, a)
	c.keyDirectionRules(r, prefix, a)
	c.macSpanRules(r, prefix, a, false)
	c.aesCbcEncryptRules(r, prefix)
	c.pkcs7Rules(r, prefix)
	c.aesCbcDecryptRules(r, prefix)
	c.trailingSKRule(r, prefix)
}

// trailingSKRule: the container encoder writes, into the generic header of the last payload, the
// Encrypted payload's own NextPayload when that payload is SK, and 0 otherwise; for every other
// position the type of the following payload.
func (c *Ctx) trailingSKRule(r *Report, prefix string) {
	rule := prefix + "chain-next-payload"
	r.Rule(rule, "container Encode: octet 0 of each generic header = Type() of the following payload; for the last payload the SK payload's NextPayload field, or 0", 3)
	fn := c.Method("message", "IKEPayloadContainer", "Encode")
	if fn == nil {
		r.undecided(rule, "anchor", "-", "container Encode does not resolve")
		return
	}
	r.Func(c.FuncName(fn))
	f := c.NewFA(fn)
	skConst := c.constInt("message", "TypeSK")
	isLoopHeader := map[*ssa.BasicBlock]bool{}
	for _, li := range naturalLoops(fn) {
		isLoopHeader[li.header] = true
	}
	// the element being encoded: container[idx] whose Marshal is invoked; "has a successor" and "is the last" are
	// then facts about idx and len(container) that the dominating tests establish in whatever spelling
	// ((index+1) < len(c), index < len(c)-1, index != last)
	var idxLF, lenLF LF
	haveIdx := false
	for _, b := range fn.Blocks {
		for _, ins := range b.Instrs {
			call, ok := ins.(*ssa.Call)
			if !ok || !call.Call.IsInvoke() || call.Call.Method.Name() != "Marshal" {
				continue
			}
			if u, ok := call.Call.Value.(*ssa.UnOp); ok {
				if ia, ok := u.X.(*ssa.IndexAddr); ok {
					idxLF, lenLF, haveIdx = f.LFOf(ia.Index), f.SliceLen(ia.X), true
				}
			}
		}
	}
	proves := func(g LF, at *ssa.BasicBlock) bool {
		if !haveIdx {
			return false
		}
		ok, _ := f.Prove(g, f.FactsAt(at))
		if os.Getenv("IKELINT_DEBUG_CHAIN") != "" {
			fmt.Fprintf(os.Stderr, "chain: prove %s at block %d from {%s}: %v\n", f.Show(g), at.Index, f.ShowFacts(f.FactsAt(at)), ok)
		}
		return ok
	}
	n := 0
	for _, b := range fn.Blocks {
		for _, ins := range b.Instrs {
			st, ok := ins.(*ssa.Store)
			if !ok {
				continue
			}
			ia, ok := st.Addr.(*ssa.IndexAddr)
			// the generic header is a 4-octet buffer of its own, or four explicit octets appended to the output
			if !ok || (!isByteSlice(ia.X.Type()) && !isByteArrayPtr(ia.X.Type())) {
				continue
			}
			if idx := f.LFOf(ia.Index); !idx.isConst() || idx.C != 0 {
				continue
			}
			// one store of a merged value (v = φ(...) computed by an if/else or an extracted helper) stands
			// for one store per alternative, each on the path the alternative comes from
			for _, alt := range phiAlternatives(st.Val, b, 0) {
				b := alt.blk
				n++
				key := "payloadData[0] := " + c.SrcExpr(st)
				if alt.val != st.Val {
					key += " / " + alt.val.Name()
				}
				v := alt.val
				for {
					if cv, ok := v.(*ssa.Convert); ok {
						v = cv.X
						continue
					}
					if ct, ok := v.(*ssa.ChangeType); ok {
						v = ct.X
						continue
					}
					break
				}
				hasNext := false // dominated by the true edge of (index+1) < len(container)
				for bb := b; bb != nil; bb = bb.Idom() {
					if len(bb.Preds) != 1 {
						continue
					}
					p := bb.Preds[0]
					iff, ok := p.Instrs[len(p.Instrs)-1].(*ssa.If)
					if !ok {
						continue
					}
					cond, ok := iff.Cond.(*ssa.BinOp)
					if !ok || cond.Op != token.LSS || isLoopHeader[p] {
						continue
					}
					add, ok := cond.X.(*ssa.BinOp)
					if !ok || add.Op != token.ADD {
						continue
					}
					if k, ok := add.Y.(*ssa.Const); !ok {
						continue
					} else if kv, _ := constInt64(k.Value); kv != 1 {
						continue
					}
					if lc, ok := cond.Y.(*ssa.Call); ok {
						if bi, ok := lc.Call.Value.(*ssa.Builtin); ok && bi.Name() == "len" && p.Succs[0] == bb {
							hasNext = true
						}
					}
				}
				// the same through the numeric facts: idx + 2 <= len (a successor exists), idx + 1 >= len (the last)
				if !hasNext && proves(lenLF.add(idxLF, -1).add(konst(2), -1), b) {
					hasNext = true
				}
				if hasNext && haveIdx && !proves(lenLF.add(idxLF, -1).add(konst(2), -1), b) {
					// the syntactic form matched a comparison that is not about this element
					hasNext = false
				}
				isLast := !hasNext
				if haveIdx {
					isLast = proves(idxLF.add(konst(1), 1).add(lenLF, -1), b)
				}
				switch x := v.(type) {
				case *ssa.Call:
					// next.Type(): receiver = container[index+1]
					okT := x.Call.IsInvoke() && x.Call.Method.Name() == "Type" && hasNext
					if okT {
						if u, ok := x.Call.Value.(*ssa.UnOp); ok {
							if ia2, ok := u.X.(*ssa.IndexAddr); ok {
								// index+1 relative to the loop index
								if haveIdx && f.LFOf(ia2.Index).add(idxLF, -1).key() != konst(1).key() {
									okT = false
								}
							} else {
								okT = false
							}
						}
					}
					r.Check(okT, rule, key, c.InstrPos(st), "not last: Type() of the following element", "a generic header is given a next-payload value that is not the following payload's type")
				case *ssa.UnOp:
					_, fld, ok := fieldLoad(v)
					okF := ok && fld == "NextPayload" && !hasNext && isLast
					// dominated by payload.Type() == TypeSK
					okSK := false
					for bb := b; bb != nil; bb = bb.Idom() {
						if len(bb.Preds) != 1 {
							continue
						}
						p := bb.Preds[0]
						if iff, ok := p.Instrs[len(p.Instrs)-1].(*ssa.If); ok && p.Succs[0] == bb {
							if cond, ok := iff.Cond.(*ssa.BinOp); ok && cond.Op == token.EQL {
								if k, ok := cond.Y.(*ssa.Const); ok && skConst != nil {
									if kv, _ := constInt64(k.Value); kv == *skConst {
										okSK = true
									}
								}
							}
						}
					}
					r.Check(okF && okSK, rule, key, c.InstrPos(st), "last and SK: the Encrypted payload's NextPayload field", "the trailing SK payload's generic header does not carry its NextPayload field")
				case *ssa.Const:
					kv, _ := constInt64(x.Value)
					r.Check(kv == 0 && !hasNext && isLast, rule, key, c.InstrPos(st), "last and not SK: 0 (no next payload)", "a constant next-payload value other than 0, or 0 on a non-last payload")
				default:
					r.bad(rule, key, c.InstrPos(st), "unrecognised next-payload value")
				}
			}
		}
	}
	if n < 3 {
		r.bad(rule, "three next-payload writers", c.Pos(fn.Pos()), fmt.Sprintf("found %d stores to octet 0 of the generic header", n))
	}
}

type valAlt struct {
	val ssa.Value
	blk *ssa.BasicBlock // block the alternative's path comes from
	to  *ssa.BasicBlock // block of the φ that merges it (nil for a plain value)
}

// phiAlternatives flattens a value merged by φ-nodes (not loop-carried) into its alternatives, each with the
// block its path comes from; a plain value is its own single alternative in blk.
func phiAlternatives(v ssa.Value, blk *ssa.BasicBlock, depth int) []valAlt {
	w := v
	for {
		if cv, ok := w.(*ssa.Convert); ok {
			w = cv.X
			continue
		}
		if ct, ok := w.(*ssa.ChangeType); ok {
			w = ct.X
			continue
		}
		break
	}
	ph, ok := w.(*ssa.Phi)
	if !ok || depth > 3 {
		return []valAlt{{v, blk, nil}}
	}
	for _, e := range ph.Edges {
		if e == ssa.Value(ph) {
			return []valAlt{{v, blk, nil}}
		}
	}
	for i, p := range ph.Block().Preds {
		if ph.Block().Dominates(p) && ph.Block() != p {
			_ = i
			return []valAlt{{v, blk, nil}} // loop header
		}
	}
	var out []valAlt
	for i, e := range ph.Edges {
		for _, a := range phiAlternatives(e, ph.Block().Preds[i], depth+1) {
			if a.to == nil {
				a.to = ph.Block()
			}
			out = append(out, a)
		}
	}
	return out
}

// protectIntactOnFailureRule: the message keeps its payloads until the steps of encryptMsg that can fail for
// reasons outside the message (an inner payload that does not encode, the random source behind IV and padding)
// have succeeded. Otherwise a failed protect leaves the caller's message without payloads, and protecting it
// again yields a valid SK message that carries nothing - the peer does not recover the original payloads.
func (c *Ctx) protectIntactOnFailureRule(r *Report, rule string, a *ikeAnchors) {
	r.Rule(rule, "encryptMsg changes the message's payload list (Reset, BuildEncrypted, a store to Payloads) only on the nil-error edges of Payloads.Encode() and encryptPayload(): a protect that fails there leaves the message as it was", 2)
	em := a.encryptMsg
	contEncode := c.Method("message", "IKEPayloadContainer", "Encode")
	if em == nil || contEncode == nil || a.encryptPayload == nil {
		r.undecided(rule, "anchors", "-", "encryptMsg / container Encode / encryptPayload do not resolve")
		return
	}
	ces, eps := c.callsTo(em, contEncode), c.callsTo(em, a.encryptPayload)
	if len(ces) != 1 || len(eps) != 1 {
		r.bad(rule, "ike.encryptMsg: one Payloads.Encode and one encryptPayload", c.Pos(em.Pos()), fmt.Sprintf("found %d / %d", len(ces), len(eps)))
		return
	}
	ce, ep := ces[0], eps[0]
	n := 0
	for _, b := range em.Blocks {
		for _, ins := range b.Instrs {
			what := ""
			switch x := ins.(type) {
			case *ssa.Call:
				g := x.Call.StaticCallee()
				if g == nil || g.Signature.Recv() == nil || len(x.Call.Args) == 0 {
					continue
				}
				fa, ok := x.Call.Args[0].(*ssa.FieldAddr)
				if !ok || paramIndex(em, fa.X) != 0 || !strings.HasSuffix(FieldKey(fa.X.Type(), fa.Field), "IKEMessage.Payloads") {
					continue
				}
				// a method on &ikeMsg.Payloads that writes the container
				if len(c.DirectEffects(g).sorted()) == 0 && !strings.HasPrefix(g.Name(), "Build") && g.Name() != "Reset" {
					continue
				}
				if g == contEncode {
					continue
				}
				what = "call of " + g.Name() + " on ikeMsg.Payloads"
			case *ssa.Store:
				fa, ok := x.Addr.(*ssa.FieldAddr)
				if !ok || paramIndex(em, fa.X) != 0 || !strings.HasSuffix(FieldKey(fa.X.Type(), fa.Field), "IKEMessage.Payloads") {
					continue
				}
				what = "store to ikeMsg.Payloads"
			default:
				continue
			}
			n++
			ok := onNilErrEdge(errResult(ce), b) && onNilErrEdge(errResult(ep), b)
			r.Check(ok, rule, "ike.encryptMsg: "+what, c.InstrPos(ins), "on the nil-error edges of Payloads.Encode() and encryptPayload()", "the payload list is changed before encoding / encryption has succeeded: when one of them fails the caller's message has lost its payloads")
		}
	}
	if n == 0 {
		r.undecided(rule, "ike.encryptMsg: writers of the payload list", c.Pos(em.Pos()), "no Reset / BuildEncrypted / store found")
	}
}
