package lint

import (
	"fmt"
	"go/token"
	"go/types"
	"strings"

	"ikeverif/checker/xt/ssa"
)

// decodeRoots resolves the decode entry points of C04 (anchors). Missing anchors are reported.
func (c *Ctx) decodeRoots(r *Report, prefix string) []*ssa.Function {
	var roots []*ssa.Function
	add := func(desc string, fn *ssa.Function) {
		if fn == nil {
			r.undecided(prefix+"anchor", desc, "-", "anchor "+desc+" does not resolve in the current tree")
			return
		}
		roots = append(roots, fn)
	}
	add("ike.DecodeDecrypt", c.Func("", "DecodeDecrypt"))
	add("message.(*IKEMessage).Decode", c.Method("message", "IKEMessage", "Decode"))
	add("message.(*IKEMessage).DecodePayload", c.Method("message", "IKEMessage", "DecodePayload"))
	add("message.ParseHeader", c.Func("message", "ParseHeader"))
	add("message.(*IKEPayloadContainer).Decode", c.Method("message", "IKEPayloadContainer", "Decode"))
	add("eap.(*EAP).Unmarshal", c.Method("eap", "EAP", "Unmarshal"))
	// every implementer of IKEPayload / EapTypeData / IKECrypto
	for _, spec := range []struct{ rel, iface, method string }{
		{"message", "IKEPayload", "Unmarshal"},
		{"eap", "EapTypeData", "Unmarshal"},
		{"security/IKECrypto", "IKECrypto", "Decrypt"},
	} {
		nt := c.NamedType(spec.rel, spec.iface)
		if nt == nil {
			r.undecided(prefix+"anchor", spec.rel+"."+spec.iface, "-", "interface anchor does not resolve")
			continue
		}
		iface := nt.Underlying().(*types.Interface)
		for _, T := range c.Implementers(iface) {
			ms := c.Prog.MethodSets.MethodSet(T)
			for i := 0; i < ms.Len(); i++ {
				if ms.At(i).Obj().Name() == spec.method {
					add(typeKey(T)+"."+spec.method, c.unwrap(c.Prog.MethodValue(ms.At(i))))
				}
			}
		}
	}
	return roots
}

// DecodeScope = module functions reachable from the decode entry points.
func (c *Ctx) DecodeScope(r *Report, prefix string) []*ssa.Function {
	return c.Reachable(c.decodeRoots(r, prefix)...)
}

// setupDecodeFA injects the entry contracts and lemma facts of DESIGN 3.3 into a function analysis.
func (c *Ctx) setupDecodeFA(r *Report, prefix string) func(f *FA) {
	return func(f *FA) {
		switch {
		case f.Fn == c.Func("", "DecodeDecrypt"):
			c.contractDecodeDecrypt(r, prefix, f)
		case f.Fn == c.Func("", "calculateIntegrity"):
			c.lemmaChecksumLen(r, prefix, f)
		}
	}
}

// Entry contract: if ikeHeader != nil then len(msg) >= IKE_HEADER_LEN (the header was parsed from
// the same bytes). Implemented as a fact on the non-nil edge of the `ikeHeader == nil` test.
func (c *Ctx) contractDecodeDecrypt(r *Report, prefix string, f *FA) {
	fn := f.Fn
	if len(fn.Params) < 2 {
		return
	}
	msg, hdr := fn.Params[0], fn.Params[1]
	hl := int64(28)
	if k := c.constInt("message", "IKE_HEADER_LEN"); k != nil {
		hl = *k
	}
	n := 0
	for _, b := range fn.Blocks {
		iff, ok := b.Instrs[len(b.Instrs)-1].(*ssa.If)
		if !ok {
			continue
		}
		cond, ok := iff.Cond.(*ssa.BinOp)
		if !ok || (cond.Op != token.EQL && cond.Op != token.NEQ) {
			continue
		}
		if !((cond.X == ssa.Value(hdr) && isNilConst(cond.Y)) || (cond.Y == ssa.Value(hdr) && isNilConst(cond.X))) {
			continue
		}
		nonNil := b.Succs[1]
		if cond.Op == token.NEQ {
			nonNil = b.Succs[0]
		}
		if len(nonNil.Preds) == 1 {
			f.Inject(nonNil, Fact{L: f.SliceLen(msg).add(konst(hl), -1)})
			n++
		}
	}
	r.Assumptions = append(r.Assumptions, fmt.Sprintf("entry contract of ike.DecodeDecrypt: a non-nil ikeHeader was parsed from the same datagram, hence len(msg) >= %d on that arm (injected on %d edge(s))", hl, n))
}

func (c *Ctx) constInt(rel, name string) *int64 {
	p := c.Pkg(rel)
	if p == nil {
		return nil
	}
	m, ok := p.Members[name].(*ssa.NamedConst)
	if !ok {
		return nil
	}
	if v, ok := constInt64(m.Value.Value); ok {
		return &v
	}
	return nil
}

// Lemma L2 (registry invariant): in calculateIntegrity the checksum slice
// Sum(nil)[:IntegInfo.GetOutputLength()] is in bounds because, for every integrity descriptor T,
// every output length registered for T is <= the size of the hash T.Init constructs, and the
// SA's Integ_i/Integ_r objects are built by IntegInfo.Init of the same SA (who-may-write).
// Each side condition is an obligation; if all hold the relational fact is injected.
func (c *Ctx) lemmaChecksumLen(r *Report, prefix string, f *FA) {
	rule := prefix + "lemma.checksum-length"
	r.Rule(rule, "L2: for every integrity descriptor, registered output length <= size of the hash its Init builds; SA hash objects come from IntegInfo.Init of the same SA", 3)
	fn := f.Fn
	okAll := true
	// (i) per descriptor pairing
	nt := c.NamedType("security/integ", "INTEGType")
	if nt == nil {
		r.undecided(rule, "anchor integ.INTEGType", "-", "anchor does not resolve")
		return
	}
	for _, T := range c.Implementers(nt.Underlying().(*types.Interface)) {
		getOut := c.methodOf(T, "GetOutputLength")
		initM := c.methodOf(T, "Init")
		key := typeKey(T)
		if getOut == nil || initM == nil {
			r.undecided(rule, key, "-", "methods GetOutputLength/Init not found")
			okAll = false
			continue
		}
		sf := c.summaryFA(getOut)
		hi := int64(-INF)
		for _, b := range getOut.Blocks {
			for _, ins := range b.Instrs {
				if ret, ok := ins.(*ssa.Return); ok && len(ret.Results) == 1 {
					_, h := sf.bounds(sf.LFOf(ret.Results[0]), nil)
					if h > hi {
						hi = h
					}
				}
			}
		}
		size := c.hashSizeBuiltBy(initM)
		pos := c.Pos(initM.Pos())
		if size < 0 {
			r.undecided(rule, key, pos, "cannot determine the hash constructed by Init")
			okAll = false
			continue
		}
		if hi <= size {
			r.ok(rule, key, pos, fmt.Sprintf("max registered output length %d <= hash size %d", hi, size), true)
		} else {
			r.bad(rule, key, pos, fmt.Sprintf("registered output length may be %d but Init builds a hash of %d octets: Sum(nil)[:outputLength] would be out of range", hi, size))
			okAll = false
		}
	}
	// (ii) who-may-write Integ_i / Integ_r: only stores of IntegInfo.Init(...) results of the same object
	sa := c.NamedType("security", "IKESAKey")
	if sa == nil {
		r.undecided(rule, "anchor security.IKESAKey", "-", "anchor does not resolve")
		return
	}
	st := sa.Underlying().(*types.Struct)
	for i := 0; i < st.NumFields(); i++ {
		name := st.Field(i).Name()
		if name != "Integ_i" && name != "Integ_r" {
			continue
		}
		k := FieldKey(sa, i)
		fs := c.fieldStoreTable()[k]
		good := fs != nil && len(fs.stores) > 0 && !c.addrOfFieldEscapes(k)
		detail := ""
		if fs != nil {
			for _, s := range fs.stores {
				call, ok := s.Val.(*ssa.Call)
				if !ok || !call.Call.IsInvoke() || call.Call.Method.Name() != "Init" {
					good = false
					detail = "a store at " + c.InstrPos(s) + " is not the result of IntegInfo.Init"
					continue
				}
				// receiver must be load of IntegInfo of the same base as the store
				u, ok := call.Call.Value.(*ssa.UnOp)
				if !ok {
					good = false
					continue
				}
				fa2, ok := u.X.(*ssa.FieldAddr)
				if !ok || st.Field(fa2.Field).Name() != "IntegInfo" || fa2.X != s.Addr.(*ssa.FieldAddr).X {
					good = false
					detail = "Init receiver at " + c.InstrPos(s) + " is not the same SA's IntegInfo"
				}
			}
		}
		if good {
			r.ok(rule, "who-may-write "+k, "-", fmt.Sprintf("%d store(s), each of IntegInfo.Init(...) of the same SA object", len(fs.stores)), true)
		} else {
			r.bad(rule, "who-may-write "+k, "-", "IKESAKey."+name+" may hold a hash not built by the SA's own IntegInfo: "+detail)
			okAll = false
		}
	}
	if !okAll {
		return
	}
	// inject: for each Sum(nil) on load(ikesaKey.Integ_x) and outputLen := load(ikesaKey.IntegInfo).GetOutputLength():
	// len(sum) - outputLen >= 0, at the Sum's block.
	var outLen *ssa.Call
	for _, b := range fn.Blocks {
		for _, ins := range b.Instrs {
			if call, ok := ins.(*ssa.Call); ok && call.Call.IsInvoke() && call.Call.Method.Name() == "GetOutputLength" {
				if c.isFieldLoadOfParam(call.Call.Value, fn, "IKESAKey", "IntegInfo") {
					outLen = call
				}
			}
		}
	}
	if outLen == nil {
		return
	}
	for _, b := range fn.Blocks {
		for _, ins := range b.Instrs {
			call, ok := ins.(*ssa.Call)
			if !ok || !call.Call.IsInvoke() || call.Call.Method.Name() != "Sum" {
				continue
			}
			if !(c.isFieldLoadOfParam(call.Call.Value, fn, "IKESAKey", "Integ_i") || c.isFieldLoadOfParam(call.Call.Value, fn, "IKESAKey", "Integ_r")) {
				continue
			}
			if !outLen.Block().Dominates(b) {
				continue
			}
			// len(Sum(p)) = len(p) + Size, Size >= outputLen by the lemma
			g := f.SliceLen(call).add(f.SliceLen(call.Call.Args[0]), -1).add(f.LFOf(outLen), -1)
			f.Inject(b, Fact{L: g})
		}
	}
}

func (c *Ctx) methodOf(T types.Type, name string) *ssa.Function {
	ms := c.Prog.MethodSets.MethodSet(T)
	for i := 0; i < ms.Len(); i++ {
		if ms.At(i).Obj().Name() == name {
			return c.unwrap(c.Prog.MethodValue(ms.At(i)))
		}
	}
	return nil
}

// hashSizeBuiltBy: the size of the hash whose constructor is referenced by fn (hmac.New(h, key)); -1 if unknown or mixed.
func (c *Ctx) hashSizeBuiltBy(fn *ssa.Function) int64 {
	size := int64(-1)
	for _, b := range fn.Blocks {
		for _, ins := range b.Instrs {
			call, ok := ins.(*ssa.Call)
			if !ok {
				continue
			}
			cal := call.Call.StaticCallee()
			if cal == nil || cal.String() != "crypto/hmac.New" {
				continue
			}
			g, ok := call.Call.Args[0].(*ssa.Function)
			if !ok {
				return -1
			}
			s, ok := hashSizes[g.String()]
			if !ok {
				return -1
			}
			if size >= 0 && size != s {
				return -1
			}
			size = s
		}
	}
	return size
}

// isFieldLoadOfParam: v is *(&p.Field) where p is a parameter of fn of type *Struct.
func (c *Ctx) isFieldLoadOfParam(v ssa.Value, fn *ssa.Function, structName, field string) bool {
	u, ok := v.(*ssa.UnOp)
	if !ok || u.Op != token.MUL {
		return false
	}
	fa, ok := u.X.(*ssa.FieldAddr)
	if !ok {
		return false
	}
	if _, isParam := fa.X.(*ssa.Parameter); !isParam {
		return false
	}
	pt, ok := fa.X.Type().Underlying().(*types.Pointer)
	if !ok {
		return false
	}
	nt, ok := pt.Elem().(*types.Named)
	if !ok || nt.Obj().Name() != structName {
		return false
	}
	st := nt.Underlying().(*types.Struct)
	return st.Field(fa.Field).Name() == field
}

// Lemma L1: encryptedPayload in decryptMsg is non-nil after the loop.
// Side conditions, all checked here:
//
//	(a) the only caller reaches the call on an edge where len(Payloads) > 0 and Payloads[0].Type() == TypeSK
//	    and passes that same message object;
//	(b) every non-nil value flowing into the φ is a successful type assertion;
//	(c) inside the loop, every path that does not assign returns.
//
// With (a) the loop body runs at least once; with (c) every completed iteration assigned; with (b)
// the assigned value is non-nil.
func (c *Ctx) lemmaEncryptedPayload(r *Report, prefix string) func(f *FA, v ssa.Value) (bool, string) {
	rule := prefix + "lemma.sk-payload-nonnil"
	decided := map[ssa.Value]bool{}
	result := map[ssa.Value]bool{}
	return func(f *FA, v ssa.Value) (bool, string) {
		if f.Fn != c.Func("", "decryptMsg") {
			return false, ""
		}
		phi, ok := v.(*ssa.Phi)
		if !ok {
			return false, ""
		}
		if decided[v] {
			return result[v], "lemma L1 (see " + rule + ")"
		}
		decided[v] = true
		r.Rule(rule, "L1: the Encrypted payload pointer is non-nil after decryptMsg's scan loop (caller guarantees a non-empty list starting with SK; every iteration assigns or returns)", 3)
		okAll := true
		// (b) edges: nil const or TypeAssert (non-commaok) or the φ-web itself
		web := map[*ssa.Phi]bool{}
		var collect func(p *ssa.Phi)
		var asserts []*ssa.TypeAssert
		collect = func(p *ssa.Phi) {
			if web[p] {
				return
			}
			web[p] = true
			for _, e := range p.Edges {
				switch x := e.(type) {
				case *ssa.Phi:
					collect(x)
				case *ssa.Const:
				case *ssa.TypeAssert:
					asserts = append(asserts, x)
				default:
					okAll = false
				}
			}
		}
		collect(phi)
		r.Check(okAll && len(asserts) > 0, rule, "(b) assigned values are type assertions", c.InstrPos(phi), fmt.Sprintf("%d assignment(s), each a single-result type assertion (non-nil on success)", len(asserts)), "a value other than nil or a type assertion flows into the pointer")
		// (c) loop structure: find the loop containing the assertion; its header φ has init nil; every back edge carries the assertion result
		condC := false
		for _, li := range naturalLoops(f.Fn) {
			for _, ins := range li.header.Instrs {
				p, ok := ins.(*ssa.Phi)
				if !ok || !web[p] {
					continue
				}
				all := true
				for i, pr := range li.header.Preds {
					isBack := false
					for _, bk := range li.backs {
						if bk == pr {
							isBack = true
						}
					}
					if !isBack {
						continue
					}
					if _, ok := p.Edges[i].(*ssa.TypeAssert); !ok {
						// allow φ of asserts only
						if pp, ok := p.Edges[i].(*ssa.Phi); ok && web[pp] {
							for _, e2 := range pp.Edges {
								if _, ok := e2.(*ssa.TypeAssert); !ok {
									all = false
								}
							}
						} else {
							all = false
						}
					}
				}
				if all {
					condC = true
				}
			}
		}
		okAll = r.Check(condC, rule, "(c) every completed iteration assigns", c.InstrPos(phi), "every back edge of the scan loop carries an assertion result; other paths leave the function", "some iteration can complete without assigning the Encrypted payload") && okAll
		// (a) caller
		callers := c.CallersOf(f.Fn)
		condA := len(callers) == 1
		detail := fmt.Sprintf("%d caller(s)", len(callers))
		if condA {
			site := callers[0]
			condA = c.callDominatedBySKTest(site)
			detail = "call at " + c.InstrPos(site) + " in " + c.FuncName(site.Parent())
		}
		okAll = r.Check(condA, rule, "(a) caller guarantees a non-empty list whose first payload is SK", "-", detail+": dominated by len(Payloads) > 0 and Payloads[0].Type() == TypeSK on the object it passes", detail+": the call is not dominated by the SK test on the passed message") && okAll
		result[v] = okAll
		return okAll, "lemma L1 (see " + rule + ")"
	}
}

// callDominatedBySKTest: the call's block is dominated by true edges of `len(x.Payloads) > 0` and
// `x.Payloads[0].Type() == TypeSK`, where x is the message argument of the call.
func (c *Ctx) callDominatedBySKTest(site ssa.CallInstruction) bool {
	args := site.Common().Args
	if len(args) < 2 {
		return false
	}
	msgArg := args[1]
	f := c.NewFA(site.Parent())
	lenOK, typeOK := false, false
	skConst := c.constInt("message", "TypeSK")
	for b := site.Block(); b != nil; b = b.Idom() {
		if len(b.Preds) != 1 {
			continue
		}
		p := b.Preds[0]
		cond, ok := edgeComparison(p, b)
		if !ok {
			continue
		}
		switch cond.Op {
		case token.GTR, token.NEQ:
			// len(load(msg.Payloads)) > 0 (or != 0) holds on this edge
			if call, ok := cond.X.(*ssa.Call); ok {
				if bi, ok := call.Call.Value.(*ssa.Builtin); ok && bi.Name() == "len" {
					if c.isPayloadsLoadOf(call.Call.Args[0], msgArg) {
						if k, ok := cond.Y.(*ssa.Const); ok {
							if v, ok := constInt64(k.Value); ok && v >= 0 {
								lenOK = true
							}
						}
					}
				}
			}
		case token.EQL:
			call, k := cond.X, cond.Y
			if _, isC := call.(*ssa.Const); isC {
				call, k = k, call
			}
			kc, ok := k.(*ssa.Const)
			cl, ok2 := call.(*ssa.Call)
			if !ok || !ok2 || !cl.Call.IsInvoke() || cl.Call.Method.Name() != "Type" {
				continue
			}
			if v, ok := constInt64(kc.Value); !ok || skConst == nil || v != *skConst {
				continue
			}
			// receiver: load of IndexAddr(load(msg.Payloads), 0)
			u, ok := cl.Call.Value.(*ssa.UnOp)
			if !ok {
				continue
			}
			ia, ok := u.X.(*ssa.IndexAddr)
			if !ok {
				continue
			}
			if idx := f.LFOf(ia.Index); !idx.isConst() || idx.C != 0 {
				continue
			}
			if c.isPayloadsLoadOf(ia.X, msgArg) {
				typeOK = true
			}
		}
	}
	return lenOK && typeOK
}

func (c *Ctx) isPayloadsLoadOf(v, msg ssa.Value) bool {
	u, ok := v.(*ssa.UnOp)
	if !ok || u.Op != token.MUL {
		return false
	}
	fa, ok := u.X.(*ssa.FieldAddr)
	if !ok {
		return false
	}
	if fa.X != msg {
		// allow msg to be a φ/alias? keep exact
		return false
	}
	pt, ok := fa.X.Type().Underlying().(*types.Pointer)
	if !ok {
		return false
	}
	st, ok := pt.Elem().Underlying().(*types.Struct)
	return ok && st.Field(fa.Field).Name() == "Payloads"
}

// RunC04 decides property C04.
func RunC04(c *Ctx, r *Report) {
	r.Explanation = "E2 panic/over-read/termination prover over every function reachable from the decode entry points: each index, slice (against len, not cap), make, type assertion, division, map update, nil-merging pointer dereference, external-callee precondition and loop is one obligation, discharged by wrap-aware linear arithmetic over dominating guards (sound, incomplete; unproved = violated)."
	r.TrustedBase = append(r.TrustedBase,
		"go/types and go/ssa of golang.org/x/tools v0.29.0",
		"the linear-form / interval engine and variant templates of this checker",
		"frozen external-callee contract table (encoding/binary, crypto/cipher, hash.Hash, bufio, io, errors)",
		"type-based alias classes (no unsafe/reflect in the module, checked by C18)",
	)
	r.Assumptions = append(r.Assumptions,
		"receivers and pointer parameters of exported entry points are non-nil; IKESAKey objects are nil or fully populated by GenerateKeyForIKESA",
		"int is 64 bits wide: the module does not compile for 32-bit targets (message/header.go compares an int with 0xFFFFFFFF), so no 32-bit build exists",
		"standard-library callees do not panic when their documented preconditions hold",
	)
	r.NotDecided = append(r.NotDecided,
		"nil receivers / half-populated IKESAKey objects supplied by a caller",
		"resource exhaustion other than the bound on allocation sizes",
		"behaviour inside the standard library",
	)
	prefix := "C04."
	r.Rule(prefix+"anchor", "every decode entry point named by the property resolves", 0)
	scope := c.DecodeScope(r, prefix)
	e := &E2{C: c, R: r, Prefix: prefix, Strict: true}
	e.Setup = c.setupDecodeFA(r, prefix)
	e.NonNil = c.lemmaEncryptedPayload(r, prefix)
	e.Run(scope)
	// floors confirmed by hand on the pinned tree
	r.Floors[prefix+"bounds.index"] = 40
	r.Floors[prefix+"bounds.slice"] = 100
	r.Floors[prefix+"ext.pre"] = 30
	r.Floors[prefix+"term.loop"] = 9
	r.Floors[prefix+"assert.type"] = 0
	r.Floors[prefix+"nil.map"] = 1
	r.Floors[prefix+"bounds.make"] = 8
	c.wrapOfNilRule(r, prefix+"error.wrap-of-nil", scope, 10)
	c.formatRecursionRule(r, prefix+"term.format-recursion")
	c.dispatchAllocEmptyRule(r, prefix+"decode.dispatch-allocates-empty")
	if len(scope) < 30 {
		r.undecided(prefix+"anchor", "scope size", "-", fmt.Sprintf("only %d functions reached from the decode entry points (floor 30)", len(scope)))
	} else {
		r.ok(prefix+"anchor", "scope size", "-", fmt.Sprintf("%d functions reached from the decode entry points", len(scope)), true)
	}
	var dead []string
	for _, fn := range scope {
		f := e.FA(fn)
		dead = append(dead, f.DeadWhy...)
	}
	seen := map[string]bool{}
	for _, d := range dead {
		if !seen[d] {
			seen[d] = true
			r.Assumptions = append(r.Assumptions, "closed world: "+d+" (the arm for a caller-supplied value is excluded from the obligations)")
		}
	}
	r.Extra["loops_in_scope"] = e.loops
	r.Extra["goarch"] = strings.TrimSpace(c.GOARCH + " ")
}

// edgeComparison: the comparison that holds on the edge p -> b of an If (the condition itself on the true
// edge, its negation on the false edge), as a BinOp value that is not part of the program.
func edgeComparison(p, b *ssa.BasicBlock) (*ssa.BinOp, bool) {
	iff, ok := p.Instrs[len(p.Instrs)-1].(*ssa.If)
	if !ok || len(p.Succs) != 2 || p.Succs[0] == p.Succs[1] {
		return nil, false
	}
	cond, ok := iff.Cond.(*ssa.BinOp)
	if !ok {
		return nil, false
	}
	if p.Succs[0] == b {
		return cond, true
	}
	neg := map[token.Token]token.Token{token.EQL: token.NEQ, token.NEQ: token.EQL, token.LSS: token.GEQ, token.GEQ: token.LSS, token.GTR: token.LEQ, token.LEQ: token.GTR}
	op, ok := neg[cond.Op]
	if !ok {
		return nil, false
	}
	n := *cond
	n.Op = op
	return &n, true
}
