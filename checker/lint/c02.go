package lint

import (
	"fmt"
	"go/token"
	"go/types"
	"strings"

	"ikeverif/checker/xt/ssa"
)

type ikeAnchors struct {
	EncodeEncrypt, DecodeDecrypt, verifyIntegrity, calculateIntegrity *ssa.Function
	encryptPayload, decryptPayload, decryptMsg, encryptMsg            *ssa.Function
}

func (c *Ctx) ikeFuncs(r *Report, prefix string) (*ikeAnchors, bool) {
	a := &ikeAnchors{}
	ok := true
	get := func(name string) *ssa.Function {
		fn := c.Func("", name)
		if fn == nil {
			r.undecided(prefix+"anchor", "ike."+name, "-", "anchor does not resolve")
			ok = false
		}
		return fn
	}
	a.EncodeEncrypt = get("EncodeEncrypt")
	a.DecodeDecrypt = get("DecodeDecrypt")
	a.verifyIntegrity = get("verifyIntegrity")
	a.calculateIntegrity = get("calculateIntegrity")
	a.encryptPayload = get("encryptPayload")
	a.decryptPayload = get("decryptPayload")
	a.decryptMsg = get("decryptMsg")
	a.encryptMsg = get("encryptMsg")
	return a, ok
}

// outputLenCall finds `ikesaKey.IntegInfo.GetOutputLength()` in fn (receiver: IntegInfo of an IKESAKey parameter).
func (c *Ctx) outputLenCall(fn *ssa.Function) *ssa.Call {
	for _, b := range fn.Blocks {
		for _, ins := range b.Instrs {
			if call, ok := ins.(*ssa.Call); ok && call.Call.IsInvoke() && call.Call.Method.Name() == "GetOutputLength" {
				if c.isFieldLoadOfParam(call.Call.Value, fn, "IKESAKey", "IntegInfo") {
					return call
				}
			}
		}
	}
	return nil
}

// keyDirectionRules: C01 rule 1 / C02 rule 5 / C06 rule 5.
func (c *Ctx) keyDirectionRules(r *Report, prefix string, a *ikeAnchors) {
	rule := prefix + "key-direction"
	r.Rule(rule, "RFC 7296 2.14: a sender of role r protects with the *_r-direction keys of its own role (initiator: Encr_i/Integ_i, responder: Encr_r/Integ_r); a receiver of role r verifies and decrypts with the keys of the opposite role", 9)
	want := []struct {
		fn        *ssa.Function
		name      string
		init, rsp string
	}{
		{a.encryptPayload, "ike.encryptPayload", "Encr_i", "Encr_r"},
		{a.decryptPayload, "ike.decryptPayload", "Encr_r", "Encr_i"},
		{a.calculateIntegrity, "ike.calculateIntegrity", "Integ_i", "Integ_r"},
	}
	for _, w := range want {
		t := c.roleFieldTable(w.fn)
		got := fmt.Sprintf("Initiator arm uses %v, Responder arm uses %v, outside arms %v", t.Initiator, t.Responder, t.Both)
		ok := t.found && len(t.Initiator) == 1 && t.Initiator[0] == w.init && len(t.Responder) == 1 && t.Responder[0] == w.rsp
		// no SA key object may be used outside the arms
		for _, b := range t.Both {
			if strings.HasPrefix(b, "Encr_") || strings.HasPrefix(b, "Integ_") || strings.HasPrefix(b, "SK_") {
				ok = false
			}
		}
		r.Check(ok, rule, w.name, c.Pos(w.fn.Pos()), got, fmt.Sprintf("expected Initiator -> %s, Responder -> %s; found: %s", w.init, w.rsp, got))
	}
	// role arguments along the call chains
	chain := []struct {
		caller, callee *ssa.Function
		want           string
	}{
		{a.EncodeEncrypt, a.encryptMsg, "same"},
		{a.encryptMsg, a.encryptPayload, "same"},
		{a.encryptMsg, a.calculateIntegrity, "same"},
		{a.DecodeDecrypt, a.decryptMsg, "same"},
		{a.decryptMsg, a.decryptPayload, "same"},
		{a.decryptMsg, a.verifyIntegrity, "negated"},
		{a.verifyIntegrity, a.calculateIntegrity, "same"},
	}
	for _, ch := range chain {
		calls := c.callsTo(ch.caller, ch.callee)
		key := c.FuncName(ch.caller) + " -> " + c.FuncName(ch.callee)
		if len(calls) == 0 {
			r.undecided(rule, key, c.Pos(ch.caller.Pos()), "expected call not found")
			continue
		}
		for _, call := range calls {
			arg := roleArgOfCall(call, ch.callee)
			got := "other"
			if arg != nil {
				got = roleArg(ch.caller, arg)
			}
			r.Check(got == ch.want, rule, key, c.InstrPos(call), "role argument is the caller's role, "+got, "role argument is '"+got+"' but must be '"+ch.want+"' (the receiver checks the MAC with the peer's key and decrypts with the peer's key)")
		}
	}
}

// RunC02 decides property C02.
func RunC02(c *Ctx, r *Report) {
	prefix := "C02."
	r.Explanation = "Structural necessary (and, given HMAC, sufficient) conditions for rejecting modified SK messages: verify-before-decrypt by dominance on the nil-error edge, who-may-call for the cipher, a full-length comparison of exactly L received and L computed octets, the MAC input being the whole datagram minus its last L octets, the peer's keys, error discipline on every failing step, and absence of run-time panics in the unprotect path (E2 prover)."
	r.TrustedBase = append(r.TrustedBase, "go/types and go/ssa (x/tools v0.29.0)", "the E2 prover (see C04)", "crypto/hmac.Equal compares all octets of equal-length inputs and reports false for different lengths")
	r.Assumptions = append(r.Assumptions, "HMAC is a secure MAC (acceptance of a modified message only with collision probability)", "IKESAKey objects are nil or fully populated by GenerateKeyForIKESA")
	r.NotDecided = append(r.NotDecided, "the cryptographic strength of HMAC; that every bit flip changes the checksum (value-level)", "behaviour for a caller-supplied header that does not belong to the datagram")
	r.Rule(prefix+"anchor", "every function named by the rules resolves", 0)
	a, ok := c.ikeFuncs(r, prefix)
	if !ok {
		return
	}
	for _, fn := range []*ssa.Function{a.DecodeDecrypt, a.decryptMsg, a.verifyIntegrity, a.calculateIntegrity, a.decryptPayload} {
		r.Func(c.FuncName(fn))
	}
	c.unprotectGateRule(r, prefix+"unprotect-gate", a)
	// the checksum compared has the negotiated transform's length: the descriptor a received transform resolves to
	// is the registered one with the RFC's output length (a descriptor with output length 0 verifies nothing)
	c.registryRules(r, prefix+"registry.", "security/integ")
	isDecryptInvoke := func(call *ssa.Call) bool {
		if !call.Call.IsInvoke() || call.Call.Method.Name() != "Decrypt" {
			return false
		}
		nt, ok := call.Call.Value.Type().(*types.Named)
		return ok && nt.Obj().Name() == "IKECrypto"
	}

	// rule 1: verify before decrypt
	rule1 := prefix + "verify-before-decrypt"
	r.Rule(rule1, "in decryptMsg every call that can reach IKECrypto.Decrypt is dominated by the nil-error edge of verifyIntegrity", 1)
	vcalls := c.callsTo(a.decryptMsg, a.verifyIntegrity)
	if len(vcalls) != 1 {
		r.bad(rule1, "ike.decryptMsg: verifyIntegrity call", c.Pos(a.decryptMsg.Pos()), fmt.Sprintf("expected exactly one call to verifyIntegrity, found %d", len(vcalls)))
	} else {
		verr := errResult(vcalls[0])
		n := 0
		for _, b := range a.decryptMsg.Blocks {
			for _, ins := range b.Instrs {
				call, ok := ins.(*ssa.Call)
				if !ok {
					continue
				}
				reachesDecrypt := isDecryptInvoke(call)
				for _, m := range c.CalleesAt(call).Mod {
					if c.reachesCall(m, isDecryptInvoke) {
						reachesDecrypt = true
					}
				}
				if !reachesDecrypt {
					continue
				}
				n++
				r.Check(onNilErrEdge(verr, b), rule1, "ike.decryptMsg: "+c.SrcExpr(call), c.InstrPos(call), "dominated by the nil-error edge of "+c.SrcExpr(vcalls[0]), "ciphertext can reach the cipher on a path where the checksum was not (successfully) verified")
			}
		}
		if n == 0 {
			r.undecided(rule1, "ike.decryptMsg: decrypt call", c.Pos(a.decryptMsg.Pos()), "no call reaching IKECrypto.Decrypt found in decryptMsg")
		}
	}

	// rule 2: who may call
	rule2 := prefix + "who-may-call"
	r.Rule(rule2, "IKECrypto.Decrypt is invoked only from decryptPayload, decryptPayload only from decryptMsg, decryptMsg only from DecodeDecrypt", 3)
	var decryptInvokers []string
	for _, fn := range c.ModFuncs {
		for _, b := range fn.Blocks {
			for _, ins := range b.Instrs {
				if call, ok := ins.(*ssa.Call); ok && isDecryptInvoke(call) && fn != a.decryptPayload {
					decryptInvokers = append(decryptInvokers, c.FuncName(fn)+" at "+c.InstrPos(call))
				}
			}
		}
	}
	r.Check(len(decryptInvokers) == 0, rule2, "IKECrypto.Decrypt invoked only by ike.decryptPayload", "-", fmt.Sprintf("%d invoke site(s), all in decryptPayload", len(c.invokesOf(a.decryptPayload, "IKECrypto", "Decrypt"))), "also invoked from "+strings.Join(decryptInvokers, ", "))
	onlyCaller := func(callee, caller *ssa.Function) {
		var others []string
		for _, site := range c.CallersOf(callee) {
			if site.Parent() != caller {
				others = append(others, c.FuncName(site.Parent())+" at "+c.InstrPos(site))
			}
		}
		if c.cg().addrTaken[callee] {
			others = append(others, "its address is taken")
		}
		r.Check(len(others) == 0, rule2, c.FuncName(callee)+" called only by "+c.FuncName(caller), c.Pos(callee.Pos()), fmt.Sprintf("%d call site(s)", len(c.CallersOf(callee))), "also called from "+strings.Join(others, ", "))
	}
	onlyCaller(a.decryptPayload, a.decryptMsg)
	onlyCaller(a.decryptMsg, a.DecodeDecrypt)

	// rule 3: full-strength compare
	c.fullCompareRules(r, prefix, a)
	// rule 4: MAC span
	c.macSpanRules(r, prefix, a, true)
	// the objects that verify are keyed with the SA's current keys: every derivation rebuilds them (an object
	// kept from an earlier derivation would go on accepting messages protected under the earlier keys)
	c.objectKeyBindingRules(r, prefix)
	// rule 5: key direction
	c.keyDirectionRules(r, prefix, a)

	// rule 6: no crash in the unprotect path
	var scope []*ssa.Function
	scope = append(scope, a.DecodeDecrypt, a.decryptMsg, a.verifyIntegrity, a.calculateIntegrity, a.decryptPayload)
	if nt := c.NamedType("security/IKECrypto", "IKECrypto"); nt != nil {
		for _, T := range c.Implementers(nt.Underlying().(*types.Interface)) {
			if m := c.methodOf(T, "Decrypt"); m != nil {
				scope = append(scope, m)
			}
		}
	}
	// before the checksum is verified the datagram has already been through ParseHeader and the walker of the
	// outer payload chain, which dispatches to whatever payload decoder the (unauthenticated) type octets
	// name: every decoder reachable from DecodeDecrypt is part of "a tampered or truncated message is
	// refused" (refused = an error, not a crash)
	inScope := map[*ssa.Function]bool{}
	for _, fn := range scope {
		inScope[fn] = true
	}
	for _, fn := range c.Reachable(a.DecodeDecrypt) {
		if !inScope[fn] {
			inScope[fn] = true
			scope = append(scope, fn)
		}
	}
	e := &E2{C: c, R: r, Prefix: prefix + "nocrash.", Strict: true}
	e.Setup = c.setupDecodeFA(r, prefix+"nocrash.")
	e.NonNil = c.lemmaEncryptedPayload(r, prefix+"nocrash.")
	e.Run(scope)
	r.Floors[prefix+"nocrash.bounds.slice"] = 10

	c.truncatedToHeaderRule(r, prefix+"truncated-to-header", a.DecodeDecrypt)
	c.wrapOfNilRule(r, prefix+"error.wrap-of-nil", scope, 10)
	c.formatRecursionRule(r, prefix+"nocrash.term.format-recursion")

	// rule 7: errors are errors
	rule7 := prefix + "errors-are-errors"
	r.Rule(rule7, "every failing step of unprotection (header/payload decode, integrity check, decryption, inner decode) turns into a non-nil error returned with a nil message", 8)
	checkCalls := func(fn *ssa.Function, pred func(*ssa.Call) bool) {
		for _, b := range fn.Blocks {
			for _, ins := range b.Instrs {
				call, ok := ins.(*ssa.Call)
				if !ok || !pred(call) {
					continue
				}
				if errResult(call) == nil {
					continue
				}
				ok2, why := c.errorChecked(call)
				r.Check(ok2, rule7, c.FuncName(fn)+": "+c.SrcExpr(call), c.InstrPos(call), why, why)
			}
		}
	}
	modCallee := func(call *ssa.Call) bool { return len(c.CalleesAt(call).Mod) > 0 }
	checkCalls(a.DecodeDecrypt, modCallee)
	checkCalls(a.decryptMsg, modCallee)
	checkCalls(a.verifyIntegrity, modCallee)
	checkCalls(a.decryptPayload, func(call *ssa.Call) bool { return isDecryptInvoke(call) })

	// rule 8: the SK test looks at Payloads[0] only; the other edge returns the plainly decoded message
	rule8 := prefix + "sk-test"
	r.Rule(rule8, "DecodeDecrypt applies the keys exactly when the first decoded payload is SK; otherwise it returns the plainly decoded message", 2)
	dcalls := c.callsTo(a.DecodeDecrypt, a.decryptMsg)
	if len(dcalls) == 1 {
		r.Check(c.callDominatedBySKTest(dcalls[0]), rule8, "ike.DecodeDecrypt: decryptMsg call guarded by Payloads[0].Type() == TypeSK", c.InstrPos(dcalls[0]), "dominated by len(Payloads) > 0 and Payloads[0].Type() == TypeSK", "the call is not guarded by the SK test on the first payload")
	} else {
		r.bad(rule8, "ike.DecodeDecrypt: decryptMsg call", c.Pos(a.DecodeDecrypt.Pos()), fmt.Sprintf("expected one call, found %d", len(dcalls)))
	}
	// a success return of the decoded message exists that is not dominated by the decryptMsg call
	plain := false
	for _, b := range a.DecodeDecrypt.Blocks {
		ret, ok := b.Instrs[len(b.Instrs)-1].(*ssa.Return)
		if !ok || len(ret.Results) != 2 || !isNilConst(ret.Results[1]) {
			continue
		}
		if isNilConst(ret.Results[0]) {
			continue
		}
		if len(dcalls) == 1 && !dcalls[0].Block().Dominates(b) {
			plain = true
		}
	}
	r.Check(plain, rule8, "ike.DecodeDecrypt: plain fallback", c.Pos(a.DecodeDecrypt.Pos()), "a success return of the decoded message is reachable without passing decryptMsg", "no success return bypasses decryptMsg: unprotected datagrams would not be handled as plain messages")
}

// fullCompareRules: C02 rule 3.
func (c *Ctx) fullCompareRules(r *Report, prefix string, a *ikeAnchors) {
	rule := prefix + "full-compare"
	r.Rule(rule, "verifyIntegrity succeeds only on the equal-edge of a whole-slice comparison of the received checksum (the last L octets of the SK body) with the computed one (first L octets of the HMAC), L = the suite's output length", 5)
	vf := a.verifyIntegrity
	// the comparison
	var cmp *ssa.Call
	for _, b := range vf.Blocks {
		for _, ins := range b.Instrs {
			if call, ok := ins.(*ssa.Call); ok {
				if cal := call.Call.StaticCallee(); cal != nil {
					switch cal.String() {
					case "crypto/hmac.Equal", "bytes.Equal", "crypto/subtle.ConstantTimeCompare":
						cmp = call
					}
				}
			}
		}
	}
	if cmp == nil {
		r.bad(rule, "ike.verifyIntegrity: comparison", c.Pos(vf.Pos()), "no hmac.Equal / bytes.Equal / subtle.ConstantTimeCompare call found")
		return
	}
	// operands
	ccalls := c.callsTo(vf, a.calculateIntegrity)
	var expected ssa.Value
	var cerr ssa.Value
	if len(ccalls) == 1 {
		expected = resultN(ccalls[0], 0)
		cerr = errResult(ccalls[0])
	}
	x, y := cmp.Call.Args[0], cmp.Call.Args[1]
	isRecv := func(v ssa.Value) bool {
		return paramIndex(vf, v) >= 0 && isByteSlice(v.Type()) && v.Name() != vf.Params[0].Name()
	}
	okOps := expected != nil && ((isRecv(x) && y == expected) || (isRecv(y) && x == expected))
	r.Check(okOps, rule, "ike.verifyIntegrity: operands of "+c.SrcExpr(cmp), c.InstrPos(cmp), "operands are the unsliced checksum parameter and the unsliced result of calculateIntegrity", "an operand of the comparison is not the whole received checksum / whole computed checksum (a shorter slice would weaken the check)")
	r.Check(cerr != nil && onNilErrEdge(cerr, cmp.Block()), rule, "ike.verifyIntegrity: computed checksum is valid", c.InstrPos(cmp), "the comparison is on the nil-error edge of calculateIntegrity", "the comparison may use a checksum from a failed computation")
	// every `return nil` is on the equal edge
	eqBlocks := c.equalEdgeBlocks(cmp)
	nret := 0
	allOK := true
	for _, b := range vf.Blocks {
		ret, ok := b.Instrs[len(b.Instrs)-1].(*ssa.Return)
		if !ok || len(ret.Results) != 1 || !isNilConst(ret.Results[0]) {
			continue
		}
		nret++
		dom := false
		for _, eb := range eqBlocks {
			if eb.Dominates(b) {
				dom = true
			}
		}
		if !dom {
			allOK = false
		}
	}
	r.Check(nret > 0 && allOK, rule, "ike.verifyIntegrity: success only on the equal edge", c.Pos(vf.Pos()), fmt.Sprintf("%d nil return(s), each dominated by the equal edge of the comparison", nret), "verifyIntegrity can return nil without the comparison having reported equality")
	// received = last L octets of the SK body (decryptMsg)
	dm := a.decryptMsg
	f := c.NewFA(dm)
	f.CallRange = c.callRange
	L := c.outputLenCall(dm)
	vcalls := c.callsTo(dm, vf)
	if L == nil || len(vcalls) != 1 {
		r.undecided(rule, "ike.decryptMsg: received checksum", c.Pos(dm.Pos()), "cannot find GetOutputLength / verifyIntegrity in decryptMsg")
	} else {
		arg := vcalls[0].Call.Args[1]
		sl, isSlice := arg.(*ssa.Slice)
		okTail := false
		detail := "the checksum argument is not a tail slice of the Encrypted payload's data"
		if isSlice && sl.High == nil && sl.Low != nil {
			if _, fld, ok := fieldLoad(sl.X); ok && fld == "EncryptedData" {
				if f.SliceLen(arg).key() == f.LFOf(L).key() {
					okTail = true
					detail = "checksum = EncryptedData[len-L:], len = L = IntegInfo.GetOutputLength()"
				} else {
					detail = "length of the received checksum is " + f.Show(f.SliceLen(arg)) + ", not L = " + f.Show(f.LFOf(L))
				}
			}
		}
		r.Check(okTail, rule, "ike.decryptMsg: received checksum is the last L octets", c.InstrPos(vcalls[0]), detail, detail)
	}
	// computed = Sum(nil)[:L] (calculateIntegrity)
	ci := a.calculateIntegrity
	cf := c.NewFA(ci)
	L2 := c.outputLenCall(ci)
	okRet, nr := true, 0
	detail := ""
	for _, b := range ci.Blocks {
		ret, ok := b.Instrs[len(b.Instrs)-1].(*ssa.Return)
		if !ok || len(ret.Results) != 2 || !isNilConst(ret.Results[1]) {
			continue
		}
		nr++
		sl, isSlice := ret.Results[0].(*ssa.Slice)
		if !isSlice || sl.Low != nil || sl.High == nil || L2 == nil || cf.LFOf(sl.High).key() != cf.LFOf(L2).key() {
			okRet = false
			detail = "a success return is not calculated[:GetOutputLength()]"
			continue
		}
		// base: φ/value of Sum(nil) on Integ_i / Integ_r
		if !c.allSumNil(sl.X, map[ssa.Value]bool{}) {
			okRet = false
			detail = "the truncated value is not hash.Sum(nil) of the SA's integrity object"
		}
	}
	r.Check(nr > 0 && okRet, rule, "ike.calculateIntegrity: computed checksum is Sum(nil)[:L]", c.Pos(ci.Pos()), fmt.Sprintf("%d success return(s) of Sum(nil)[:IntegInfo.GetOutputLength()]", nr), detail)
}

// equalEdgeBlocks returns the successor blocks reached when cmp reported equality.
func (c *Ctx) equalEdgeBlocks(cmp *ssa.Call) []*ssa.BasicBlock {
	var out []*ssa.BasicBlock
	isInt := !isBoolType(cmp.Type())
	var visit func(v ssa.Value, negated bool)
	visit = func(v ssa.Value, negated bool) {
		for _, ref := range *v.Referrers() {
			switch x := ref.(type) {
			case *ssa.If:
				b := x.Block()
				s := b.Succs[0]
				if negated {
					s = b.Succs[1]
				}
				if len(s.Preds) == 1 {
					out = append(out, s)
				}
			case *ssa.UnOp:
				if x.Op == token.NOT {
					visit(x, !negated)
				}
			case *ssa.BinOp:
				if isInt {
					// ConstantTimeCompare(..) == 1
					k, ok := x.Y.(*ssa.Const)
					if !ok {
						k, ok = x.X.(*ssa.Const)
					}
					if ok {
						if v, ok := constInt64(k.Value); ok && v == 1 {
							if x.Op == token.EQL {
								visit(x, negated)
							} else if x.Op == token.NEQ {
								visit(x, !negated)
							}
						}
					}
				}
			}
		}
	}
	if isInt {
		// only comparisons with 1 count
		for _, ref := range *cmp.Referrers() {
			if bo, ok := ref.(*ssa.BinOp); ok {
				_ = bo
			}
		}
	}
	visit(cmp, false)
	return out
}

func isBoolType(t types.Type) bool {
	b, ok := t.Underlying().(*types.Basic)
	return ok && b.Info()&types.IsBoolean != 0
}

// allSumNil: v is (a φ of) hash.Hash.Sum(nil) results.
func (c *Ctx) allSumNil(v ssa.Value, seen map[ssa.Value]bool) bool {
	if seen[v] {
		return true
	}
	seen[v] = true
	switch x := v.(type) {
	case *ssa.Phi:
		for _, e := range x.Edges {
			if k, ok := e.(*ssa.Const); ok && k.Value == nil {
				continue // zero value of the declaration, overwritten on every arm that reaches the return
			}
			if !c.allSumNil(e, seen) {
				return false
			}
		}
		return true
	case *ssa.Call:
		if !(x.Call.IsInvoke() && x.Call.Method.Name() == "Sum" && isHashHash(x.Call.Value.Type())) {
			return false
		}
		// Sum(nil), or Sum onto an empty slice of storage that belongs to this call (a local array cut to [:0], a
		// fresh make([]byte, 0, n)): the result is the digest alone
		arg := x.Call.Args[0]
		if isNilConst(arg) {
			return true
		}
		if mk, ok := arg.(*ssa.MakeSlice); ok {
			return emptySliceValue(mk, 0)
		}
		if sl, ok := arg.(*ssa.Slice); ok && emptySliceValue(sl, 0) {
			if al, ok := sl.X.(*ssa.Alloc); ok {
				_, isArr := arrayLen(al.Type())
				return isArr
			}
		}
		return false
	}
	return false
}

// macSpanRules: C02 rule 4 (receive side) / C06 rule 3 (send side uses its own variant).
func (c *Ctx) macSpanRules(r *Report, prefix string, a *ikeAnchors, receive bool) {
	rule := prefix + "mac-span"
	floor := 4
	if !receive {
		floor = 1
	}
	r.Rule(rule, "the byte string fed to the HMAC between Reset and Sum is the whole datagram from its first octet up to, but excluding, the last L octets", floor)
	ci := a.calculateIntegrity
	// exactly one Write per arm, of the unsliced originData parameter
	nW, okW := 0, true
	for _, b := range ci.Blocks {
		for _, ins := range b.Instrs {
			call, ok := ins.(*ssa.Call)
			if !ok || !call.Call.IsInvoke() || call.Call.Method.Name() != "Write" || !isHashHash(call.Call.Value.Type()) {
				continue
			}
			nW++
			if pi := paramIndex(ci, call.Call.Args[0]); pi < 0 || !isByteSlice(call.Call.Args[0].Type()) {
				okW = false
			}
		}
	}
	t := c.roleFieldTable(ci)
	// one Write per role arm, or one shared Write on the object the role selected
	r.Check(okW && nW >= 1 && nW <= 2 && t.found, rule, "ike.calculateIntegrity: HMAC input", c.Pos(ci.Pos()), "every hash Write writes exactly the unsliced data parameter (typestate Reset-Write-Sum is C17's rule)", fmt.Sprintf("the data written into the hash is not exactly the data parameter (%d Write calls)", nW))
	if !receive {
		return
	}
	vf := a.verifyIntegrity
	for _, call := range c.callsTo(vf, ci) {
		// originData argument is the []byte parameter in data position
		arg := call.Call.Args[len(call.Call.Args)-1]
		r.Check(paramIndex(vf, arg) == 0, rule, "ike.verifyIntegrity: passes its data parameter through", c.InstrPos(call), "calculateIntegrity receives verifyIntegrity's originData parameter unchanged", "the data handed to calculateIntegrity is not verifyIntegrity's data parameter")
	}
	dm := a.decryptMsg
	f := c.NewFA(dm)
	f.CallRange = c.callRange
	L := c.outputLenCall(dm)
	for _, call := range c.callsTo(dm, vf) {
		arg := call.Call.Args[0]
		ok := false
		detail := "the data argument is not msg[:len(msg)-L]"
		if sl, isSlice := arg.(*ssa.Slice); isSlice && sl.Low == nil && sl.High != nil && paramIndex(dm, sl.X) == 0 && L != nil {
			want := f.SliceLen(sl.X).add(f.LFOf(L), -1)
			if f.LFOf(sl.High).key() == want.key() {
				ok = true
				detail = "data = msg[:len(msg)-L] with msg the datagram parameter and L = IntegInfo.GetOutputLength()"
			} else {
				detail = "upper bound is " + f.Show(f.LFOf(sl.High)) + ", expected " + f.Show(want)
			}
		}
		r.Check(ok, rule, "ike.decryptMsg: MAC input span", c.InstrPos(call), detail, detail)
	}
	dd := a.DecodeDecrypt
	for _, call := range c.callsTo(dd, dm) {
		r.Check(paramIndex(dd, call.Call.Args[0]) == 0, rule, "ike.DecodeDecrypt: passes the datagram through", c.InstrPos(call), "decryptMsg receives DecodeDecrypt's msg parameter unsliced", "the byte string handed to decryptMsg is not the whole datagram")
	}
}

// truncatedToHeaderRule: "every proper prefix of a protected message is refused" includes the prefix that
// ends right behind the IKE header. Such a datagram decodes without error to a header that still announces
// an Encrypted payload (NextPayload = SK) and to an empty payload list. The rule follows DecodeDecrypt under
// exactly these assumptions (decode calls succeed, the header object exists, its NextPayload is TypeSK, the
// payload list is empty) and requires that no success return is reachable: the datagram must not pass as an
// empty unprotected message.
func (c *Ctx) truncatedToHeaderRule(r *Report, rule string, dd *ssa.Function) {
	r.Rule(rule, "a datagram that ends behind a header announcing an Encrypted payload (NextPayload = SK, no payload octets) is refused: under these assumptions no success return of DecodeDecrypt is reachable", 1)
	sk := c.constInt("message", "TypeSK")
	if dd == nil || sk == nil {
		r.undecided(rule, "ike.DecodeDecrypt", "-", "anchor does not resolve")
		return
	}
	// value of a condition under the assumptions: +1 true, -1 false, 0 unknown
	var eval func(v ssa.Value, depth int) int
	isLenPayloads := func(v ssa.Value) bool {
		call, ok := v.(*ssa.Call)
		if !ok {
			return false
		}
		if bi, ok := call.Call.Value.(*ssa.Builtin); !ok || bi.Name() != "len" {
			return false
		}
		fk, ok := fieldKeyOfLoad(call.Call.Args[0])
		return ok && fk == "message.IKEMessage.Payloads"
	}
	isNextPayload := func(v ssa.Value) bool {
		for i := 0; i < 3; i++ {
			switch x := v.(type) {
			case *ssa.Convert:
				v = x.X
				continue
			case *ssa.ChangeType:
				v = x.X
				continue
			}
			break
		}
		fk, ok := fieldKeyOfLoad(v)
		return ok && fk == "message.IKEHeader.NextPayload"
	}
	cmp := func(op token.Token, a, b int64) int {
		res := false
		switch op {
		case token.EQL:
			res = a == b
		case token.NEQ:
			res = a != b
		case token.LSS:
			res = a < b
		case token.LEQ:
			res = a <= b
		case token.GTR:
			res = a > b
		case token.GEQ:
			res = a >= b
		default:
			return 0
		}
		if res {
			return 1
		}
		return -1
	}
	eval = func(v ssa.Value, depth int) int {
		if depth > 6 {
			return 0
		}
		switch x := v.(type) {
		case *ssa.UnOp:
			if x.Op == token.NOT {
				return -eval(x.X, depth+1)
			}
		case *ssa.BinOp:
			k, isK := x.Y.(*ssa.Const)
			other := x.X
			op := x.Op
			if !isK {
				if k2, ok := x.X.(*ssa.Const); ok {
					k, isK, other = k2, true, x.Y
					// mirror the comparison
					switch op {
					case token.LSS:
						op = token.GTR
					case token.GTR:
						op = token.LSS
					case token.LEQ:
						op = token.GEQ
					case token.GEQ:
						op = token.LEQ
					}
				}
			}
			if !isK {
				return 0
			}
			if k.Value == nil {
				// nil tests: the decode calls succeeded (their error is nil); the header object exists
				if isErrorType(other.Type()) {
					return cmp(op, 0, 1) // err (0 = nil) compared with "non-nil": err == nil true, err != nil false
				}
				if fk, ok := fieldKeyOfLoad(other); ok && fk == "message.IKEMessage.IKEHeader" {
					if op == token.NEQ {
						return 1
					}
					if op == token.EQL {
						return -1
					}
				}
				return 0
			}
			kv, ok := constInt64(k.Value)
			if !ok {
				return 0
			}
			if isLenPayloads(other) {
				return cmp(op, 0, kv)
			}
			if isNextPayload(other) {
				return cmp(op, *sk, kv)
			}
		}
		return 0
	}
	// err == nil: cmp(op, 0, 1) above encodes nil as 0 and the constant side as 1, so EQL is false... fix: handle directly
	evalCond := func(v ssa.Value) int {
		if bo, ok := v.(*ssa.BinOp); ok && (bo.Op == token.EQL || bo.Op == token.NEQ) {
			var other ssa.Value
			if isNilConst(bo.Y) {
				other = bo.X
			} else if isNilConst(bo.X) {
				other = bo.Y
			}
			if other != nil && isErrorType(other.Type()) {
				if bo.Op == token.EQL {
					return 1
				}
				return -1
			}
		}
		return eval(v, 0)
	}
	reach := map[*ssa.BasicBlock]bool{}
	var visit func(b *ssa.BasicBlock)
	visit = func(b *ssa.BasicBlock) {
		if reach[b] {
			return
		}
		reach[b] = true
		if iff, ok := b.Instrs[len(b.Instrs)-1].(*ssa.If); ok && len(b.Succs) == 2 {
			switch evalCond(iff.Cond) {
			case 1:
				visit(b.Succs[0])
			case -1:
				visit(b.Succs[1])
			default:
				visit(b.Succs[0])
				visit(b.Succs[1])
			}
			return
		}
		for _, s := range b.Succs {
			visit(s)
		}
	}
	visit(dd.Blocks[0])
	n := 0
	var bad []string
	for _, b := range dd.Blocks {
		ret, ok := b.Instrs[len(b.Instrs)-1].(*ssa.Return)
		if !ok || len(ret.Results) != 2 || !isNilConst(ret.Results[1]) {
			continue
		}
		n++
		if reach[b] {
			bad = append(bad, c.InstrPos(ret))
		}
	}
	key := "ike.DecodeDecrypt: header announcing SK, no payload octets"
	switch {
	case n == 0:
		r.undecided(rule, key, c.Pos(dd.Pos()), "no success return found")
	case len(bad) > 0:
		r.bad(rule, key, bad[0], "the success return at "+strings.Join(bad, ", ")+" is reachable for a datagram that ends behind a header whose NextPayload is SK (the 28-octet prefix of any protected message): it is accepted as an empty unprotected message instead of being refused")
	default:
		r.ok(rule, key, c.Pos(dd.Pos()), fmt.Sprintf("none of the %d success return(s) is reachable when the payload list is empty and the header's NextPayload is SK", n), true)
	}
}

// knownNilAt: why value e is nil whenever block b runs ("" when that is not known): e is the nil constant, b is
// only reached over the nil edge of a test of e, or e merges values each of which is nil on its own edge.
func (c *Ctx) knownNilAt(e ssa.Value, b *ssa.BasicBlock, depth int) string {
	if isNilConst(e) {
		return "the wrapped error is the nil constant"
	}
	if depth > 3 {
		return ""
	}
	for x := b; x != nil; x = x.Idom() {
		if len(x.Preds) != 1 {
			continue
		}
		p := x.Preds[0]
		iff, ok := p.Instrs[len(p.Instrs)-1].(*ssa.If)
		if !ok || p.Succs[0] == p.Succs[1] {
			continue
		}
		cond, ok := iff.Cond.(*ssa.BinOp)
		if !ok || (cond.Op != token.EQL && cond.Op != token.NEQ) {
			continue
		}
		var tested ssa.Value
		if isNilConst(cond.Y) {
			tested = cond.X
		} else if isNilConst(cond.X) {
			tested = cond.Y
		}
		if tested != e {
			continue
		}
		if (cond.Op == token.EQL) == (p.Succs[0] == x) {
			return "it is only reached over the edge of `" + c.SrcExpr(cond) + "` (" + c.InstrPos(iff) + ") on which that error is nil"
		}
	}
	if ph, ok := e.(*ssa.Phi); ok && (ph.Block() == b || ph.Block().Dominates(b)) {
		var whys []string
		for i, ed := range ph.Edges {
			if ed == ssa.Value(ph) {
				continue
			}
			pred := ph.Block().Preds[i]
			w := c.knownNilAt(ed, pred, depth+1)
			if w == "" {
				// the edge itself is the nil edge of a test of the merged value
				if iff, ok := pred.Instrs[len(pred.Instrs)-1].(*ssa.If); ok && pred.Succs[0] != pred.Succs[1] {
					if cond, ok := iff.Cond.(*ssa.BinOp); ok && (cond.Op == token.EQL || cond.Op == token.NEQ) {
						var tested ssa.Value
						if isNilConst(cond.Y) {
							tested = cond.X
						} else if isNilConst(cond.X) {
							tested = cond.Y
						}
						if tested == ed && (cond.Op == token.EQL) == (pred.Succs[0] == ph.Block()) {
							w = "it comes in over the edge of `" + c.SrcExpr(cond) + "` (" + c.InstrPos(iff) + ") on which that error is nil"
						}
					}
				}
			}
			if w == "" {
				return ""
			}
			whys = appendUniq(whys, w)
		}
		if len(whys) > 0 {
			return "every value merged into it is nil on its edge (" + strings.Join(whys, "; ") + ")"
		}
	}
	return ""
}

// wrapOfNilRule: github.com/pkg/errors.Wrap / Wrapf / WithMessage / WithMessagef / WithStack return nil when the
// error they are given is nil. A failure exit written as `return nil, errors.Wrapf(err, ...)` at a point
// where err is known to be nil (the no-error edge of its own test dominates the call, or it is the nil
// constant) therefore reports success.
func (c *Ctx) wrapOfNilRule(r *Report, rule string, scope []*ssa.Function, floor int) {
	r.Rule(rule, "no error is built by wrapping an error value that is nil at that point (pkg/errors wrappers hand nil through, which would turn the failure exit into a success)", floor)
	wrappers := map[string]bool{
		"github.com/pkg/errors.Wrap": true, "github.com/pkg/errors.Wrapf": true,
		"github.com/pkg/errors.WithMessage": true, "github.com/pkg/errors.WithMessagef": true,
		"github.com/pkg/errors.WithStack": true,
	}
	for _, fn := range scope {
		for _, b := range fn.Blocks {
			for _, ins := range b.Instrs {
				call, ok := ins.(*ssa.Call)
				if !ok {
					continue
				}
				cal := call.Call.StaticCallee()
				if cal == nil || !wrappers[cal.String()] || len(call.Call.Args) == 0 {
					continue
				}
				e := call.Call.Args[0]
				key := c.FuncName(fn) + ": " + c.SrcExpr(call)
				why := c.knownNilAt(e, b, 0)
				r.Check(why == "", rule, key, c.InstrPos(call), "the wrapped error is not known to be nil here", why+": the wrapper returns nil and the failure is reported as success")
			}
		}
	}
}
