package lint

import (
	"go/types"
	"strings"

	"ikeverif/checker/xt/ssa"
)

// codecFuncs lists the decoder and encoder functions whose tables E5 builds.
func (c *Ctx) codecFuncs() (dec, enc []*ssa.Function, encRecv map[*ssa.Function]string) {
	encRecv = map[*ssa.Function]string{}
	addDec := func(fn *ssa.Function) {
		if fn != nil {
			dec = append(dec, fn)
		}
	}
	addEnc := func(fn *ssa.Function, rec string) {
		if fn != nil {
			enc = append(enc, fn)
			encRecv[fn] = rec
		}
	}
	addDec(c.Func("message", "ParseHeader"))
	addDec(c.Method("message", "IKEPayloadContainer", "Decode"))
	addDec(c.Method("eap", "EAP", "Unmarshal"))
	addEnc(c.Method("message", "IKEHeader", "Marshal"), "message.IKEHeader")
	addEnc(c.Method("message", "IKEPayloadContainer", "Encode"), "message.IKEPayloadContainer")
	addEnc(c.Method("eap", "EAP", "Marshal"), "eap.EAP")
	for _, spec := range []struct{ rel, iface string }{{"message", "IKEPayload"}, {"eap", "EapTypeData"}} {
		nt := c.NamedType(spec.rel, spec.iface)
		if nt == nil {
			continue
		}
		for _, T := range c.Implementers(nt.Underlying().(*types.Interface)) {
			rec := strings.TrimPrefix(typeKey(T), "*")
			if rec == "message.PayloadEap" || rec == "eap.EapAkaPrime" {
				continue // PayloadEap forwards to eap.EAP; EAP-AKA' is stream style (token engine)
			}
			addDec(c.methodOf(T, "Unmarshal"))
			addEnc(c.methodOf(T, "Marshal"), rec)
		}
	}
	return
}

// BuildSlotTables extracts all decode and encode tables.
func (c *Ctx) BuildSlotTables() *slotTables {
	if c.slotCache != nil {
		return c.slotCache
	}
	st := &slotTables{Dec: map[string]*recTable{}, Enc: map[string]*recTable{}}
	if ws, err := loadWireSpec(); err == nil {
		c.fieldBits = ws.domainBits()
	}
	dec, enc, recv := c.codecFuncs()
	contDec := c.Method("message", "IKEPayloadContainer", "Decode")
	for _, fn := range dec {
		var rn func(string) string
		if fn == contDec {
			rn = func(string) string { return "message.GenericPayload" }
		}
		c.decodeTablesOf(fn, st, rn)
	}
	contEnc := c.Method("message", "IKEPayloadContainer", "Encode")
	for _, fn := range enc {
		var rn func(fm *family, guess string) string
		if fn == contEnc {
			rn = func(fm *family, guess string) string {
				if !fm.isAccumulator() {
					return "message.GenericPayload" // the 4-octet generic payload header plus body
				}
				return guess
			}
		}
		c.encodeTablesOf(fn, st, recv[fn], rn)
	}
	for _, m := range []map[string]*recTable{st.Dec, st.Enc} {
		for _, t := range m {
			t.dedupe()
		}
	}
	c.slotCache = st
	return st
}
