package lint

import (
	"fmt"
	"go/constant"
	"go/token"
	"go/types"
	"sort"
	"strings"

	"ikeverif/checker/xt/ssa"
)

// E5 core: bit-provenance vectors. Every integer expression of a codec function is evaluated,
// over the domain {0, 1, ref(leaf, bit), top} per bit, into a vector saying which bit of which
// leaf (a wire octet group on the decode side, a message field on the encode side) each result bit
// is. Masks, shifts, conversions and ors of disjoint bit sets are exact, so 0x7f vs 0x7fff, a
// missing mask, a wrong shift or byte order show up as different provenance, independently of how
// the expression is written.

const (
	bZero uint8 = iota
	bOne
	bRef
	bTop
)

type pbit struct {
	K    uint8
	Leaf int
	Idx  int
}

// BV is a little-endian (LSB first) vector of provenance bits.
type BV []pbit

// Leaf kinds.
type leaf struct {
	Kind  string // wire | field | len | param | opaque
	Key   string // canonical key
	Width int    // bits
	// wire leaves
	Root    ssa.Value
	RootKey string
	Off     LF  // octet offset relative to Root
	Octets  int // width in octets (big-endian integer)
	V       ssa.Value
}

type bvCtx struct {
	c      *Ctx
	f      *FA
	leaves []leaf
	byKey  map[string]int
	memo   map[ssa.Value]BV
	// rootKey names roots (parameters, cursor φ-nodes) stably
	rootName func(v ssa.Value) string
	// FieldBits restricts the value range of a field to its low n bits (the encodable domain of the
	// properties, e.g. attribute types < 2^15): higher bits are the constant 0.
	FieldBits map[string]int
}

func newBVCtx(c *Ctx, f *FA) *bvCtx {
	return &bvCtx{c: c, f: f, byKey: map[string]int{}, memo: map[ssa.Value]BV{}}
}

func (x *bvCtx) leafID(l leaf) int {
	if id, ok := x.byKey[l.Key]; ok {
		return id
	}
	x.leaves = append(x.leaves, l)
	x.byKey[l.Key] = len(x.leaves) - 1
	return len(x.leaves) - 1
}

func typeBits(t types.Type) (int, bool) {
	b, ok := t.Underlying().(*types.Basic)
	if !ok {
		return 0, false
	}
	switch b.Kind() {
	case types.Bool:
		return 1, true
	case types.Uint8, types.Int8:
		return 8, true
	case types.Uint16, types.Int16:
		return 16, true
	case types.Uint32, types.Int32:
		return 32, true
	case types.Uint64, types.Int64, types.Int, types.Uint, types.Uintptr, types.UntypedInt:
		return 64, true
	}
	return 0, false
}

func isSignedType(t types.Type) bool {
	b, ok := t.Underlying().(*types.Basic)
	return ok && b.Info()&types.IsInteger != 0 && b.Info()&types.IsUnsigned == 0
}

func constBV(v int64, w int) BV {
	out := make(BV, w)
	for i := 0; i < w; i++ {
		if i < 64 && (uint64(v)>>uint(i))&1 == 1 {
			out[i] = pbit{K: bOne}
		}
	}
	return out
}

func topBV(w int) BV {
	out := make(BV, w)
	for i := range out {
		out[i] = pbit{K: bTop}
	}
	return out
}

func (x *bvCtx) leafBV(id, w int) BV {
	out := make(BV, w)
	lw := x.leaves[id].Width
	for i := 0; i < w; i++ {
		if i < lw {
			out[i] = pbit{K: bRef, Leaf: id, Idx: i}
		}
	}
	return out
}

func resize(a BV, w int, signed bool) BV {
	out := make(BV, w)
	for i := 0; i < w; i++ {
		if i < len(a) {
			out[i] = a[i]
		} else if signed && len(a) > 0 {
			// sign extension: exact only if the sign bit is a known constant
			s := a[len(a)-1]
			if s.K == bZero || s.K == bOne {
				out[i] = s
			} else {
				out[i] = pbit{K: bTop}
			}
		}
	}
	return out
}

func sameBit(a, b pbit) bool {
	return a.K == b.K && (a.K != bRef || (a.Leaf == b.Leaf && a.Idx == b.Idx))
}

// wireLeafOf recognises a read of wire octets: b[i] or binary.BigEndian.UintN(b[i:j]).
func (x *bvCtx) wireLeafOf(v ssa.Value) (int, bool) {
	switch e := v.(type) {
	case *ssa.UnOp:
		if e.Op != token.MUL {
			return 0, false
		}
		ia, ok := e.X.(*ssa.IndexAddr)
		if !ok || !isByteSlice(ia.X.Type()) {
			return 0, false
		}
		root, lo, _, _ := x.f.relSpan(ia.X)
		off := lo.add(x.f.LFOf(ia.Index), 1)
		return x.wireLeaf(root, off, 1, v), true
	case *ssa.Call:
		cal := e.Call.StaticCallee()
		if cal == nil {
			return 0, false
		}
		n := 0
		switch cal.String() {
		case "(encoding/binary.bigEndian).Uint16":
			n = 2
		case "(encoding/binary.bigEndian).Uint32":
			n = 4
		case "(encoding/binary.bigEndian).Uint64":
			n = 8
		default:
			return 0, false
		}
		root, lo, _, _ := x.f.relSpan(e.Call.Args[1])
		return x.wireLeaf(root, lo, n, v), true
	}
	return 0, false
}

// wireGroupOf recognises a value assembled from consecutive wire octets by shifts and ors
// (uint16(b[2])<<8 | uint16(b[3])) as the big-endian integer those octets form - the same leaf a
// binary.BigEndian.UintN call on that span yields.
func (x *bvCtx) wireGroupOf(v ssa.Value) (int, bool) {
	switch v.(type) {
	case *ssa.BinOp, *ssa.Convert:
	default:
		return 0, false
	}
	if _, isInt := typeBits(v.Type()); !isInt {
		return 0, false
	}
	bv := x.Eval(v)
	// octet k (k = 0 least significant) must be bits 0..7 of a 1-octet wire leaf; higher bits zero
	var leaves []int
	for k := 0; k*8 < len(bv); k++ {
		first := bv[k*8]
		if first.K == bZero {
			// all remaining bits must be zero
			for i := k * 8; i < len(bv); i++ {
				if bv[i].K != bZero {
					return 0, false
				}
			}
			break
		}
		if first.K != bRef {
			return 0, false
		}
		l := x.leaves[first.Leaf]
		if l.Kind != "wire" || l.Octets != 1 {
			return 0, false
		}
		for i := 0; i < 8; i++ {
			b := bv[k*8+i]
			if b.K != bRef || b.Leaf != first.Leaf || b.Idx != i {
				return 0, false
			}
		}
		leaves = append(leaves, first.Leaf)
	}
	if len(leaves) < 2 {
		return 0, false
	}
	// leaves[0] is the last octet on the wire; offsets must descend by one towards the most significant octet
	lo := x.leaves[leaves[len(leaves)-1]]
	for k, id := range leaves {
		l := x.leaves[id]
		if l.RootKey != lo.RootKey {
			return 0, false
		}
		want := lo.Off.add(konst(int64(len(leaves)-1-k)), 1)
		if l.Off.key() != want.key() {
			return 0, false
		}
	}
	return x.wireLeaf(lo.Root, lo.Off, len(leaves), v), true
}

func (x *bvCtx) rootKey(root ssa.Value) string {
	if x.rootName != nil {
		return x.rootName(root)
	}
	switch r := root.(type) {
	case *ssa.Parameter:
		return "param:" + r.Name()
	case *ssa.Phi:
		return "cursor:" + r.Comment
	case *ssa.Slice:
		if isOffsetCursor(r) {
			return "cursor:" + r.Low.(*ssa.Phi).Comment
		}
	}
	return "v:" + root.Name()
}

func (x *bvCtx) wireLeaf(root ssa.Value, off LF, octets int, v ssa.Value) int {
	rk := x.rootKey(root)
	key := fmt.Sprintf("wire(%s @%s w%d)", rk, x.f.Show(off), octets)
	return x.leafID(leaf{Kind: "wire", Key: key, Width: octets * 8, Root: root, RootKey: rk, Off: off, Octets: octets, V: v})
}

// fieldKeyOfLoad names a field load "Struct.Field" (pointer or value base).
func fieldKeyOfLoad(v ssa.Value) (string, bool) {
	if ct, ok := v.(*ssa.ChangeType); ok {
		v = ct.X
	}
	switch u := v.(type) {
	case *ssa.UnOp:
		if u.Op != token.MUL {
			return "", false
		}
		fa, ok := u.X.(*ssa.FieldAddr)
		if !ok {
			return "", false
		}
		k := FieldKey(fa.X.Type(), fa.Field)
		return strings.TrimPrefix(k, "field:"), true
	case *ssa.Field:
		st, ok := u.X.Type().Underlying().(*types.Struct)
		if !ok {
			return "", false
		}
		return typeKey(u.X.Type()) + "." + st.Field(u.Field).Name(), true
	}
	return "", false
}

// Eval computes the provenance vector of an integer (or bool) expression.
func (x *bvCtx) Eval(v ssa.Value) BV {
	if r, ok := x.memo[v]; ok {
		return r
	}
	w, ok := typeBits(v.Type())
	if !ok {
		w = 64
	}
	x.memo[v] = topBV(w) // cycle guard
	r := x.eval0(v, w)
	x.memo[v] = r
	return r
}

func (x *bvCtx) opaque(v ssa.Value, w int, kind, key string) BV {
	id := x.leafID(leaf{Kind: kind, Key: key, Width: w, V: v})
	return x.leafBV(id, w)
}

func (x *bvCtx) eval0(v ssa.Value, w int) BV {
	if id, ok := x.wireLeafOf(v); ok {
		return x.leafBV(id, w)
	}
	if fk, ok := fieldKeyOfLoad(v); ok {
		if _, isInt := typeBits(v.Type()); isInt {
			bv := x.opaque(v, w, "field", fk)
			if n, ok := x.FieldBits[fk]; ok {
				for i := n; i < len(bv); i++ {
					bv[i] = pbit{K: bZero}
				}
			}
			return bv
		}
	}
	// element of a slice-typed field: Struct.Field[]
	if u, ok := v.(*ssa.UnOp); ok && u.Op == token.MUL {
		if ia, ok := u.X.(*ssa.IndexAddr); ok {
			if fk, ok := fieldKeyOfLoad(ia.X); ok {
				if _, isInt := typeBits(v.Type()); isInt && !isByteSlice(ia.X.Type()) {
					return x.opaque(v, w, "field", fk+"[]")
				}
			}
		}
	}
	switch e := v.(type) {
	case *ssa.Const:
		if e.Value == nil {
			return constBV(0, w)
		}
		switch e.Value.Kind() {
		case constant.Int:
			if i, ok := constant.Int64Val(e.Value); ok {
				return constBV(i, w)
			}
			if u, ok := constant.Uint64Val(e.Value); ok {
				return constBV(int64(u), w)
			}
		case constant.Bool:
			if constant.BoolVal(e.Value) {
				return constBV(1, w)
			}
			return constBV(0, w)
		}
		return topBV(w)
	case *ssa.Parameter:
		return x.opaque(v, w, "param", "param:"+e.Name())
	case *ssa.Convert:
		if _, ok := typeBits(e.X.Type()); !ok {
			return topBV(w)
		}
		return resize(x.Eval(e.X), w, isSignedType(e.X.Type()))
	case *ssa.ChangeType:
		return resize(x.Eval(e.X), w, false)
	case *ssa.UnOp:
		switch e.Op {
		case token.XOR: // bitwise not
			a := x.Eval(e.X)
			out := make(BV, w)
			for i := range out {
				switch {
				case i < len(a) && a[i].K == bZero:
					out[i] = pbit{K: bOne}
				case i < len(a) && a[i].K == bOne:
					out[i] = pbit{K: bZero}
				default:
					out[i] = pbit{K: bTop}
				}
			}
			return out
		}
	case *ssa.BinOp:
		if _, ok := typeBits(e.X.Type()); !ok {
			return topBV(w)
		}
		a, b := x.Eval(e.X), x.Eval(e.Y)
		switch e.Op {
		case token.AND:
			out := make(BV, w)
			for i := range out {
				p, q := bitAt(a, i), bitAt(b, i)
				switch {
				case p.K == bZero || q.K == bZero:
					out[i] = pbit{K: bZero}
				case p.K == bOne:
					out[i] = q
				case q.K == bOne:
					out[i] = p
				case sameBit(p, q):
					out[i] = p
				default:
					out[i] = pbit{K: bTop}
				}
			}
			return out
		case token.OR:
			out := make(BV, w)
			for i := range out {
				p, q := bitAt(a, i), bitAt(b, i)
				switch {
				case p.K == bOne || q.K == bOne:
					out[i] = pbit{K: bOne}
				case p.K == bZero:
					out[i] = q
				case q.K == bZero:
					out[i] = p
				case sameBit(p, q):
					out[i] = p
				default:
					out[i] = pbit{K: bTop}
				}
			}
			return out
		case token.XOR:
			out := make(BV, w)
			for i := range out {
				p, q := bitAt(a, i), bitAt(b, i)
				switch {
				case p.K == bZero:
					out[i] = q
				case q.K == bZero:
					out[i] = p
				default:
					out[i] = pbit{K: bTop}
				}
			}
			return out
		case token.AND_NOT:
			out := make(BV, w)
			for i := range out {
				p, q := bitAt(a, i), bitAt(b, i)
				switch {
				case q.K == bOne || p.K == bZero:
					out[i] = pbit{K: bZero}
				case q.K == bZero:
					out[i] = p
				default:
					out[i] = pbit{K: bTop}
				}
			}
			return out
		case token.SHL, token.SHR:
			k, ok := e.Y.(*ssa.Const)
			if !ok || k.Value == nil {
				return topBV(w)
			}
			s64, _ := constant.Int64Val(k.Value)
			s := int(s64)
			out := make(BV, w)
			for i := range out {
				var src int
				if e.Op == token.SHL {
					src = i - s
				} else {
					src = i + s
				}
				if src >= 0 && src < w {
					out[i] = bitAt(a, src)
				} else if e.Op == token.SHR && isSignedType(e.X.Type()) {
					out[i] = pbit{K: bTop}
				}
			}
			return out
		case token.ADD, token.SUB, token.MUL, token.QUO, token.REM:
			// arithmetic: exact only for constants; otherwise an opaque arithmetic leaf named by its linear form
			if av, ok := bvConst(a); ok {
				if bv, ok := bvConst(b); ok {
					var rv int64
					switch e.Op {
					case token.ADD:
						rv = av + bv
					case token.SUB:
						rv = av - bv
					case token.MUL:
						rv = av * bv
					case token.QUO:
						if bv == 0 {
							return topBV(w)
						}
						rv = av / bv
					case token.REM:
						if bv == 0 {
							return topBV(w)
						}
						rv = av % bv
					}
					return constBV(truncTo(rv, e.Type()), w)
				}
			}
			return x.opaque(v, w, "arith", "arith:"+x.f.Show(x.f.LFOf(v)))
		case token.EQL, token.NEQ, token.LSS, token.LEQ, token.GTR, token.GEQ:
			return x.opaque(v, 1, "cmp", "cmp:"+v.Name())
		}
	case *ssa.Call:
		if bi, ok := e.Call.Value.(*ssa.Builtin); ok && bi.Name() == "len" {
			return x.opaque(v, w, "len", "len:"+x.f.Show(x.f.SliceLen(e.Call.Args[0])))
		}
		if e.Call.IsInvoke() {
			return x.opaque(v, w, "call", "call:"+x.describeRecv(e.Call.Value)+"."+e.Call.Method.Name()+"()")
		}
		if cal := e.Call.StaticCallee(); cal != nil {
			return x.opaque(v, w, "call", "call:"+cal.String()+"#"+v.Name())
		}
	case *ssa.Phi:
		// merge: equal vectors stay, otherwise an opaque φ leaf
		var first BV
		same := true
		for i, ed := range e.Edges {
			if x.f.predDead(e.Block(), i) {
				continue
			}
			ev := x.Eval(ed)
			if first == nil {
				first = ev
				continue
			}
			if len(ev) != len(first) {
				same = false
				break
			}
			for j := range ev {
				if !sameBit(ev[j], first[j]) {
					same = false
				}
			}
		}
		if same && first != nil {
			return resize(first, w, false)
		}
		return x.opaque(v, w, "phi", "phi:"+e.Comment+":"+v.Name())
	case *ssa.Extract:
		return x.opaque(v, w, "extract", "extract:"+v.Name())
	}
	return x.opaque(v, w, "opaque", "v:"+v.Name())
}

func (x *bvCtx) describeRecv(v ssa.Value) string {
	if fk, ok := fieldKeyOfLoad(v); ok {
		return fk
	}
	if u, ok := v.(*ssa.UnOp); ok && u.Op == token.MUL {
		if ia, ok := u.X.(*ssa.IndexAddr); ok {
			return "elem(" + x.describeRecv(ia.X) + ")[" + x.f.Show(x.f.LFOf(ia.Index)) + "]"
		}
	}
	if p, ok := v.(*ssa.Parameter); ok {
		return "param:" + p.Name()
	}
	return v.Name()
}

func bitAt(a BV, i int) pbit {
	if i < len(a) {
		return a[i]
	}
	return pbit{K: bZero}
}

func bvConst(a BV) (int64, bool) {
	var v int64
	for i, b := range a {
		switch b.K {
		case bOne:
			if i < 63 {
				v |= 1 << uint(i)
			}
		case bZero:
		default:
			return 0, false
		}
	}
	return v, true
}

// Runs: maximal runs of consecutive bits referring to consecutive bits of one leaf.
type bvRun struct {
	DstLo int // first result bit
	N     int
	Leaf  int
	SrcLo int
}

func runsOf(a BV) (runs []bvRun, ones []int, tops []int) {
	i := 0
	for i < len(a) {
		switch a[i].K {
		case bRef:
			r := bvRun{DstLo: i, N: 1, Leaf: a[i].Leaf, SrcLo: a[i].Idx}
			j := i + 1
			for j < len(a) && a[j].K == bRef && a[j].Leaf == r.Leaf && a[j].Idx == r.SrcLo+(j-i) {
				r.N++
				j++
			}
			runs = append(runs, r)
			i = j
			continue
		case bOne:
			ones = append(ones, i)
		case bTop:
			tops = append(tops, i)
		}
		i++
	}
	return
}

// Describe renders a vector for evidence and diagnostics.
func (x *bvCtx) Describe(a BV) string {
	runs, ones, tops := runsOf(a)
	var parts []string
	for _, r := range runs {
		l := x.leaves[r.Leaf]
		parts = append(parts, fmt.Sprintf("bits[%d..%d] = %s bits[%d..%d]", r.DstLo, r.DstLo+r.N-1, l.Key, r.SrcLo, r.SrcLo+r.N-1))
	}
	if len(ones) > 0 {
		parts = append(parts, fmt.Sprintf("ones%v", ones))
	}
	if len(tops) > 0 {
		parts = append(parts, fmt.Sprintf("unknown%v", tops))
	}
	if len(parts) == 0 {
		return "0"
	}
	sort.Strings(parts)
	return strings.Join(parts, "; ")
}
