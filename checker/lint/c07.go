package lint

import (
	"fmt"
	"go/token"
	"go/types"
	"os"
	"sort"
	"strings"

	"ikeverif/checker/xt/ssa"
)

// relSpan resolves a chain of slice expressions to (root, lo, hi) with lo/hi linear forms relative
// to the root value; hiOpen reports an open upper end (to the end of the root).
func (f *FA) relSpan(v ssa.Value) (root ssa.Value, lo, hi LF, hiOpen bool) {
	type step struct{ s *ssa.Slice }
	var chain []*ssa.Slice
	for {
		switch x := v.(type) {
		case *ssa.Slice:
			if isOffsetCursor(x) {
				// b[offset:] with offset a loop-carried index: the current element of a walk, a cursor of its own
				break
			}
			chain = append(chain, x)
			v = x.X
			continue
		case *ssa.ChangeType:
			v = x.X
			continue
		}
		break
	}
	root = v
	lo = konst(0)
	hiOpen = true
	hi = f.SliceLen(root)
	for i := len(chain) - 1; i >= 0; i-- {
		s := chain[i]
		base := lo
		if s.High != nil {
			hi = base.add(f.LFOf(s.High), 1)
			hiOpen = false
		}
		if s.Low != nil {
			lo = base.add(f.LFOf(s.Low), 1)
		}
	}
	// b[x:len(b)] is b[x:]
	if !hiOpen && hi.key() == f.SliceLen(root).key() {
		hiOpen = true
	}
	return
}

// isOffsetCursor: s = base[i:] where i is an integer φ-node of a loop header (an offset that walks base).
func isOffsetCursor(s *ssa.Slice) bool {
	if s.High != nil || s.Low == nil {
		return false
	}
	p, ok := s.Low.(*ssa.Phi)
	if !ok {
		return false
	}
	if _, isParam := s.X.(*ssa.Parameter); !isParam {
		return false
	}
	for _, pr := range p.Block().Preds {
		if p.Block().Dominates(pr) {
			return true
		}
	}
	return false
}

// invokeOnField finds the value of `recv.<field>.<method>()` calls in fn (receiver = parameter recvIdx).
func (c *Ctx) invokeOnField(fn *ssa.Function, recvIdx int, field, method string) []*ssa.Call {
	var out []*ssa.Call
	for _, b := range fn.Blocks {
		for _, ins := range b.Instrs {
			call, ok := ins.(*ssa.Call)
			if !ok || !call.Call.IsInvoke() || call.Call.Method.Name() != method {
				continue
			}
			base, fld, ok := fieldLoad(call.Call.Value)
			if ok && fld == field && paramIndex(fn, base) == recvIdx {
				out = append(out, call)
			}
		}
	}
	return out
}

// prfPlusRules: C07 rule 4 (shared with C08).
func (c *Ctx) prfPlusRules(r *Report, prefix string) {
	rule := prefix + "prf-plus"
	r.Rule(rule, "PrfPlus: per iteration Reset; Write(T(n-1) | S | byte(n)) with T(0) empty and n counting from 1; stream = Sum(stream); T(n) = the last Size() octets; result = stream[:streamLen]", 6)
	fn := c.Func("security/lib", "PrfPlus")
	if fn == nil {
		r.undecided(rule, "anchor lib.PrfPlus", "-", "anchor does not resolve")
		return
	}
	r.Func(c.FuncName(fn))
	f := c.NewFA(fn)
	loops := naturalLoops(fn)
	if len(loops) != 1 {
		r.bad(rule, "lib.PrfPlus: one loop", c.Pos(fn.Pos()), fmt.Sprintf("%d loops", len(loops)))
		return
	}
	li := loops[0]
	var streamPhi, blockPhi, iPhi *ssa.Phi
	for _, ins := range li.header.Instrs {
		p, ok := ins.(*ssa.Phi)
		if !ok {
			continue
		}
		switch {
		case isByteSlice(p.Type()) && strings.Contains(p.Comment, "stream"):
			streamPhi = p
		case isByteSlice(p.Type()):
			blockPhi = p
		default:
			iPhi = p
		}
	}
	// identify by structure rather than by name: stream φ is the one fed by Sum; block φ by a slice of the Sum result
	var write, sum, reset, size *ssa.Call
	var writes []*ssa.Call
	for _, b := range sortedBlocks(li.body) {
		for _, ins := range b.Instrs {
			call, ok := ins.(*ssa.Call)
			if !ok || !call.Call.IsInvoke() || !isHashHash(call.Call.Value.Type()) || paramIndex(fn, call.Call.Value) != 0 {
				continue
			}
			switch call.Call.Method.Name() {
			case "Write":
				write = call
				writes = append(writes, call)
			case "Sum":
				sum = call
			case "Reset":
				reset = call
			case "Size":
				size = call
			}
		}
	}
	if size == nil {
		// blockLen := prf.Size() read once before the loop: a hash's output size does not change
		for _, b := range fn.Blocks {
			for _, ins := range b.Instrs {
				if call, ok := ins.(*ssa.Call); ok && call.Call.IsInvoke() && isHashHash(call.Call.Value.Type()) && paramIndex(fn, call.Call.Value) == 0 && call.Call.Method.Name() == "Size" {
					size = call
				}
			}
		}
	}
	if write == nil || sum == nil || reset == nil || size == nil {
		r.bad(rule, "lib.PrfPlus: Reset/Write/Sum/Size on the prf parameter inside the loop", c.Pos(fn.Pos()), "one of Reset, Write, Sum, Size is missing in the loop body")
		return
	}
	structBlock := false
	for _, ins := range li.header.Instrs {
		if p, ok := ins.(*ssa.Phi); ok && isByteSlice(p.Type()) {
			for _, e := range p.Edges {
				if e == ssa.Value(sum) {
					streamPhi = p
				} else if sl, ok := e.(*ssa.Slice); ok && sl.X == ssa.Value(sum) {
					blockPhi = p
					structBlock = true
				}
			}
		}
	}
	if !structBlock && blockPhi != nil && blockPhi != streamPhi {
		// a loop-carried byte slice that is not cut from the Sum result (a reused scratch buffer for the PRF input)
		// is not the chaining block; the offset forms below apply
		cut := false
		for _, e := range blockPhi.Edges {
			if sl, ok := e.(*ssa.Slice); ok && (sl.X == ssa.Value(sum) || sl.X == ssa.Value(streamPhi)) {
				cut = true
			}
		}
		if !cut {
			blockPhi = nil
		}
	}
	// offset form of the chaining block: an integer φ off with T(n-1) = stream[off:], off = 0 at first and
	// len(Sum result) - Size() afterwards; the counter is then the other integer φ
	var offPhi *ssa.Phi
	offIsFeedback := false
	if blockPhi == nil {
		for _, ins := range li.header.Instrs {
			p, ok := ins.(*ssa.Phi)
			if !ok || isByteSlice(p.Type()) {
				continue
			}
			zero, step := false, false
			if os.Getenv("IKELINT_DEBUG_PRFPLUS") != "" {
				for _, e := range p.Edges {
					fmt.Fprintf(os.Stderr, "prf+: phi %s edge %s = %s; len(sum) = %s size = %s\n", p.Name(), e.Name(), f.Show(f.LFOf(e)), f.Show(f.SliceLen(sum)), f.Show(f.LFOf(size)))
				}
			}
			for i, e := range p.Edges {
				if k, ok := e.(*ssa.Const); ok {
					if v, _ := constInt64(k.Value); v == 0 {
						zero = true
					}
				} else if f.LFOf(e).key() == f.SliceLen(sum).add(f.LFOf(size), -1).key() {
					step = true
				} else if f.LFOf(e).key() == f.LFOf(size).key() {
					step, offIsFeedback = true, true // the number of octets fed back: T(n-1) = stream[len(stream)-q:]
				} else if li.body[li.header.Preds[i]] && f.EqualAt(f.LFOf(e), f.LFOf(size), li.header.Preds[i]) {
					// the same through a variable that holds Size() whenever the loop runs (set under streamLen > 0)
					step, offIsFeedback = true, true
				}
			}
			if zero && step {
				offPhi = p
			}
		}
		if offPhi != nil {
			iPhi = nil
			for _, ins := range li.header.Instrs {
				if p, ok := ins.(*ssa.Phi); ok && !isByteSlice(p.Type()) && p != offPhi {
					iPhi = p
				}
			}
		}
	}
	if streamPhi == nil || (blockPhi == nil && offPhi == nil && len(writes) <= 1) || iPhi == nil {
		r.bad(rule, "lib.PrfPlus: loop state", c.Pos(fn.Pos()), "cannot identify the stream, block and counter loop variables")
		return
	}
	// order: Reset dominates Write dominates Sum
	r.Check(dominatesInstr(reset, write) && dominatesInstr(write, sum), rule, "lib.PrfPlus: Reset, then Write, then Sum", c.InstrPos(write), "in every iteration", "Reset/Write/Sum are not in this order on every iteration")
	// Sum(streamφ)
	r.Check(sum.Call.Args[0] == ssa.Value(streamPhi), rule, "lib.PrfPlus: stream = Sum(stream)", c.InstrPos(sum), "the MAC output is appended to the stream so far", "Sum is not applied to the accumulated stream")
	// Write arg = block | s | byte(i), built by appends or in a buffer of the final size
	okW, detail := false, "Write argument is not block | s | byte(i)"
	fw := c.NewFA(fn)
	streamed, chained := false, false
	if len(writes) > 1 {
		// the same data fed piecewise: an optional first Write of the chaining block (skipped in the first round, where
		// T(0) is empty), then Write(s), then Write of the one counter octet; all between Reset and Sum
		sort.Slice(writes, func(a, b int) bool {
			return dominatesInstr(writes[a], writes[b]) || writes[a].Block().Index < writes[b].Block().Index
		})
		var parts []cpart
		okS := true
		why := ""
		for k, w := range writes {
			if !dominatesInstr(reset, w) {
				okS, why = false, "a Write is not behind Reset"
			}
			ps, ok := c.concatOf(fw, w.Call.Args[0], w, 0)
			if !ok {
				ps = []cpart{{Kind: "slice", Val: w.Call.Args[0], Len: fw.SliceLen(w.Call.Args[0])}}
			}
			if !dominatesInstr(w, sum) {
				// a conditional Write: only the first, of stream[len(stream)-Size():], skipped exactly when i == 1
				sl, isSl := w.Call.Args[0].(*ssa.Slice)
				if k != 0 || !isSl || sl.X != ssa.Value(streamPhi) || sl.High != nil || sl.Low == nil ||
					!fw.EqualAt(fw.LFOf(sl.Low), fw.SliceLen(streamPhi).add(fw.LFOf(size), -1), w.Block()) {
					okS, why = false, "a conditional Write that is not the chaining block stream[len(stream)-Size():]"
					continue
				}
				// the condition: i > 1 / i != 1 on the counter
				condOK := false
				for bb := w.Block(); bb != nil && li.body[bb]; bb = bb.Idom() {
					if len(bb.Preds) != 1 {
						continue
					}
					pb := bb.Preds[0]
					iff, isIf := pb.Instrs[len(pb.Instrs)-1].(*ssa.If)
					if !isIf || pb == li.header {
						continue
					}
					var fs []Fact
					fw.condFacts(iff.Cond, pb.Succs[0] == bb, &fs)
					// passing side: i - 2 >= 0 (or i != 1 with i >= 1)
					for _, ft := range fs {
						g := fw.LFOf(iPhi).add(konst(2), -1)
						if !ft.NE && ft.L.key() == g.key() {
							condOK = true
						}
						if ft.NE && ft.L.key() == fw.LFOf(iPhi).add(konst(1), -1).key() {
							condOK = true
						}
					}
					// and the other side goes on to the next Write (nothing else is skipped)
				}
				if !condOK {
					okS, why = false, "the chaining block is not skipped exactly in the first round"
				} else {
					chained = true
				}
				continue
			}
			parts = append(parts, ps...)
		}
		want := []cpart{{Kind: "slice", Val: fn.Params[1]}, {Kind: "byte", Val: iPhi}}
		if okS && iPhi != nil && sameParts(parts, want) {
			streamed, okW = true, true
			detail = "Write(T(n-1)) unless n == 1; Write(s); Write(byte(i))"
		} else if why != "" {
			detail = "streamed writes: " + why
		} else {
			detail = "streamed writes are " + partsString(fw, parts) + ", expected [T(n-1)] s byte(i)"
		}
	}
	if parts, ok := c.concatOf(fw, write.Call.Args[0], write, 0); ok && !streamed && len(writes) <= 1 {
		var blockVal ssa.Value = blockPhi
		if blockPhi == nil && len(dropEmpty(parts)) > 0 {
			// the first piece must be stream[off:]
			if sl, ok := dropEmpty(parts)[0].Val.(*ssa.Slice); ok && sl.X == ssa.Value(streamPhi) && sl.High == nil && sl.Low != nil {
				wantLow := fw.LFOf(offPhi)
				if offIsFeedback {
					wantLow = fw.SliceLen(streamPhi).add(fw.LFOf(offPhi), -1)
				}
				if fw.LFOf(sl.Low).key() == wantLow.key() {
					blockVal = sl
				}
			}
		}
		want := []cpart{{Kind: "slice", Val: blockVal}, {Kind: "slice", Val: fn.Params[1]}, {Kind: "byte", Val: iPhi}}
		if blockVal != nil && sameParts(parts, want) {
			okW = true
			detail = "Write(block | s | byte(i))"
		} else {
			detail = "Write argument is " + partsString(fw, parts) + ", expected block | s | byte(i)"
		}
	}
	r.Check(okW, rule, "lib.PrfPlus: data = T(n-1) | S | n", c.InstrPos(write), detail, detail)
	// counter: φ(1, φ+1); block: φ(nil, Sum[len-Size:])
	okI := false
	for i, e := range iPhi.Edges {
		_ = i
		if k, ok := e.(*ssa.Const); ok {
			if v, _ := constInt64(k.Value); v == 1 {
				okI = true
			}
		}
	}
	for _, e := range iPhi.Edges {
		if b, ok := e.(*ssa.BinOp); ok {
			if !(b.Op == token.ADD && b.X == ssa.Value(iPhi)) {
				okI = false
			} else if k, ok := b.Y.(*ssa.Const); !ok {
				okI = false
			} else if v, _ := constInt64(k.Value); v != 1 {
				okI = false
			}
		}
	}
	r.Check(okI, rule, "lib.PrfPlus: counter starts at 1 and increases by 1", c.InstrPos(iPhi), "i = 1, 2, 3, ...", "the block counter does not run 1, 2, 3, ...")
	okB := false
	initNil := false
	posB := c.Pos(fn.Pos())
	if streamed {
		// the chaining block is the conditional first Write checked above; T(0) is empty because that Write is
		// skipped in the first round, and the stream starts empty
		okB = chained
		for i, e := range streamPhi.Edges {
			if !li.body[li.header.Preds[i]] && emptySliceValue(e, 0) {
				initNil = true
			}
		}
	} else if blockPhi != nil {
		posB = c.InstrPos(blockPhi)
		for _, e := range blockPhi.Edges {
			if sl, ok := e.(*ssa.Slice); ok && sl.X == ssa.Value(sum) && sl.High == nil && sl.Low != nil {
				want := f.SliceLen(sum).add(f.LFOf(size), -1)
				if f.LFOf(sl.Low).key() == want.key() || f.EqualAt(f.LFOf(sl.Low), want, sl.Block()) {
					okB = true
				}
			}
		}
		for _, e := range blockPhi.Edges {
			if isNilConst(e) {
				initNil = true
			}
		}
	} else {
		// offset form: identified above by exactly these two edges; T(0) is empty because the stream starts nil
		if offPhi == nil {
			posB = "-"
		} else {
			posB = c.InstrPos(offPhi)
			okB = true
		}
		for i, e := range streamPhi.Edges {
			if !li.body[li.header.Preds[i]] && emptySliceValue(e, 0) {
				initNil = true
			}
		}
	}
	r.Check(okB && initNil, rule, "lib.PrfPlus: T(n) = last Size() octets of the stream, T(0) empty", posB, "block = stream[len(stream)-prf.Size():], initially nil", "the chaining block is not the last hash output")
	// return stream[:streamLen]
	okR := false
	for _, b := range fn.Blocks {
		if ret, ok := b.Instrs[len(b.Instrs)-1].(*ssa.Return); ok && !isNilConst(ret.Results[0]) {
			if sl, ok := ret.Results[0].(*ssa.Slice); ok && sl.Low == nil && sl.High != nil && sl.X == ssa.Value(streamPhi) && paramIndex(fn, sl.High) == 2 {
				okR = true
			}
		}
	}
	r.Check(okR, rule, "lib.PrfPlus: result = stream[:streamLen]", c.Pos(fn.Pos()), "truncated to the requested length", "the result is not the first streamLen octets of the stream")
}

// emptySliceValue: v is a slice of length 0 whatever path produced it: nil, make(T, 0, n), x[:0], or a φ of such.
func emptySliceValue(v ssa.Value, depth int) bool {
	if depth > 4 {
		return false
	}
	switch x := v.(type) {
	case *ssa.Const:
		return x.Value == nil
	case *ssa.MakeSlice:
		k, ok := x.Len.(*ssa.Const)
		return ok && k.Value != nil && k.Value.ExactString() == "0"
	case *ssa.Slice:
		if x.High != nil {
			if k, ok := x.High.(*ssa.Const); ok && k.Value != nil && k.Value.ExactString() == "0" {
				return true
			}
		}
		return false
	case *ssa.Phi:
		for _, e := range x.Edges {
			if e == ssa.Value(x) {
				continue
			}
			if !emptySliceValue(e, depth+1) {
				return false
			}
		}
		return true
	}
	return false
}

// RunC07 decides property C07.
func RunC07(c *Ctx, r *Report) {
	prefix := "C07."
	r.Explanation = "Structural necessary conditions of RFC 7296 2.13-2.14: the offset table of the key slices (d, ai, ar, ei, er, pi, pr with lengths P, A, A, E, E, P, P over the negotiated descriptors, total 3P+2A+2E), SKEYSEED argument roles (key = Ni|Nr, data = g^ir), the seed concat list Ni|Nr|SPIi|SPIr, the prf+ structure, registry key/output lengths vs the RFC table, objects keyed with their own keys, and the argument order of NewIKESAKey."
	r.TrustedBase = append(r.TrustedBase, "go/types and go/ssa (x/tools v0.29.0)", "the checker's linear-form engine (slice chains)", "RFC reference table of key lengths")
	r.Assumptions = append(r.Assumptions, "HMAC implementations of the standard library are correct")
	r.NotDecided = append(r.NotDecided, "HMAC / prf values; equality of the SAs of two peers is implied by determinism of the derivation, not separately derived")
	gen := c.Method("security", "IKESAKey", "GenerateKeyForIKESA")
	if gen == nil {
		r.undecided(prefix+"anchor", "GenerateKeyForIKESA", "-", "anchor does not resolve")
		return
	}
	r.Func(c.FuncName(gen))
	c.noSharedStateRule(r, prefix+"derive.no-shared-state", "NewIKESAKey / GenerateKeyForIKESA (prf+, the PRF / integrity / cipher constructors)", 5,
		gen, c.Func("security", "NewIKESAKey"))
	c.c07Totality(r, prefix)
	c.dhMethodShapes(r, prefix+"dh-secret-shape")
	f := c.NewFA(gen)

	// rule 1: offset table
	rule1 := prefix + "offset-table"
	r.Rule(rule1, "SK_d, SK_ai, SK_ar, SK_ei, SK_er, SK_pi, SK_pr are the consecutive slices [0,P) [P,P+A) [P+A,P+2A) [P+2A,P+2A+E) [..,+E) [..,+P) [..,+P) of prf+ output, P/A/E the key lengths of the negotiated PRF / integrity / encryption descriptors; 3P+2A+2E octets are requested", 8)
	pc := c.invokeOnField(gen, 0, "PrfInfo", "GetKeyLength")
	ac := c.invokeOnField(gen, 0, "IntegInfo", "GetKeyLength")
	ec := c.invokeOnField(gen, 0, "EncrInfo", "GetKeyLength")
	prfPlus := c.Func("security/lib", "PrfPlus")
	if len(pc) != 1 || len(ac) != 1 || len(ec) != 1 || prfPlus == nil {
		r.bad(rule1, "key lengths from the SA's descriptors", c.Pos(gen.Pos()), fmt.Sprintf("expected one GetKeyLength call each on PrfInfo/IntegInfo/EncrInfo, found %d/%d/%d", len(pc), len(ac), len(ec)))
		return
	}
	P, A, E := f.LFOf(pc[0]), f.LFOf(ac[0]), f.LFOf(ec[0])
	pcalls := c.callsTo(gen, prfPlus)
	if len(pcalls) != 1 {
		r.bad(rule1, "one PrfPlus call", c.Pos(gen.Pos()), fmt.Sprintf("%d calls", len(pcalls)))
		return
	}
	stream := pcalls[0]
	total := P.scale(3).add(A, 2).add(E, 2)
	r.Check(f.LFOf(stream.Call.Args[2]).key() == total.key(), rule1, "requested length", c.InstrPos(stream), "3P + 2A + 2E", "requested "+f.Show(f.LFOf(stream.Call.Args[2]))+", expected 3P+2A+2E = "+f.Show(total))
	order := []struct {
		name string
		len  LF
	}{{"SK_d", P}, {"SK_ai", A}, {"SK_ar", A}, {"SK_ei", E}, {"SK_er", E}, {"SK_pi", P}, {"SK_pr", P}}
	start := konst(0)
	stores := map[string]*ssa.Store{}
	for _, b := range gen.Blocks {
		for _, ins := range b.Instrs {
			if st, ok := ins.(*ssa.Store); ok {
				if fa, ok := st.Addr.(*ssa.FieldAddr); ok && fa.X == ssa.Value(gen.Params[0]) {
					k := FieldKey(fa.X.Type(), fa.Field)
					stores[k[strings.LastIndex(k, ".")+1:]] = st
				}
			}
		}
	}
	for _, o := range order {
		st := stores[o.name]
		end := start.add(o.len, 1)
		if st == nil {
			r.bad(rule1, "IKESAKey."+o.name, c.Pos(gen.Pos()), "never assigned")
			start = end
			continue
		}
		root, lo, hi, open := f.relSpan(st.Val)
		good := root == ssa.Value(stream) && !open && lo.key() == start.key() && hi.key() == end.key()
		r.Check(good, rule1, "IKESAKey."+o.name, c.InstrPos(st), fmt.Sprintf("= prf+[%s : %s]", f.Show(start), f.Show(end)), fmt.Sprintf("is prf+[%s : %s] but RFC 7296 2.14 prescribes [%s : %s]", f.Show(lo), f.Show(hi), f.Show(start), f.Show(end)))
		start = end
	}

	// rule 2: SKEYSEED
	rule2 := prefix + "skeyseed"
	r.Rule(rule2, "SKEYSEED = prf(Ni|Nr, g^ir): the PRF is initialised with the nonce parameter as key, the only data written is the shared-secret parameter, the result is Sum(nil); prf+ is keyed with SKEYSEED", 3)
	inits := c.invokeOnField(gen, 0, "PrfInfo", "Init")
	var seedInit, plusInit *ssa.Call
	for _, ic := range inits {
		if paramIndex(gen, ic.Call.Args[0]) == 1 {
			seedInit = ic
		}
		if ic == stream.Call.Args[0] {
			plusInit = ic
		}
	}
	var skeyseed *ssa.Call
	if seedInit != nil {
		nW, okW := 0, true
		for _, ref := range *seedInit.Referrers() {
			call, ok := ref.(*ssa.Call)
			if !ok || !call.Call.IsInvoke() || call.Call.Value != ssa.Value(seedInit) {
				continue
			}
			switch call.Call.Method.Name() {
			case "Write":
				nW++
				if paramIndex(gen, call.Call.Args[0]) != 2 {
					okW = false
				}
			case "Sum":
				if isNilConst(call.Call.Args[0]) {
					skeyseed = call
				}
			}
		}
		r.Check(nW == 1 && okW && skeyseed != nil, rule2, "SKEYSEED = prf(nonce, sharedKey)", c.InstrPos(seedInit), "Init(concatenatedNonce); Write(diffieHellmanSharedKey); Sum(nil)", "the PRF keyed with the nonces does not hash exactly the shared secret")
	} else {
		r.bad(rule2, "SKEYSEED = prf(nonce, sharedKey)", c.Pos(gen.Pos()), "no PrfInfo.Init(concatenatedNonce)")
	}
	r.Check(plusInit != nil && skeyseed != nil && plusInit.Call.Args[0] == ssa.Value(skeyseed), rule2, "prf+ keyed with SKEYSEED", c.InstrPos(stream), "PrfPlus(PrfInfo.Init(skeyseed), seed, n)", "prf+ is not keyed with SKEYSEED")
	if ok, why := c.nilStreamChecked(gen, stream); true {
		r.Check(ok, rule2, "prf+ failure is an error", c.InstrPos(stream), why, why)
	}

	// rule 3: seed
	rule3 := prefix + "seed"
	r.Rule(rule3, "the prf+ seed is Ni|Nr | SPIi | SPIr: nonce, then the initiator SPI, then the responder SPI as 8-octet big-endian integers", 2)
	cat := c.Func("security", "concatenateNonceAndSPI")
	okSeed := false
	if cat != nil {
		if sc, ok := stream.Call.Args[1].(*ssa.Call); ok && sc.Call.StaticCallee() == cat {
			okSeed = paramIndex(gen, sc.Call.Args[0]) == 1 && paramIndex(gen, sc.Call.Args[1]) == 3 && paramIndex(gen, sc.Call.Args[2]) == 4
		}
		r.Func(c.FuncName(cat))
	}
	r.Check(okSeed, rule3, "GenerateKeyForIKESA: seed arguments", c.InstrPos(stream), "concatenateNonceAndSPI(nonce, initiatorSPI, responderSPI)", "the seed is not built from (nonce, initiatorSPI, responderSPI) in this order")
	if cat != nil {
		ok, why := c.concatNonceSPIShape(cat)
		if !ok {
			// the same octets written into a buffer of the final size (copy + PutUint64 at offsets)
			if ok2, why2 := c.seedShapePresized(cat); ok2 {
				ok, why = ok2, why2
			}
		}
		r.Check(ok, rule3, "concatenateNonceAndSPI: nonce | BE64(spi_i) | BE64(spi_r)", c.Pos(cat.Pos()), why, why)
	}

	// rule 4: prf+
	c.prfPlusRules(r, prefix)
	// rule 5: registry vs RFC — the registry.reference rule of C11, restricted to prf/integ/encr
	c.registryLengthRules(r, prefix)
	// rule 6
	c.objectKeyBindingRules(r, prefix)
	// rule 7: NewIKESAKey argument order
	rule7 := prefix + "new-sa-arguments"
	r.Rule(rule7, "NewIKESAKey derives the DH material from the peer's key-exchange data and calls GenerateKeyForIKESA(concatenatedNonce, sharedKey, initiatorSPI, responderSPI)", 1)
	nk := c.Func("security", "NewIKESAKey")
	cd := c.Func("security", "CalculateDiffieHellmanMaterials")
	if nk == nil || cd == nil {
		r.undecided(rule7, "anchors", "-", "NewIKESAKey / CalculateDiffieHellmanMaterials do not resolve")
		return
	}
	r.Func(c.FuncName(nk))
	okArgs := false
	detail := "argument order differs"
	gcalls := c.callsTo(nk, gen)
	dcalls := c.callsTo(nk, cd)
	if len(gcalls) == 1 && len(dcalls) == 1 {
		g := gcalls[0]
		shared := resultN(dcalls[0], 1)
		pub := resultN(dcalls[0], 0)
		okArgs = paramIndex(nk, g.Call.Args[1]) == 2 && g.Call.Args[2] == shared && paramIndex(nk, g.Call.Args[3]) == 3 && paramIndex(nk, g.Call.Args[4]) == 4 &&
			paramIndex(nk, dcalls[0].Call.Args[1]) == 1
		// the local public value is what is returned
		for _, b := range nk.Blocks {
			if ret, ok := b.Instrs[len(b.Instrs)-1].(*ssa.Return); ok && isNilConst(ret.Results[2]) {
				if ret.Results[1] != pub {
					okArgs = false
					detail = "the returned public value is not the one computed from the same secret"
				}
			}
		}
		if okArgs {
			detail = "GenerateKeyForIKESA(concatenatedNonce, shared, initiatorSPI, responderSPI); returns the local public value"
		}
	}
	r.Check(okArgs, rule7, "security.NewIKESAKey", c.Pos(nk.Pos()), detail, detail)
}

// nilStreamChecked: a nil PrfPlus result leads to an error return.
func (c *Ctx) nilStreamChecked(fn *ssa.Function, stream *ssa.Call) (bool, string) {
	for _, ref := range *stream.Referrers() {
		cmp, ok := ref.(*ssa.BinOp)
		if !ok || cmp.Op != token.EQL || !isNilConst(cmp.Y) {
			continue
		}
		for _, r2 := range *cmp.Referrers() {
			if iff, ok := r2.(*ssa.If); ok {
				b := iff.Block().Succs[0]
				if ret, ok := b.Instrs[len(b.Instrs)-1].(*ssa.Return); ok {
					if ok2, _ := c.isErrorReturn(ret, nil); ok2 {
						return true, "keyStream == nil returns an error"
					}
				}
			}
		}
	}
	return false, "a nil prf+ result is not turned into an error"
}

// concatNonceSPIShape: ordered walk over the (single-block) function: the buffer reused for both SPIs
// must be filled with the right SPI immediately before each append.
func (c *Ctx) concatNonceSPIShape(fn *ssa.Function) (bool, string) {
	if len(fn.Blocks) != 1 {
		return false, "function is not straight-line code"
	}
	var list []string
	bufContent := map[ssa.Value]string{}
	// octet stores that spell a big-endian 64-bit integer: buf[k] = byte(param >> (56 - 8k)), k = 0..7
	partial := map[ssa.Value]*[8]int{}
	var acc ssa.Value
	for _, ins := range fn.Blocks[0].Instrs {
		switch x := ins.(type) {
		case *ssa.Store:
			ia, ok := x.Addr.(*ssa.IndexAddr)
			if !ok {
				continue
			}
			delete(bufContent, ia.X)
			k, isK := ia.Index.(*ssa.Const)
			if !isK {
				delete(partial, ia.X)
				continue
			}
			kv, _ := constInt64(k.Value)
			v := x.Val
			for {
				if cv, ok := v.(*ssa.Convert); ok {
					v = cv.X
					continue
				}
				break
			}
			shift, pi := int64(0), paramIndex(fn, v)
			if bo, ok := v.(*ssa.BinOp); ok && bo.Op == token.SHR {
				if sk, ok := bo.Y.(*ssa.Const); ok {
					shift, _ = constInt64(sk.Value)
					pi = paramIndex(fn, bo.X)
				}
			}
			if kv < 0 || kv > 7 || pi < 0 || shift != 56-8*kv {
				delete(partial, ia.X)
				continue
			}
			pa := partial[ia.X]
			if pa == nil {
				pa = &[8]int{-1, -1, -1, -1, -1, -1, -1, -1}
				partial[ia.X] = pa
			}
			pa[kv] = pi
			all := true
			for _, q := range pa {
				if q != pi {
					all = false
				}
			}
			if all {
				bufContent[ia.X] = fmt.Sprintf("BE64(param %d)", pi)
			}
		case *ssa.Call:
			if cal := x.Call.StaticCallee(); cal != nil && cal.String() == "(encoding/binary.bigEndian).PutUint64" {
				pi := paramIndex(fn, x.Call.Args[2])
				if pi < 0 {
					return false, "PutUint64 of a value that is not a parameter"
				}
				bufContent[x.Call.Args[1]] = fmt.Sprintf("BE64(param %d)", pi)
			}
			if bi, ok := x.Call.Value.(*ssa.Builtin); ok && bi.Name() == "append" {
				if acc != nil && x.Call.Args[0] != acc {
					return false, "append does not extend the accumulated slice"
				}
				if acc == nil && !isNilConst(x.Call.Args[0]) {
					return false, "the accumulator does not start empty"
				}
				src := x.Call.Args[1]
				if pi := paramIndex(fn, src); pi >= 0 {
					list = append(list, fmt.Sprintf("param %d", pi))
				} else if cnt, ok := bufContent[src]; ok {
					list = append(list, cnt)
				} else {
					return false, "appended value is neither a parameter nor the SPI buffer"
				}
				acc = x
			}
		case *ssa.Return:
			if x.Results[0] != acc {
				return false, "the result is not the accumulated slice"
			}
		}
	}
	got := strings.Join(list, " | ")
	want := "param 0 | BE64(param 1) | BE64(param 2)"
	if got != want {
		return false, "concat list is " + got + ", expected " + want
	}
	// the SPI buffer must be 8 octets
	for buf := range bufContent {
		if mk, ok := buf.(*ssa.MakeSlice); ok {
			if k, ok := mk.Len.(*ssa.Const); !ok {
				return false, "SPI buffer length is not constant"
			} else if v, _ := constInt64(k.Value); v != 8 {
				return false, "SPI buffer is not 8 octets"
			}
		}
	}
	return true, "nonce | BE64(spi_initiator) | BE64(spi_responder)"
}

// registryLengthRules: key/output lengths and hash constructors of PRF, integrity and encryption
// descriptors against the RFC table (subset of C11's registry.reference rule).
func (c *Ctx) registryLengthRules(r *Report, prefix string) {
	c.registryLengthRulesOf(r, prefix+"registry-lengths", 0, 9)
}

// registryLengthRulesOf checks the IKE (which = 0) or Child SA / kernel (which = 1) descriptor tables.
func (c *Ctx) registryLengthRulesOf(r *Report, rule string, which int, floor int) {
	r.Rule(rule, "key length, output length, hash constructor and Init key-length guard of every PRF / integrity / encryption descriptor equal the RFC table", floor)
	for _, rs := range regSpecs {
		if rs.TType > 3 || which >= len(rs.Types) {
			continue
		}
		ents, _, err := c.registryEntries(rs.Rel, rs.Types[which])
		if err != nil {
			r.undecided(rule, rs.Rel+"."+rs.Types[which], "-", err.Error())
			continue
		}
		byRow := map[*algoRow][]string{}
		complete := true
		defer func(rs regSpec, byRow map[*algoRow][]string, complete *bool) {
			// every algorithm of the RFC table for this transform type is registered by exactly one entry of its
			// own (two names sharing one descriptor leave a suite without its key length)
			if !*complete {
				return
			}
			for i := range algoSpec {
				a := &algoSpec[i]
				if a.TType != rs.TType {
					continue
				}
				key := rs.Rel + "." + rs.Types[which] + ": " + a.Name
				if n := len(byRow[a]); n != 1 {
					r.bad(rule, key, "-", fmt.Sprintf("the RFC table's algorithm %s (key length %d) is described by %d registry entries %v: every negotiable algorithm needs exactly one descriptor of its own", a.Name, a.KeyLen, n, byRow[a]))
				}
			}
		}(rs, byRow, &complete)
		for _, e := range ents {
			name := e.Key.ExactString()
			di := c.describe(name, c.descriptorOf(e.Val), e.Site)
			key := rs.Rel + "." + rs.Types[which] + "[" + name + "]"
			if di.Err != "" {
				complete = false
				r.undecided(rule, key, di.Pos, di.Err)
				continue
			}
			var row *algoRow
			for i := range algoSpec {
				a := &algoSpec[i]
				if a.TType == rs.TType && a.ID == di.ID && a.HasAttr == di.HasAttr && (!a.HasAttr || a.AVal == di.AVal) {
					row = a
				}
			}
			if row == nil {
				r.bad(rule, key, di.Pos, "not in the RFC table")
				continue
			}
			byRow[row] = append(byRow[row], name)
			var bad []string
			if di.KeyLen != row.KeyLen {
				bad = append(bad, fmt.Sprintf("key length %d, RFC %d", di.KeyLen, row.KeyLen))
			}
			if row.OutLen != 0 && di.OutLen != row.OutLen {
				bad = append(bad, fmt.Sprintf("output length %d, RFC %d", di.OutLen, row.OutLen))
			}
			if row.Hash != "" && di.Hash != row.Hash {
				bad = append(bad, "hash "+di.Hash+", RFC "+row.Hash)
			}
			if di.KeyArg != "" {
				bad = append(bad, di.KeyArg)
			}
			if rs.TType != 2 && di.Guard != row.KeyLen {
				bad = append(bad, fmt.Sprintf("key-length guard %d, RFC %d", di.Guard, row.KeyLen))
			}
			r.Check(len(bad) == 0, rule, key, di.Pos, fmt.Sprintf("%s: key %d, out %d, %s", row.Name, di.KeyLen, di.OutLen, di.Hash), strings.Join(bad, "; "))
		}
	}
}

// RunC08 decides property C08.
func RunC08(c *Ctx, r *Report) {
	prefix := "C08."
	r.Explanation = "Structural necessary conditions of RFC 7296 2.17: KEYMAT = prf+(SK_d, Ni|Nr) requested with length 2(E+A) (A = 0 without integrity), sliced in the order encr i->r [0,E), integ i->r [E,E+A), encr r->i [E+A,2E+A), integ r->i [2E+A,2E+2A), keys copied out of the stream; the prf+ structure (Reset per block, shared with C07); typestate of the long-lived SK_d PRF object for 'the first or the hundredth' derivation."
	r.TrustedBase = append(r.TrustedBase, "go/types and go/ssa (x/tools v0.29.0)", "the checker's linear-form engine (slice chains)")
	r.NotDecided = append(r.NotDecided, "prf values")
	gen := c.Method("security", "ChildSAKey", "GenerateKeyForChildSA")
	prfPlus := c.Func("security/lib", "PrfPlus")
	if gen == nil || prfPlus == nil {
		r.undecided(prefix+"anchor", "GenerateKeyForChildSA / PrfPlus", "-", "anchor does not resolve")
		return
	}
	r.Func(c.FuncName(gen))
	{
		roots := []*ssa.Function{gen, prfPlus}
		// the long-lived PRF object keyed with SK_d is made by the descriptors' Init
		if nt := c.NamedType("security/prf", "PRFType"); nt != nil {
			for _, T := range c.Implementers(nt.Underlying().(*types.Interface)) {
				roots = append(roots, c.methodOf(T, "Init"))
			}
		}
		c.noSharedStateRule(r, prefix+"derive.no-shared-state", "GenerateKeyForChildSA (prf+ and the constructors of the PRF object keyed with SK_d)", 3, roots...)
	}
	c.c08Totality(r, prefix)
	c.registryLengthRulesOf(r, prefix+"registry-lengths.child", 1, 6)
	f := c.NewFA(gen)
	rule1 := prefix + "offset-table"
	r.Rule(rule1, "the four Child SA keys are the consecutive slices ei [0,E) ai [E,E+A) er [E+A,2E+A) ar [2E+A,2E+2A) of prf+(SK_d, nonce), with 2(E+A) octets requested, E/A from the negotiated ESP descriptors and A = 0 when integrity is absent", 7)
	ec := c.invokeOnField(gen, 0, "EncrKInfo", "GetKeyLength")
	ac := c.invokeOnField(gen, 0, "IntegKInfo", "GetKeyLength")
	pcalls := c.callsTo(gen, prfPlus)
	// a getter of the immutable descriptor may be called more than once (an accessor inlined twice): every call
	// then has the same linear form (one atom per receiver object), and so have the φ-nodes that select 0 / A
	sameLF := func(cs []*ssa.Call) bool {
		for _, x := range cs[1:] {
			if f.LFOf(x).key() != f.LFOf(cs[0]).key() {
				return false
			}
		}
		return true
	}
	if len(ec) < 1 || len(ac) < 1 || len(pcalls) != 1 || !sameLF(ec) || !sameLF(ac) {
		r.bad(rule1, "key lengths and prf+ call", c.Pos(gen.Pos()), fmt.Sprintf("GetKeyLength calls %d/%d, PrfPlus calls %d", len(ec), len(ac), len(pcalls)))
		return
	}
	stream := pcalls[0]
	E := f.LFOf(ec[0])
	// A is a φ(0, IntegKInfo.GetKeyLength()) selected by IntegKInfo != nil
	var Aval ssa.Value
	okA := false
	for _, acall := range ac {
		for _, ref := range *acall.Referrers() {
			if p, ok := ref.(*ssa.Phi); ok && len(p.Edges) == 2 {
				for _, e := range p.Edges {
					if k, ok := e.(*ssa.Const); ok {
						if v, _ := constInt64(k.Value); v == 0 {
							if Aval == nil || f.LFOf(p).key() == f.LFOf(Aval).key() {
								if Aval == nil {
									Aval = p
									ac[0] = acall
								}
							} else {
								Aval = nil
								r.bad(rule1, "key lengths and prf+ call", c.Pos(gen.Pos()), "two different selections of the integrity key length")
								return
							}
						}
					}
				}
			}
		}
	}
	if Aval != nil {
		// the call must be guarded by IntegKInfo != nil
		for x := ac[0].Block(); x != nil; x = x.Idom() {
			if len(x.Preds) != 1 {
				continue
			}
			pb := x.Preds[0]
			if iff, ok := pb.Instrs[len(pb.Instrs)-1].(*ssa.If); ok {
				if cond, ok := iff.Cond.(*ssa.BinOp); ok && isNilConst(cond.Y) {
					if _, fld, ok := fieldLoad(cond.X); ok && fld == "IntegKInfo" {
						okA = (cond.Op == token.NEQ && pb.Succs[0] == x) || (cond.Op == token.EQL && pb.Succs[1] == x)
					}
				}
			}
		}
	}
	r.Check(okA, rule1, "A = IntegKInfo.GetKeyLength() when integrity is negotiated, else 0", c.InstrPos(ac[0]), "φ(0, GetKeyLength()) selected by IntegKInfo != nil", "the integrity key length is not 0 exactly when no integrity transform is negotiated")
	if Aval == nil {
		return
	}
	A := f.LFOf(Aval)
	total := E.add(A, 1).scale(2)
	r.Check(f.LFOf(stream.Call.Args[2]).key() == total.key(), rule1, "requested length", c.InstrPos(stream), "2(E+A)", "requested "+f.Show(f.LFOf(stream.Call.Args[2]))+", expected 2(E+A) = "+f.Show(total))
	// prf+ on ikeSA.Prf_d with the nonce parameter as seed
	_, fld, isF := fieldLoad(stream.Call.Args[0])
	r.Check(isF && fld == "Prf_d" && paramIndex(gen, stream.Call.Args[1]) == 2, rule1, "KEYMAT = prf+(SK_d, nonce)", c.InstrPos(stream), "PrfPlus(ikeSA.Prf_d, concatenatedNonce, n)", "prf+ is not keyed with the IKE SA's SK_d object and seeded with the nonce parameter")
	if ok, why := c.nilStreamChecked(gen, stream); true {
		r.Check(ok, rule1, "prf+ failure is an error", c.InstrPos(stream), why, why)
	}
	order := []struct {
		name string
		len  LF
	}{{"InitiatorToResponderEncryptionKey", E}, {"InitiatorToResponderIntegrityKey", A}, {"ResponderToInitiatorEncryptionKey", E}, {"ResponderToInitiatorIntegrityKey", A}}
	start := konst(0)
	for _, o := range order {
		end := start.add(o.len, 1)
		var st *ssa.Store
		for _, b := range gen.Blocks {
			for _, ins := range b.Instrs {
				if s, ok := ins.(*ssa.Store); ok {
					if fa, ok := s.Addr.(*ssa.FieldAddr); ok && strings.HasSuffix(FieldKey(fa.X.Type(), fa.Field), "ChildSAKey."+o.name) {
						st = s
					}
				}
			}
		}
		good, detail := false, "never assigned"
		if st != nil {
			detail = "is not a copy of a prf+ slice"
			src := st.Val
			if ap, ok := src.(*ssa.Call); ok {
				if bi, ok := ap.Call.Value.(*ssa.Builtin); ok && bi.Name() == "append" {
					src = ap.Call.Args[1]
				}
			}
			root, lo, hi, open := f.relSpan(src)
			if root == ssa.Value(stream) && open {
				// an open upper end is the end of KEYMAT: fine when the facts at the store make len(KEYMAT) the
				// prescribed end (a length check, or PrfPlus's postcondition)
				facts := f.FactsAt(st.Block())
				ge, _ := f.Prove(hi.add(end, -1), facts)
				le, _ := f.Prove(end.add(hi, -1), facts)
				if ge && le {
					hi, open = end, false
				}
			}
			if root == ssa.Value(stream) && !open {
				if lo.key() == start.key() && hi.key() == end.key() {
					good = true
					detail = fmt.Sprintf("= KEYMAT[%s : %s]", f.Show(start), f.Show(end))
				} else {
					detail = fmt.Sprintf("is KEYMAT[%s : %s] but RFC 7296 2.17 prescribes [%s : %s]", f.Show(lo), f.Show(hi), f.Show(start), f.Show(end))
				}
			}
		}
		pos := c.Pos(gen.Pos())
		if st != nil {
			pos = c.InstrPos(st)
		}
		r.Check(good, rule1, "ChildSAKey."+o.name, pos, detail, detail)
		start = end
	}
	c.prfPlusRules(r, prefix)
	// typestate of Prf_d across derivations: PrfPlus resets before every Write (C17 rule), and nothing else writes to it here
	rule3 := prefix + "prf-d-reusable"
	r.Rule(rule3, "every hash Write reachable from GenerateKeyForChildSA is preceded by Reset on the same object (the SK_d PRF object is long-lived)", 1)
	for _, fn := range c.Reachable(gen) {
		has := false
		for _, b := range fn.Blocks {
			for _, ins := range b.Instrs {
				if ci, ok := ins.(ssa.CallInstruction); ok && ci.Common().IsInvoke() && isHashHash(ci.Common().Value.Type()) && ci.Common().Method.Name() == "Write" {
					has = true
				}
			}
		}
		if has {
			c.hashTypestate(r, rule3, fn)
		}
	}
	_ = types.Typ
}

// seedShapePresized: the returned buffer is make(len(nonce)+16) with the nonce copied to [0:len(nonce)],
// BE64(param 1) at len(nonce) and BE64(param 2) at len(nonce)+8 (buffer families of the encode extractor).
func (c *Ctx) seedShapePresized(fn *ssa.Function) (bool, string) {
	e := c.encodeFamilies(fn)
	f := e.f
	if len(fn.Params) != 3 {
		return false, "unexpected signature"
	}
	nl := f.SliceLen(fn.Params[0])
	for _, fm := range e.order {
		if !fm.Returned || fm.hasAppend() {
			continue
		}
		if fm.InitLen.key() != nl.add(konst(16), 1).key() {
			continue
		}
		okN, ok1, ok2, extra := false, false, false, 0
		for _, sg := range fm.Segs {
			if sg.Kind == "param" && sg.Src == ssa.Value(fn.Params[0]) && sg.At.isConst() && sg.At.C == 0 {
				okN = true
			} else {
				extra++
			}
		}
		isParam := func(bv BV, p ssa.Value) bool {
			if len(bv) < 64 {
				return false
			}
			for i := 0; i < 64; i++ {
				b := bv[i]
				if b.K != bRef || b.Idx != i {
					return false
				}
				l := e.x.leaves[b.Leaf]
				if l.Kind != "param" || l.V != p {
					return false
				}
			}
			return true
		}
		for _, r := range mergeByteRows(fm.Rows) {
			switch {
			case r.Octets == 8 && r.Off.key() == nl.key() && isParam(r.Val, fn.Params[1]):
				ok1 = true
			case r.Octets == 8 && r.Off.key() == nl.add(konst(8), 1).key() && isParam(r.Val, fn.Params[2]):
				ok2 = true
			default:
				extra++
			}
		}
		if okN && ok1 && ok2 && extra == 0 {
			return true, "make(len(nonce)+16): nonce at 0, BE64(spi_initiator) at len(nonce), BE64(spi_responder) at len(nonce)+8"
		}
	}
	return false, "no returned buffer of len(nonce)+16 with nonce | BE64(spi_i) | BE64(spi_r)"
}
