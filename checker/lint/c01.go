package lint

import (
	"fmt"
	"go/token"
	"go/types"
	"strings"

	"ikeverif/checker/xt/ssa"
)

// objectKeyBindingRules: C01 rule 2 / C07 rule 6. Every security object of the SA is built by the
// SA's own descriptor from the SA's own key of the matching name.
func (c *Ctx) objectKeyBindingRules(r *Report, prefix string) {
	rule := prefix + "object-key-binding"
	r.Rule(rule, "GenerateKeyForIKESA builds Prf_d, Integ_i, Integ_r, Encr_i, Encr_r, Prf_i, Prf_r from SK_d, SK_ai, SK_ar, SK_ei, SK_er, SK_pi, SK_pr respectively, through the SA's own PrfInfo/IntegInfo/EncrInfo", 7)
	gen := c.Method("security", "IKESAKey", "GenerateKeyForIKESA")
	if gen == nil {
		r.undecided(rule, "anchor GenerateKeyForIKESA", "-", "anchor does not resolve")
		return
	}
	r.Func(c.FuncName(gen))
	want := map[string][3]string{ // object -> (descriptor field, method, key field)
		"Prf_d":   {"PrfInfo", "Init", "SK_d"},
		"Integ_i": {"IntegInfo", "Init", "SK_ai"},
		"Integ_r": {"IntegInfo", "Init", "SK_ar"},
		"Encr_i":  {"EncrInfo", "NewCrypto", "SK_ei"},
		"Encr_r":  {"EncrInfo", "NewCrypto", "SK_er"},
		"Prf_i":   {"PrfInfo", "Init", "SK_pi"},
		"Prf_r":   {"PrfInfo", "Init", "SK_pr"},
	}
	f := c.NewFA(gen)
	seen := map[string]bool{}
	for _, b := range gen.Blocks {
		for _, ins := range b.Instrs {
			st, ok := ins.(*ssa.Store)
			if !ok {
				continue
			}
			fa, ok := st.Addr.(*ssa.FieldAddr)
			if !ok {
				continue
			}
			pt, _ := fa.X.Type().Underlying().(*types.Pointer)
			if pt == nil {
				continue
			}
			sty, _ := pt.Elem().Underlying().(*types.Struct)
			if sty == nil {
				continue
			}
			name := sty.Field(fa.Field).Name()
			w, ok := want[name]
			if !ok {
				continue
			}
			seen[name] = true
			// value: result 0 of an invoke
			val := st.Val
			// "obj, err = helper(key)" with the helper's failure arm handing back nil: the stored value merges the
			// constructor's result with nil; the field is then either that object or nil (and the error is returned)
			if ph, isPhi := val.(*ssa.Phi); isPhi {
				var only ssa.Value
				n := 0
				for _, e := range ph.Edges {
					if isNilConst(e) {
						continue
					}
					if only != e {
						n++
					}
					only = e
				}
				if n == 1 {
					val = only
				}
			}
			if ex, ok := val.(*ssa.Extract); ok && ex.Index == 0 {
				val = ex.Tuple
			}
			call, ok := val.(*ssa.Call)
			detail := ""
			good := false
			if ok && call.Call.IsInvoke() && call.Call.Method.Name() == w[1] {
				base, dfield, ok1 := fieldLoad(call.Call.Value)
				if ok1 && dfield == w[0] && base == fa.X && len(call.Call.Args) == 1 {
					kb, kfield, ok2 := fieldLoad(call.Call.Args[0])
					if ok2 && kb == fa.X && kfield == w[2] {
						// the key load must see the value stored by this function (no later overwrite before use is possible: same load class as a load right after the store)
						good = true
						detail = fmt.Sprintf("%s = %s.%s(%s)", name, w[0], w[1], w[2])
						_ = f
					} else {
						detail = fmt.Sprintf("%s is keyed with %s, expected %s", name, kfield, w[2])
					}
				} else {
					detail = fmt.Sprintf("%s is built by %s, expected the SA's own %s.%s", name, dfield, w[0], w[1])
				}
			} else {
				detail = name + " is not the result of " + w[0] + "." + w[1]
			}
			// ... on every way to a successful return: an object left over from an earlier derivation (built only
			// when the field is nil) would stay keyed with the earlier key
			if good {
				for _, rb := range gen.Blocks {
					ret, isRet := rb.Instrs[len(rb.Instrs)-1].(*ssa.Return)
					if !isRet || len(ret.Results) == 0 || !isNilConst(ret.Results[len(ret.Results)-1]) {
						continue
					}
					if !st.Block().Dominates(rb) {
						good = false
						detail = fmt.Sprintf("%s is not assigned on every path to the successful return at %s: an object kept from an earlier derivation stays keyed with the earlier key", name, c.InstrPos(ret))
					}
				}
			}
			r.Check(good, rule, "IKESAKey."+name, c.InstrPos(st), detail, detail)
		}
	}
	for name := range want {
		if !seen[name] {
			r.bad(rule, "IKESAKey."+name, c.Pos(gen.Pos()), "GenerateKeyForIKESA never assigns "+name)
		}
	}
}

// RunC01 decides property C01.
func RunC01(c *Ctx, r *Report) {
	prefix := "C01."
	r.Explanation = "Structural necessary conditions of the protected round trip: the sender of role r and the receiver of role not-r select the same cipher and MAC objects (RFC 7296 2.14 table), each object is keyed with its own key, the plain-codec fallbacks are taken exactly when no key is supplied / the first payload is not SK, both header arms hand the same bytes and next-payload value to the chain walker, and the inner chain is linked through Encrypted.NextPayload with exactly L checksum octets appended and stripped."
	r.TrustedBase = append(r.TrustedBase, "go/types and go/ssa (x/tools v0.29.0)", "this checker's dominance / linear-form helpers")
	r.Assumptions = append(r.Assumptions, "both peers hold the same IKESAKey contents", "a pre-parsed header passed to DecodeDecrypt was parsed from the same datagram")
	r.NotDecided = append(r.NotDecided, "that AES-CBC decryption inverts encryption and padding removal inverts padding (C10)", "value-level behaviour of the plain codec (its structural round-trip rules, the rule set of C03, are included under C01.codec.*)", "value-level equality for concrete messages and keys; the nine suites are covered because the rules are suite-independent")
	r.Rule(prefix+"anchor", "every function named by the rules resolves", 0)
	a, ok := c.ikeFuncs(r, prefix)
	if !ok {
		return
	}
	for _, fn := range []*ssa.Function{a.EncodeEncrypt, a.DecodeDecrypt, a.encryptMsg, a.decryptMsg, a.encryptPayload, a.decryptPayload, a.calculateIntegrity, a.verifyIntegrity} {
		r.Func(c.FuncName(fn))
	}
	c.protectTotality(r, prefix)
	c.plainTotality(r, prefix)
	// the padding the sender adds is what the receiver strips: 1..16 octets ending in the pad-length octet, for
	// block-aligned plaintext too (the rule set of C10/C06)
	c.pkcs7Rules(r, prefix)
	// ... and the cipher round trip itself: Encrypt emits IV | CBC(padded), Decrypt takes the first block as IV,
	// decrypts the rest into a fresh buffer and strips pad-length + 1 octets whatever the pad length is
	c.aesCbcEncryptRules(r, prefix)
	c.aesCbcDecryptRules(r, prefix)
	c.wrapOfNilRule(r, prefix+"error.wrap-of-nil", c.Reachable(a.EncodeEncrypt, a.DecodeDecrypt), 20)
	ruleH := prefix + "mac-stateless"
	r.Rule(ruleH, "the checksum of a message is a function of the message alone: every hash Write in calculateIntegrity is preceded by Reset on the same object on every path (the integrity objects are long-lived; Sum does not reset them)", 1)
	c.hashTypestate(r, ruleH, a.calculateIntegrity)
	// rule 1
	c.keyDirectionRules(r, prefix, a)
	// rule 2
	c.objectKeyBindingRules(r, prefix)
	// rule 3: fallbacks
	c.fallbackRules(r, prefix, a)
	c.unprotectGateRule(r, prefix+"unprotect-gate", a)
	c.cipherNoStateRule(r, prefix+"cipher-no-state")
	c.libraryObjectRule(r, prefix+"key-objects-are-library-objects")
	c.registryLengthRules(r, prefix)
	// rule 4: both header arms
	c.headerArmRules(r, prefix, a)
	// rule 5: inner chain linkage
	c.innerChainRules(r, prefix, a)
	c.protectIntactOnFailureRule(r, prefix+"protect.message-intact-on-failure", a)
	// the header and the inner payload chain pass through the plain codec on both ends
	c.plainCodecRules(r, prefix+"codec.")
}

func (c *Ctx) fallbackRules(r *Report, prefix string, a *ikeAnchors) {
	rule := prefix + "fallbacks"
	r.Rule(rule, "EncodeEncrypt protects exactly when a key is supplied and always returns ikeMsg.Encode(); DecodeDecrypt unprotects exactly when the first payload is SK and otherwise returns the plainly decoded message", 4)
	ee := a.EncodeEncrypt
	// encryptMsg call dominated by ikesaKey != nil
	var keyParam *ssa.Parameter
	for _, p := range ee.Params {
		if pt, ok := p.Type().Underlying().(*types.Pointer); ok {
			if nt, ok := pt.Elem().(*types.Named); ok && nt.Obj().Name() == "IKESAKey" {
				keyParam = p
			}
		}
	}
	calls := c.callsTo(ee, a.encryptMsg)
	okGuard := len(calls) == 1 && keyParam != nil
	if okGuard {
		okGuard = dominatedByNonNil(calls[0].Block(), keyParam)
	}
	r.Check(okGuard, rule, "ike.EncodeEncrypt: encryptMsg only with a key", c.Pos(ee.Pos()), "the single call to encryptMsg is dominated by ikesaKey != nil", "encryptMsg is not called exactly once under ikesaKey != nil")
	// every success return returns the result of (*IKEMessage).Encode on the message parameter
	enc := c.Method("message", "IKEMessage", "Encode")
	okRet, n := true, 0
	for _, b := range ee.Blocks {
		ret, ok := b.Instrs[len(b.Instrs)-1].(*ssa.Return)
		if !ok || len(ret.Results) != 2 {
			continue
		}
		if isNilConst(ret.Results[0]) {
			continue // error return
		}
		n++
		ex, ok := ret.Results[0].(*ssa.Extract)
		if !ok {
			okRet = false
			continue
		}
		call, ok := ex.Tuple.(*ssa.Call)
		if !ok || call.Call.StaticCallee() != enc || paramIndex(ee, call.Call.Args[0]) != 0 {
			okRet = false
		}
		// when a key is given, the Encode must come after encryptMsg succeeded
		if len(calls) == 1 {
			cerr := errResult(calls[0])
			// either not reachable from the encryptMsg call (no-key path) or on its nil edge: the merge block has both; accept if the encryptMsg failure edge returns
			if ok2, _ := c.errorChecked(calls[0]); !ok2 || cerr == nil {
				okRet = false
			}
		}
	}
	r.Check(okRet && n > 0, rule, "ike.EncodeEncrypt: result is ikeMsg.Encode()", c.Pos(ee.Pos()), fmt.Sprintf("%d success return(s), each of (*IKEMessage).Encode on the message parameter; encryptMsg failure returns an error", n), "a success return is not the encoding of the message parameter, or an encryptMsg failure is ignored")
	// decode side
	dd := a.DecodeDecrypt
	dcalls := c.callsTo(dd, a.decryptMsg)
	if len(dcalls) == 1 {
		r.Check(c.callDominatedBySKTest(dcalls[0]), rule, "ike.DecodeDecrypt: decryptMsg only when the first payload is SK", c.InstrPos(dcalls[0]), "dominated by len(Payloads) > 0 and Payloads[0].Type() == TypeSK", "the call is not guarded by the SK test on the first payload")
		// a nil key with an SK payload is an error
		plain := false
		for _, b := range dd.Blocks {
			ret, ok := b.Instrs[len(b.Instrs)-1].(*ssa.Return)
			if ok && len(ret.Results) == 2 && isNilConst(ret.Results[1]) && !isNilConst(ret.Results[0]) && !dcalls[0].Block().Dominates(b) {
				plain = true
			}
		}
		r.Check(plain, rule, "ike.DecodeDecrypt: plain fallback", c.Pos(dd.Pos()), "a success return of the decoded message bypasses decryptMsg", "no success return bypasses decryptMsg")
	} else {
		r.bad(rule, "ike.DecodeDecrypt: decryptMsg call", c.Pos(dd.Pos()), fmt.Sprintf("expected one call, found %d", len(dcalls)))
	}
}

// dominatedByNonNil: block b is reached only when v != nil.
func dominatedByNonNil(b *ssa.BasicBlock, v ssa.Value) bool {
	for x := b; x != nil; x = x.Idom() {
		if len(x.Preds) != 1 {
			continue
		}
		p := x.Preds[0]
		iff, ok := p.Instrs[len(p.Instrs)-1].(*ssa.If)
		if !ok {
			continue
		}
		cond, ok := iff.Cond.(*ssa.BinOp)
		if !ok {
			continue
		}
		var other ssa.Value
		if cond.X == v {
			other = cond.Y
		} else if cond.Y == v {
			other = cond.X
		} else {
			continue
		}
		if !isNilConst(other) {
			continue
		}
		onTrue := p.Succs[0] == x
		if (cond.Op == token.NEQ && onTrue) || (cond.Op == token.EQL && !onTrue) {
			return true
		}
	}
	return false
}

// headerArmRules: C01 rule 4.
func (c *Ctx) headerArmRules(r *Report, prefix string, a *ikeAnchors) {
	rule := prefix + "header-arms-agree"
	r.Rule(rule, "with and without a pre-parsed header the chain walker receives the datagram from octet 28 to its end and the header's next-payload field", 5)
	dd := a.DecodeDecrypt
	hl := int64(28)
	if k := c.constInt("message", "IKE_HEADER_LEN"); k != nil {
		hl = *k
	}
	f := c.NewFA(dd)
	decodePayload := c.Method("message", "IKEMessage", "DecodePayload")
	decode := c.Method("message", "IKEMessage", "Decode")
	parse := c.Func("message", "ParseHeader")
	contDecode := c.Method("message", "IKEPayloadContainer", "Decode")
	if decodePayload == nil || decode == nil || parse == nil || contDecode == nil {
		r.undecided(rule, "anchors", "-", "Decode/DecodePayload/ParseHeader/container Decode do not resolve")
		return
	}
	// arm with header: DecodePayload(msg[28:]) and ikeMsg.IKEHeader = ikeHeader
	okArm := false
	detail := "no DecodePayload call in DecodeDecrypt"
	for _, call := range c.callsTo(dd, decodePayload) {
		arg := call.Call.Args[1]
		if sl, ok := arg.(*ssa.Slice); ok && sl.High == nil && sl.Low != nil && paramIndex(dd, sl.X) == 0 {
			if lo := f.LFOf(sl.Low); lo.isConst() && lo.C == hl {
				okArm = true
				detail = fmt.Sprintf("DecodePayload(msg[%d:])", hl)
			} else {
				detail = "payload bytes start at " + f.Show(f.LFOf(sl.Low)) + ", expected " + fmt.Sprint(hl)
			}
		} else {
			detail = "argument of DecodePayload is not msg[IKE_HEADER_LEN:]"
		}
	}
	r.Check(okArm, rule, "ike.DecodeDecrypt: pre-parsed-header arm decodes msg[28:]", c.Pos(dd.Pos()), detail, detail)
	// the header stored is the parameter
	okHdr := false
	for _, b := range dd.Blocks {
		for _, ins := range b.Instrs {
			if st, ok := ins.(*ssa.Store); ok {
				if fa, ok := st.Addr.(*ssa.FieldAddr); ok && FieldKey(fa.X.Type(), fa.Field) == "field:message.IKEMessage.IKEHeader" && paramIndex(dd, st.Val) == 1 {
					okHdr = true
				}
			}
		}
	}
	r.Check(okHdr, rule, "ike.DecodeDecrypt: pre-parsed-header arm uses the supplied header", c.Pos(dd.Pos()), "ikeMsg.IKEHeader = ikeHeader", "the supplied header is not installed in the message")
	// arm without header: Decode(msg)
	okD := false
	for _, call := range c.callsTo(dd, decode) {
		if paramIndex(dd, call.Call.Args[1]) == 0 {
			okD = true
		}
	}
	r.Check(okD, rule, "ike.DecodeDecrypt: nil-header arm decodes the whole datagram", c.Pos(dd.Pos()), "ikeMsg.Decode(msg)", "Decode is not called with the whole datagram")
	// Decode: IKEHeader = ParseHeader(b); DecodePayload(m.PayloadBytes)
	okDec := false
	for _, call := range c.callsTo(decode, decodePayload) {
		if _, fld, ok := fieldLoad(call.Call.Args[1]); ok && fld == "PayloadBytes" {
			okDec = true
		}
	}
	// ... or the walker itself on the parsed header's next-payload value and PayloadBytes (DecodePayload's body
	// shared through a helper)
	for _, call := range c.callsTo(decode, contDecode) {
		if len(call.Call.Args) == 3 {
			_, f1, ok1 := fieldLoad(call.Call.Args[1])
			_, f2, ok2 := fieldLoad(call.Call.Args[2])
			if ok1 && ok2 && f1 == "NextPayload" && f2 == "PayloadBytes" {
				okDec = true
			}
		}
	}
	pcalls := c.callsTo(decode, parse)
	okParse := len(pcalls) == 1 && paramIndex(decode, pcalls[0].Call.Args[0]) == 1
	r.Check(okDec && okParse, rule, "message.(*IKEMessage).Decode: ParseHeader(b) then DecodePayload(header.PayloadBytes)", c.Pos(decode.Pos()), "the header is parsed from the whole datagram and its PayloadBytes are walked", "Decode does not walk the PayloadBytes of the header parsed from its argument")
	// ParseHeader: PayloadBytes = b[28:]
	pf := c.NewFA(parse)
	okPB := false
	for _, b := range parse.Blocks {
		for _, ins := range b.Instrs {
			if st, ok := ins.(*ssa.Store); ok {
				if fa, ok := st.Addr.(*ssa.FieldAddr); ok && FieldKey(fa.X.Type(), fa.Field) == "field:message.IKEHeader.PayloadBytes" {
					if sl, ok := st.Val.(*ssa.Slice); ok && sl.High == nil && sl.Low != nil && paramIndex(parse, sl.X) == 0 {
						if lo := pf.LFOf(sl.Low); lo.isConst() && lo.C == hl {
							okPB = true
						}
					}
				}
			}
		}
	}
	r.Check(okPB, rule, "message.ParseHeader: PayloadBytes = b[28:]", c.Pos(parse.Pos()), "same span as the pre-parsed-header arm", "ParseHeader's PayloadBytes is not b[IKE_HEADER_LEN:]")
	// DecodePayload passes m.NextPayload and b to the container walker
	okNP := false
	for _, call := range c.callsTo(decodePayload, contDecode) {
		_, fld, ok1 := fieldLoad(call.Call.Args[1])
		if ok1 && fld == "NextPayload" && paramIndex(decodePayload, call.Call.Args[2]) == 1 {
			okNP = true
		}
	}
	r.Check(okNP, rule, "message.(*IKEMessage).DecodePayload: walker starts at header.NextPayload over b", c.Pos(decodePayload.Pos()), "Payloads.Decode(m.NextPayload, b)", "the chain walker does not start from the header's next-payload field over the given bytes")
}

// innerChainRules: C01 rule 5.
func (c *Ctx) innerChainRules(r *Report, prefix string, a *ikeAnchors) {
	rule := prefix + "inner-chain"
	r.Rule(rule, "the sender stores the type of the first inner payload (0 for an empty list) in Encrypted.NextPayload and appends L placeholder octets; the receiver starts the inner walk at that field and strips exactly L octets", 5)
	em, dm := a.encryptMsg, a.decryptMsg
	build := c.Method("message", "IKEPayloadContainer", "BuildEncrypted")
	contDecode := c.Method("message", "IKEPayloadContainer", "Decode")
	if build == nil || contDecode == nil {
		r.undecided(rule, "anchors", "-", "BuildEncrypted / container Decode do not resolve")
		return
	}
	ef := c.NewFA(em)
	bcalls := c.callsTo(em, build)
	if len(bcalls) != 1 {
		r.bad(rule, "ike.encryptMsg: BuildEncrypted call", c.Pos(em.Pos()), fmt.Sprintf("expected one call, found %d", len(bcalls)))
		return
	}
	bc := bcalls[0]
	// next payload argument: φ(NoNext | ikePayloads[0].Type()) selected by len(ikePayloads) == 0
	np := bc.Call.Args[1]
	okNP, detail := false, "next-payload argument is not (len(payloads)==0 ? NoNext : payloads[0].Type())"
	if phi, ok := np.(*ssa.Phi); ok && len(phi.Edges) == 2 {
		var constEdge, typeEdge = -1, -1
		for i, e := range phi.Edges {
			if k, ok := e.(*ssa.Const); ok {
				if v, ok := constInt64(k.Value); ok && v == 0 {
					constEdge = i
				}
			}
			if call, ok := e.(*ssa.Call); ok && call.Call.IsInvoke() && call.Call.Method.Name() == "Type" {
				if u, ok := call.Call.Value.(*ssa.UnOp); ok {
					if ia, ok := u.X.(*ssa.IndexAddr); ok {
						if idx := ef.LFOf(ia.Index); idx.isConst() && idx.C == 0 {
							typeEdge = i
						}
					}
				}
			}
		}
		if constEdge >= 0 && typeEdge >= 0 {
			// the const edge must come from the len == 0 branch
			pb := phi.Block().Preds[constEdge]
			facts := append(append([]Fact{}, ef.FactsAt(pb)...), ef.edgeFacts(pb, phi.Block())...)
			// some fact len(x) == 0 / <= 0
			for _, ft := range facts {
				if !ft.NE && len(ft.L.T) == 1 && ft.L.C == 0 {
					for at, k := range ft.L.T {
						if k == -1 && strings.HasPrefix(ef.atoms[at].name, "len(") {
							okNP = true
							detail = "NoNext on the len == 0 edge, payloads[0].Type() otherwise"
						}
					}
				}
			}
		}
	}
	r.Check(okNP, rule, "ike.encryptMsg: SK next payload", c.InstrPos(bc), detail, detail)
	// BuildEncrypted stores its arguments
	bf := build
	okStore := 0
	for _, b := range bf.Blocks {
		for _, ins := range b.Instrs {
			st, ok := ins.(*ssa.Store)
			if !ok {
				continue
			}
			fa, ok := st.Addr.(*ssa.FieldAddr)
			if !ok {
				continue
			}
			switch FieldKey(fa.X.Type(), fa.Field) {
			case "field:message.Encrypted.NextPayload":
				v := st.Val
				if cv, ok := v.(*ssa.Convert); ok {
					v = cv.X
				}
				if ct, ok := v.(*ssa.ChangeType); ok {
					v = ct.X
				}
				if paramIndex(bf, v) == 1 {
					okStore++
				}
			case "field:message.Encrypted.EncryptedData":
				if call, ok := st.Val.(*ssa.Call); ok {
					if bi, ok := call.Call.Value.(*ssa.Builtin); ok && bi.Name() == "append" && paramIndex(bf, call.Call.Args[1]) == 2 {
						okStore++
					}
				}
			}
		}
	}
	// returns the object it appended
	retOK := false
	for _, b := range bf.Blocks {
		if ret, ok := b.Instrs[len(b.Instrs)-1].(*ssa.Return); ok && len(ret.Results) == 1 {
			if al, ok := ret.Results[0].(*ssa.Alloc); ok {
				// appended to *container
				for _, ref := range *al.Referrers() {
					if mi, ok := ref.(*ssa.MakeInterface); ok {
						_ = mi
						retOK = true
					}
				}
			}
		}
	}
	r.Check(okStore == 2 && retOK, rule, "message.BuildEncrypted: fields = arguments, returns the appended payload", c.Pos(bf.Pos()), "NextPayload = uint8(nextPayload), EncryptedData = copy of encryptedData, result is the object appended to the container", "BuildEncrypted does not store its arguments / return the appended payload")
	// placeholder of L octets
	L := c.outputLenCall(em)
	data := bc.Call.Args[2]
	okPH, d2 := false, "data handed to BuildEncrypted is not ciphertext || make([]byte, L)"
	// concatenation normal form: append(cipher, make(L)...) and a buffer of len(cipher)+L filled by copy are the same
	if L != nil {
		if parts, ok := c.concatOf(ef, data, bc, 0); ok {
			parts = dropEmpty(parts)
			if len(parts) == 2 && parts[0].Kind == "slice" && parts[1].Kind == "zeros" && parts[1].Len.key() == ef.LFOf(L).key() {
				if ex, ok := parts[0].Val.(*ssa.Extract); ok && ex.Index == 0 {
					if call, ok := ex.Tuple.(*ssa.Call); ok && call.Call.StaticCallee() == a.encryptPayload {
						okPH = true
						d2 = "data = encryptPayload(...) || Zero(L), L = IntegInfo.GetOutputLength()"
					}
				}
			} else {
				d2 += " (found " + partsString(ef, parts) + ")"
			}
		}
	}
	r.Check(okPH, rule, "ike.encryptMsg: placeholder of exactly L octets", c.InstrPos(bc), d2, d2)
	// receiver: inner walk starts at encryptedPayload.NextPayload; strips L
	df := c.NewFA(dm)
	okWalk := false
	for _, call := range c.callsTo(dm, contDecode) {
		if _, fld, ok := fieldLoad(call.Call.Args[1]); ok && fld == "NextPayload" {
			if bt, ok := call.Call.Args[1].(*ssa.UnOp); ok {
				if fa, ok := bt.X.(*ssa.FieldAddr); ok && strings.HasSuffix(FieldKey(fa.X.Type(), fa.Field), "message.Encrypted.NextPayload") {
					// and the bytes walked are the plaintext from decryptPayload
					if ex, ok := call.Call.Args[2].(*ssa.Extract); ok && ex.Index == 0 {
						if c2, ok := ex.Tuple.(*ssa.Call); ok && c2.Call.StaticCallee() == a.decryptPayload {
							okWalk = true
						}
					}
				}
			}
		}
	}
	r.Check(okWalk, rule, "ike.decryptMsg: inner walk starts at Encrypted.NextPayload over the decrypted bytes", c.Pos(dm.Pos()), "decryptedPayloads.Decode(encryptedPayload.NextPayload, plainText)", "the inner chain is not walked from the SK payload's next-payload field over decryptPayload's result")
	Ld := c.outputLenCall(dm)
	okStrip := false
	d3 := "the ciphertext handed to decryptPayload is not EncryptedData[:len-L]"
	for _, call := range c.callsTo(dm, a.decryptPayload) {
		if sl, ok := call.Call.Args[0].(*ssa.Slice); ok && sl.Low == nil && sl.High != nil && Ld != nil {
			if _, fld, ok := fieldLoad(sl.X); ok && fld == "EncryptedData" {
				want := df.SliceLen(sl.X).add(df.LFOf(Ld), -1)
				if df.LFOf(sl.High).key() == want.key() {
					okStrip = true
					d3 = "ciphertext = EncryptedData[:len-L]"
				} else {
					d3 = "upper bound is " + df.Show(df.LFOf(sl.High)) + ", expected " + df.Show(want)
				}
			}
		}
	}
	r.Check(okStrip, rule, "ike.decryptMsg: strips exactly L octets", c.Pos(dm.Pos()), d3, d3)
}

// unprotectGateRule: DecodeDecrypt hands back a message without verifying it only when the message carries
// no leading SK payload. Every success return is either inside the region guarded by "first payload is SK"
// and then behind the nil-error edge of decryptMsg, or outside it and then dominated by the evaluation of
// that very test (so that no other condition - an exchange type, a flag, a message id - can open a way
// around the checksum).
func (c *Ctx) unprotectGateRule(r *Report, rule string, a *ikeAnchors) {
	r.Rule(rule, "every success return of DecodeDecrypt is behind the nil-error edge of decryptMsg, or is reached only through the evaluation of the 'first payload is SK' test on its false side; no other condition decides whether a datagram is unprotected", 1)
	dd := a.DecodeDecrypt
	dcalls := c.callsTo(dd, a.decryptMsg)
	if len(dcalls) != 1 {
		r.bad(rule, "ike.DecodeDecrypt: decryptMsg call", c.Pos(dd.Pos()), fmt.Sprintf("expected one call, found %d", len(dcalls)))
		return
	}
	call := dcalls[0]
	skConst := c.constInt("message", "TypeSK")
	var first, skTrue *ssa.BasicBlock // block of the first test of the gate; successor on the SK side
	for b := call.Block(); b != nil; b = b.Idom() {
		if len(b.Preds) != 1 {
			continue
		}
		p := b.Preds[0]
		cond, ok := edgeComparison(p, b)
		if !ok {
			continue
		}
		switch cond.Op {
		case token.EQL:
			if cl, ok := cond.X.(*ssa.Call); ok && cl.Call.IsInvoke() && cl.Call.Method.Name() == "Type" {
				if k, ok := cond.Y.(*ssa.Const); ok && skConst != nil {
					if v, _ := constInt64(k.Value); v == *skConst {
						skTrue = b
						if first == nil {
							first = p
						}
					}
				}
			}
		case token.GTR, token.NEQ:
			if cl, ok := cond.X.(*ssa.Call); ok {
				if bi, ok := cl.Call.Value.(*ssa.Builtin); ok && bi.Name() == "len" {
					first = p // the length test precedes the type test
				}
			}
		}
	}
	if skTrue == nil || first == nil {
		r.undecided(rule, "ike.DecodeDecrypt: SK gate", c.InstrPos(call), "cannot find the 'first payload is SK' test that guards decryptMsg")
		return
	}
	errV := errResult(call)
	n := 0
	for _, b := range dd.Blocks {
		ret, ok := b.Instrs[len(b.Instrs)-1].(*ssa.Return)
		if !ok || len(ret.Results) != 2 || !isNilConst(ret.Results[1]) || isNilConst(ret.Results[0]) {
			continue
		}
		n++
		key := fmt.Sprintf("ike.DecodeDecrypt: success return #%d", n)
		if skTrue.Dominates(b) {
			r.Check(errV != nil && onNilErrEdge(errV, b), rule, key, c.InstrPos(ret), "inside the SK region, behind decryptMsg's nil-error edge", "a success return inside the SK region is not behind the nil-error edge of decryptMsg: a protected message is returned unverified")
		} else {
			r.Check(first.Dominates(b), rule, key, c.InstrPos(ret), "reached only through the SK test (false side or after decryptMsg succeeded)", "a success return is reachable without evaluating the 'first payload is SK' test: another condition lets a datagram bypass verification")
		}
	}
	if n == 0 {
		r.bad(rule, "ike.DecodeDecrypt: success returns", c.Pos(dd.Pos()), "none found")
	}
}
