package lint

import (
	"go/constant"
	"go/token"
	"go/types"

	"ikeverif/checker/xt/ssa"
)

// Closed-world field tables (DESIGN 3.2): for a struct field of a module type, the set of values
// non-test module code ever stores into it.
type fieldStores struct {
	stores   []*ssa.Store
	allConst bool
	ints     []int64
}

func (c *Ctx) fieldStoreTable() map[string]*fieldStores {
	if c.fieldTab != nil {
		return c.fieldTab
	}
	tab := map[string]*fieldStores{}
	c.fieldTab = tab
	for _, fn := range c.ModFuncs {
		for _, b := range fn.Blocks {
			for _, ins := range b.Instrs {
				st, ok := ins.(*ssa.Store)
				if !ok {
					continue
				}
				fa, ok := st.Addr.(*ssa.FieldAddr)
				if !ok {
					continue
				}
				k := FieldKey(fa.X.Type(), fa.Field)
				fs := tab[k]
				if fs == nil {
					fs = &fieldStores{allConst: true}
					tab[k] = fs
				}
				fs.stores = append(fs.stores, st)
				if cv, ok := st.Val.(*ssa.Const); ok && cv.Value != nil && cv.Value.Kind() == constant.Int {
					if i, ok := constant.Int64Val(cv.Value); ok {
						fs.ints = append(fs.ints, i)
						continue
					}
				}
				fs.allConst = false
			}
		}
	}
	return tab
}

// addrOfFieldEscapes reports whether &x.F of the given field is ever used other than as the
// address of a load or store (then it could be written through an alias we do not track).
func (c *Ctx) addrOfFieldEscapes(key string) bool {
	if c.fieldEsc == nil {
		c.fieldEsc = map[string]bool{}
		for _, fn := range c.ModFuncs {
			for _, b := range fn.Blocks {
				for _, ins := range b.Instrs {
					fa, ok := ins.(*ssa.FieldAddr)
					if !ok {
						continue
					}
					k := FieldKey(fa.X.Type(), fa.Field)
					for _, ref := range *fa.Referrers() {
						switch r := ref.(type) {
						case *ssa.UnOp:
							if r.Op == token.MUL {
								continue
							}
						case *ssa.Store:
							if r.Addr == ssa.Value(fa) {
								continue
							}
						case *ssa.FieldAddr, *ssa.IndexAddr:
							continue // address of a sub-object: a different key
						case *ssa.DebugRef:
							continue
						}
						c.fieldEsc[k] = true
					}
				}
			}
		}
	}
	return c.fieldEsc[key]
}

// FieldIntRange: interval of the values an unexported integer field of a module struct can hold
// (stores of constants only, plus the zero value). ok=false when some store is not a constant,
// the field is exported (callers may set it) or its address escapes.
func (c *Ctx) FieldIntRange(structT types.Type, idx int) (lo, hi int64, ok bool) {
	if p, isP := structT.Underlying().(*types.Pointer); isP {
		structT = p.Elem()
	}
	st, isS := structT.Underlying().(*types.Struct)
	if !isS || idx >= st.NumFields() {
		return 0, 0, false
	}
	fld := st.Field(idx)
	if fld.Exported() || fld.Pkg() == nil || c.SSAPkgs[fld.Pkg().Path()] == nil {
		return 0, 0, false
	}
	k := FieldKey(structT, idx)
	if c.addrOfFieldEscapes(k) {
		return 0, 0, false
	}
	fs := c.fieldStoreTable()[k]
	lo, hi = 0, 0 // zero value
	if fs == nil {
		return lo, hi, true
	}
	if !fs.allConst {
		return 0, 0, false
	}
	for _, v := range fs.ints {
		if v < lo {
			lo = v
		}
		if v > hi {
			hi = v
		}
	}
	return lo, hi, true
}

// FieldNeverStored reports whether no non-test module code stores to the field and its address
// does not escape: under the assumption that objects are built by the library's constructors the
// field then always holds its zero value.
func (c *Ctx) FieldNeverStored(structT types.Type, idx int) bool {
	k := FieldKey(structT, idx)
	if c.addrOfFieldEscapes(k) {
		return false
	}
	fs := c.fieldStoreTable()[k]
	return fs == nil || len(fs.stores) == 0
}

// condKnown decides a branch condition from closed-world nil-ness of never-stored fields.
// Returns (value, assumption text, decided).
func (c *Ctx) condKnown(cond ssa.Value) (bool, string, bool) {
	b, ok := cond.(*ssa.BinOp)
	if !ok || (b.Op != token.EQL && b.Op != token.NEQ) {
		return false, "", false
	}
	x, y := b.X, b.Y
	if isNilConst(x) {
		x, y = y, x
	}
	if !isNilConst(y) {
		return false, "", false
	}
	u, ok := x.(*ssa.UnOp)
	if !ok || u.Op != token.MUL {
		return false, "", false
	}
	fa, ok := u.X.(*ssa.FieldAddr)
	if !ok {
		return false, "", false
	}
	if !c.FieldNeverStored(fa.X.Type(), fa.Field) {
		return false, "", false
	}
	k := FieldKey(fa.X.Type(), fa.Field)
	return b.Op == token.EQL, k + " is never assigned by non-test module code, so it is nil on objects built by the library's constructors", true
}

func isNilConst(v ssa.Value) bool {
	c, ok := v.(*ssa.Const)
	return ok && c.Value == nil && !isNumericOrString(c.Type())
}

func isNumericOrString(t types.Type) bool {
	b, ok := t.Underlying().(*types.Basic)
	return ok && b.Info()&(types.IsNumeric|types.IsString|types.IsBoolean) != 0
}

// DeadBlocks returns the blocks of fn that are unreachable under the closed-world branch
// decisions, together with the assumptions used.
func (c *Ctx) DeadBlocks(fn *ssa.Function) (map[*ssa.BasicBlock]bool, []string) {
	live := map[*ssa.BasicBlock]bool{}
	var assum []string
	seenA := map[string]bool{}
	if len(fn.Blocks) == 0 {
		return nil, nil
	}
	var visit func(b *ssa.BasicBlock)
	visit = func(b *ssa.BasicBlock) {
		if live[b] {
			return
		}
		live[b] = true
		if iff, ok := b.Instrs[len(b.Instrs)-1].(*ssa.If); ok {
			if val, why, ok := c.condKnown(iff.Cond); ok {
				if !seenA[why] {
					seenA[why] = true
					assum = append(assum, why)
				}
				if val {
					visit(b.Succs[0])
				} else {
					visit(b.Succs[1])
				}
				return
			}
		}
		for _, s := range b.Succs {
			visit(s)
		}
	}
	visit(fn.Blocks[0])
	if fn.Recover != nil {
		visit(fn.Recover)
	}
	dead := map[*ssa.BasicBlock]bool{}
	for _, b := range fn.Blocks {
		if !live[b] {
			dead[b] = true
		}
	}
	return dead, assum
}

// LiveDominates: every path from the entry to b that avoids dead blocks passes through a.
func (f *FA) LiveDominates(a, b *ssa.BasicBlock) bool {
	if a == b {
		return true
	}
	if len(f.Fn.Blocks) == 0 {
		return false
	}
	seen := map[*ssa.BasicBlock]bool{}
	st := []*ssa.BasicBlock{f.Fn.Blocks[0]}
	for len(st) > 0 {
		x := st[len(st)-1]
		st = st[:len(st)-1]
		if seen[x] || f.Dead[x] || x == a {
			continue
		}
		seen[x] = true
		if x == b {
			return false
		}
		st = append(st, x.Succs...)
	}
	return true
}

// LiveDominatesInstr is LiveDominates at instruction granularity.
func (f *FA) LiveDominatesInstr(a, b ssa.Instruction) bool {
	if a.Block() == b.Block() {
		return instrIndex(a) <= instrIndex(b)
	}
	return f.LiveDominates(a.Block(), b.Block())
}

// OnNilErrEdgeLive: block b is reached (over live blocks) only after errV was found nil.
func (f *FA) OnNilErrEdgeLive(errV ssa.Value, b *ssa.BasicBlock) bool {
	for _, t := range errTests(errV) {
		if t.nilSucc == t.nonNil {
			continue
		}
		// all live predecessors of nilSucc other than the test block must be dead
		ok := true
		for _, p := range t.nilSucc.Preds {
			if p != t.blk && !f.Dead[p] {
				ok = false
			}
		}
		if ok && f.LiveDominates(t.nilSucc, b) {
			return true
		}
	}
	return false
}
