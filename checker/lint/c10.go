package lint

import (
	"fmt"
	"go/token"
	"go/types"
	"strings"

	"ikeverif/checker/xt/ssa"
)

// divisibleBy decides l ≡ 0 (mod m) using the identity X ≡ (X % m): every atom that is the
// structurally numbered remainder (X % m) is replaced by X, then all coefficients and the constant
// must be multiples of m.
func (f *FA) divisibleBy(l LF, m int64) bool {
	sub := konst(l.C)
	for a, k := range l.T {
		name := f.atoms[a].name
		replaced := false
		// remainder atoms are keyed "%:int:(<key of X>),(<m>)"
		for key, id := range f.byKey {
			if id != a || !strings.HasPrefix(key, "%:") {
				continue
			}
			// find X by matching keys of known linear forms: search memo for a BinOp REM producing this atom
			for v, lf := range f.lfMemo {
				bo, ok := v.(*ssa.BinOp)
				if !ok || bo.Op != token.REM {
					continue
				}
				if id2, ok := singleAtom(lf); ok && id2 == a {
					if d := f.LFOf(bo.Y); d.isConst() && d.C == m {
						sub = sub.add(f.LFOf(bo.X), k)
						replaced = true
					}
				}
				if replaced {
					break
				}
			}
		}
		_ = name
		if !replaced {
			sub = sub.add(LF{T: map[int]int64{a: 1}}, k)
		}
	}
	if sub.C%m != 0 {
		return false
	}
	for _, k := range sub.T {
		if k%m != 0 {
			return false
		}
	}
	return true
}

// pkcs7Rules: C10 rule 4 / C06 rule 7.
func (c *Ctx) pkcs7Rules(r *Report, prefix string) {
	rule := prefix + "padding"
	r.Rule(rule, "PKCS7Padding (block size bound to the constant every caller passes) appends p octets with 1 <= p <= block size, the last of which is p-1, making the length a multiple of the block size; a random-source failure is an error", 6)
	fn := c.Func("security/lib", "PKCS7Padding")
	if fn == nil {
		r.undecided(rule, "anchor lib.PKCS7Padding", "-", "anchor does not resolve")
		return
	}
	r.Func(c.FuncName(fn))
	// block size at every call site
	bs := int64(-1)
	sites := c.CallersOf(fn)
	okBS := len(sites) > 0
	for _, s := range sites {
		k, ok := s.Common().Args[1].(*ssa.Const)
		if !ok {
			okBS = false
			continue
		}
		v, _ := constInt64(k.Value)
		if bs >= 0 && bs != v {
			okBS = false
		}
		bs = v
	}
	r.Check(okBS && bs == 16, rule, "block size is the AES block size at every call site", c.Pos(fn.Pos()), fmt.Sprintf("%d call site(s), each passes the constant %d", len(sites), bs), "a call site passes a block size that is not the constant 16")
	if bs <= 0 {
		return
	}
	f := c.NewFA(fn)
	// bind the parameter
	var bsParam *ssa.Parameter
	for _, p := range fn.Params {
		if _, _, isInt := f.typeRange(p.Type()); isInt {
			bsParam = p
		}
	}
	if bsParam == nil {
		r.undecided(rule, "block size parameter", c.Pos(fn.Pos()), "no integer parameter")
		return
	}
	f.lfMemo[bsParam] = konst(bs)
	var mk ssa.Value // the padding buffer: make([]byte, p), or a merge of that and a local array cut to [:p]
	var mkLen ssa.Value
	var ret *ssa.Return
	for _, b := range fn.Blocks {
		for _, ins := range b.Instrs {
			if m, ok := ins.(*ssa.MakeSlice); ok {
				mk, mkLen = m, m.Len
			}
			if rt, ok := ins.(*ssa.Return); ok && isNilConst(rt.Results[1]) {
				ret = rt
			}
		}
	}
	if ret != nil {
		// what is appended to the plaintext, when it merges buffers of one length p that all belong to this call
		if ap := isAppendCall(ret.Results[0]); ap != nil {
			if ph, ok := ap.Call.Args[1].(*ssa.Phi); ok && isByteSlice(ph.Type()) {
				var n ssa.Value
				okAll := true
				for _, e := range ph.Edges {
					var l ssa.Value
					switch x := e.(type) {
					case *ssa.MakeSlice:
						l = x.Len
					case *ssa.Slice:
						if al, isAl := x.X.(*ssa.Alloc); isAl && x.Low == nil && x.High != nil {
							if _, isArr := arrayLen(al.Type()); isArr {
								l = x.High
							}
						}
					}
					if l == nil || (n != nil && n != l) {
						okAll = false
						break
					}
					n = l
				}
				if okAll && n != nil {
					mk, mkLen = ph, n
				}
			}
		}
	}
	if mk == nil || ret == nil {
		r.bad(rule, "padding buffer", c.Pos(fn.Pos()), "no make([]byte, padding) / success return found")
		return
	}
	mkIns := mk.(ssa.Instruction)
	pad := f.LFOf(mkLen)
	facts := f.FactsAt(mkIns.Block())
	lo1, _ := f.Prove(pad.add(konst(1), -1), facts)
	hi1, _ := f.Prove(konst(bs).add(pad, -1), facts)
	plo, phi := f.bounds(pad, f.refine(facts))
	r.Check(lo1 && hi1, rule, "1 <= p <= 16", c.InstrPos(mkIns), fmt.Sprintf("interval of the pad count is [%d, %d]", plo, phi), fmt.Sprintf("the pad count may lie outside [1, 16]: interval [%d, %d]", plo, phi))
	// result = append(plainText param, paddingText...)
	ap := isAppendCall(ret.Results[0])
	okAp := ap != nil && paramIndex(fn, ap.Call.Args[0]) == 0 && ap.Call.Args[1] == mk
	r.Check(okAp, rule, "result = plaintext | padding", c.InstrPos(ret), "append(plainText, paddingText...)", "the result is not the plaintext followed by the padding buffer")
	// last octet = p - 1
	okLast := false
	for _, ref := range *mk.Referrers() {
		ia, ok := ref.(*ssa.IndexAddr)
		if !ok {
			continue
		}
		if f.LFOf(ia.Index).key() != pad.add(konst(1), -1).key() {
			continue
		}
		for _, r2 := range *ia.Referrers() {
			st, ok := r2.(*ssa.Store)
			if !ok {
				continue
			}
			v := st.Val
			if cv, ok := v.(*ssa.Convert); ok {
				v = cv.X
			}
			if f.LFOf(v).key() == pad.add(konst(1), -1).key() && st.Block().Dominates(ret.Block()) {
				okLast = true
			}
		}
	}
	r.Check(okLast, rule, "last octet = p - 1 (pad length excludes itself)", c.InstrPos(mkIns), "paddingText[p-1] = byte(p-1) on the way to the return", "the pad-length octet is not p-1 at the last position")
	// length multiple of 16
	total := f.SliceLen(fn.Params[0]).add(pad, 1)
	// pad is a φ(16 - r, 16): check both edges
	div := false
	if phiV, ok := mkLen.(*ssa.Phi); ok {
		div = true
		for _, e := range phiV.Edges {
			t := f.SliceLen(fn.Params[0]).add(f.LFOf(e), 1)
			// the edge "padding = blockSize" is taken only when padding0 == 0, i.e. never adds a non-multiple: on that edge len + 0 was a multiple
			if !f.divisibleBy(t, bs) {
				// e == blockSize on the padding==0 edge: len + (16 - r) == len + 0 there, so len ≡ 0
				if le := f.LFOf(e); le.isConst() && le.C == bs {
					continue
				}
				div = false
			}
		}
	} else {
		div = f.divisibleBy(total, bs)
	}
	r.Check(div, rule, "len(plaintext) + p is a multiple of 16", c.InstrPos(mkIns), "p = 16 - len % 16 (remainder identity)", "the padded length is not provably a multiple of the block size")
	// rand.Read (or io.ReadFull(rand.Reader, ...), which is what rand.Read is) with its error checked
	nSrc := 0
	for _, b := range fn.Blocks {
		for _, ins := range b.Instrs {
			if call := staticCallTo(valueOf(ins), "crypto/rand.Read"); call != nil {
				nSrc++
				ok, why := c.errorChecked(call)
				r.Check(ok, rule, "random-source failure is an error", c.InstrPos(call), why, why)
				r.Check(call.Call.Args[0] == mk, rule, "padding octets come from crypto/rand", c.InstrPos(call), "rand.Read(paddingText)", "the random octets are not read into the padding buffer")
			}
			if call := staticCallTo(valueOf(ins), "io.ReadFull"); call != nil && len(call.Call.Args) == 2 && isCryptoRandReader(call.Call.Args[0]) {
				nSrc++
				ok, why := c.errorChecked(call)
				r.Check(ok, rule, "random-source failure is an error", c.InstrPos(call), why, why)
				r.Check(call.Call.Args[1] == mk, rule, "padding octets come from crypto/rand", c.InstrPos(call), "io.ReadFull(rand.Reader, paddingText)", "the random octets are not read into the padding buffer")
			}
		}
	}
	if nSrc == 0 {
		r.bad(rule, "padding octets come from crypto/rand", c.Pos(fn.Pos()), "neither rand.Read nor io.ReadFull(rand.Reader, ...) fills the padding buffer")
	}
}

// isCryptoRandReader: v is crypto/rand.Reader (loaded, possibly wrapped into an interface).
func isCryptoRandReader(v ssa.Value) bool {
	if mi, ok := v.(*ssa.MakeInterface); ok {
		v = mi.X
	}
	u, ok := v.(*ssa.UnOp)
	if !ok {
		return false
	}
	g, ok := u.X.(*ssa.Global)
	return ok && g.Pkg != nil && g.Pkg.Pkg.Path() == "crypto/rand" && g.Name() == "Reader"
}

// liveEdgeValue returns the unique incoming value of φ from a live predecessor, or v itself.
func liveEdgeValue(f *FA, v ssa.Value) ssa.Value {
	phi, ok := v.(*ssa.Phi)
	if !ok {
		return v
	}
	var live []ssa.Value
	for i, e := range phi.Edges {
		if !f.predDead(phi.Block(), i) {
			live = append(live, e)
		}
	}
	if len(live) == 1 {
		return live[0]
	}
	return v
}

// aesCbcEncryptRules: C10 rule 2 / C06 rule 6.
func (c *Ctx) aesCbcEncryptRules(r *Report, prefix string) {
	rule := prefix + "encrypt-shape"
	r.Rule(rule, "Encrypt (production arm): output = make(16 + len(padded)); out[:16] is filled by io.ReadFull(crypto/rand.Reader) with its error checked and is the IV handed to NewCBCEncrypter; CryptBlocks(out[16:], padded); the whole buffer is returned; padded = PKCS7Padding(plaintext, 16)", 6)
	nt := c.NamedType("security/IKECrypto", "IKECrypto")
	if nt == nil {
		r.undecided(rule, "anchor IKECrypto", "-", "anchor does not resolve")
		return
	}
	pk := c.Func("security/lib", "PKCS7Padding")
	for _, T := range c.Implementers(nt.Underlying().(*types.Interface)) {
		fn := c.methodOf(T, "Encrypt")
		if fn == nil {
			continue
		}
		r.Func(c.FuncName(fn))
		f := c.NewFA(fn)
		name := c.FuncName(fn)
		var enc, crypt, readFull *ssa.Call
		for _, b := range fn.Blocks {
			if f.Dead[b] {
				continue
			}
			for _, ins := range b.Instrs {
				call, ok := ins.(*ssa.Call)
				if !ok {
					continue
				}
				if cal := call.Call.StaticCallee(); cal != nil {
					switch cal.String() {
					case "crypto/cipher.NewCBCEncrypter":
						enc = call
					case "io.ReadFull":
						readFull = call
					}
				}
				if call.Call.IsInvoke() && call.Call.Method.Name() == "CryptBlocks" {
					crypt = call
				}
			}
		}
		if enc == nil || crypt == nil || readFull == nil {
			r.bad(rule, name+": NewCBCEncrypter / CryptBlocks / io.ReadFull", c.Pos(fn.Pos()), "one of the three calls is missing on the production arm")
			continue
		}
		// IV
		iv := liveEdgeValue(f, enc.Call.Args[1])
		root, lo, hi, open := f.relSpan(iv)
		mk, isMk := root.(*ssa.MakeSlice)
		okIV := isMk && !open && lo.isConst() && lo.C == 0 && hi.isConst() && hi.C == 16
		r.Check(okIV, rule, name+": IV = out[:16]", c.InstrPos(enc), "the IV handed to the encrypter is the first block of the output buffer", "the IV handed to NewCBCEncrypter is not the first 16 octets of the output buffer")
		// ReadFull(rand.Reader, iv)
		okRF := readFull.Call.Args[1] == iv
		if mi, ok := readFull.Call.Args[0].(*ssa.MakeInterface); ok {
			if u, ok := mi.X.(*ssa.UnOp); ok {
				g, ok := u.X.(*ssa.Global)
				if !ok || g.Pkg.Pkg.Path() != "crypto/rand" || g.Name() != "Reader" {
					okRF = false
				}
			} else {
				okRF = false
			}
		} else if u, ok := readFull.Call.Args[0].(*ssa.UnOp); ok {
			g, ok := u.X.(*ssa.Global)
			if !ok || g.Pkg.Pkg.Path() != "crypto/rand" || g.Name() != "Reader" {
				okRF = false
			}
		} else {
			okRF = false
		}
		r.Check(okRF && f.LiveDominatesInstr(readFull, enc), rule, name+": IV drawn per call from crypto/rand", c.InstrPos(readFull), "io.ReadFull(rand.Reader, out[:16]) precedes the encrypter", "the IV slot is not filled from crypto/rand.Reader before encryption")
		ok2, why := c.errorChecked(readFull)
		r.Check(ok2, rule, name+": random-source failure is an error", c.InstrPos(readFull), why, why)
		// padded
		var padded ssa.Value
		okPad := false
		src := liveEdgeValue(f, crypt.Call.Args[1])
		if ex, ok := src.(*ssa.Extract); ok && ex.Index == 0 {
			if pc, ok := ex.Tuple.(*ssa.Call); ok && pc.Call.StaticCallee() == pk && pk != nil && paramIndex(fn, pc.Call.Args[0]) == 1 {
				padded = src
				okPad = f.OnNilErrEdgeLive(errResult(pc), crypt.Block())
			}
		}
		r.Check(okPad, rule, name+": plaintext is PKCS7-padded", c.InstrPos(crypt), "CryptBlocks source = PKCS7Padding(plainText, 16) on its nil-error edge", "the data encrypted is not the padded plaintext parameter")
		// buffer size and destination
		okBuf := false
		if isMk && padded != nil {
			want := f.SliceLen(padded).add(konst(16), 1)
			droot, dlo, _, dopen := f.relSpan(crypt.Call.Args[0])
			okBuf = f.LFOf(mk.Len).key() == want.key() && droot == root && dopen && dlo.isConst() && dlo.C == 16
		}
		r.Check(okBuf, rule, name+": out = IV(16) | CBC(padded)", c.InstrPos(crypt), "make(16+len(padded)); CryptBlocks(out[16:], padded)", "the ciphertext is not written to out[16:] of a 16+len(padded) buffer")
		// return
		okRet := false
		for _, b := range fn.Blocks {
			if ret, ok := b.Instrs[len(b.Instrs)-1].(*ssa.Return); ok && isNilConst(ret.Results[1]) {
				okRet = ret.Results[0] == root && dominatesInstr(crypt, ret)
			}
		}
		r.Check(okRet, rule, name+": returns the whole buffer", c.Pos(fn.Pos()), "return out, nil after CryptBlocks", "the value returned is not the IV||ciphertext buffer")
		// block cipher object
		_, fld, isF := fieldLoad(enc.Call.Args[0])
		r.Check(isF && fld == "Block", rule, name+": keyed block cipher of the object", c.InstrPos(enc), "NewCBCEncrypter(encr.Block, iv)", "the block cipher is not the object's own keyed AES")
	}
}

// aesCbcDecryptRules: C10 rule 5 / C06 rule 8.
func (c *Ctx) aesCbcDecryptRules(r *Report, prefix string) {
	rule := prefix + "decrypt-shape"
	r.Rule(rule, "Decrypt: IV = in[:16]; plaintext buffer = CBC-decrypt(in[16:]); result = buffer[:len - (last octet + 1)]; no other pad octet is inspected", 4)
	nt := c.NamedType("security/IKECrypto", "IKECrypto")
	if nt == nil {
		r.undecided(rule, "anchor IKECrypto", "-", "anchor does not resolve")
		return
	}
	for _, T := range c.Implementers(nt.Underlying().(*types.Interface)) {
		fn := c.methodOf(T, "Decrypt")
		if fn == nil {
			continue
		}
		r.Func(c.FuncName(fn))
		f := c.NewFA(fn)
		name := c.FuncName(fn)
		var dec, crypt *ssa.Call
		for _, b := range fn.Blocks {
			if f.Dead[b] {
				continue
			}
			for _, ins := range b.Instrs {
				call, ok := ins.(*ssa.Call)
				if !ok {
					continue
				}
				if cal := call.Call.StaticCallee(); cal != nil && cal.String() == "crypto/cipher.NewCBCDecrypter" {
					dec = call
				}
				if call.Call.IsInvoke() && call.Call.Method.Name() == "CryptBlocks" {
					crypt = call
				}
			}
		}
		if dec == nil || crypt == nil {
			r.bad(rule, name+": NewCBCDecrypter / CryptBlocks", c.Pos(fn.Pos()), "missing")
			continue
		}
		in := fn.Params[1]
		iv := liveEdgeValue(f, dec.Call.Args[1])
		root, lo, hi, open := f.relSpan(iv)
		r.Check(root == ssa.Value(in) && !open && lo.isConst() && lo.C == 0 && hi.isConst() && hi.C == 16, rule, name+": IV = in[:16]", c.InstrPos(dec), "first block of the input", "the IV is not the first 16 octets of the input")
		sroot, slo, _, sopen := f.relSpan(crypt.Call.Args[1])
		buf, isMk := crypt.Call.Args[0].(*ssa.MakeSlice)
		okC := sroot == ssa.Value(in) && sopen && slo.isConst() && slo.C == 16 && isMk && f.LFOf(buf.Len).key() == f.SliceLen(crypt.Call.Args[1]).key()
		r.Check(okC, rule, name+": buffer = CBC-decrypt(in[16:])", c.InstrPos(crypt), "CryptBlocks(make(len(in)-16), in[16:])", "the decrypted span is not in[16:] into a fresh buffer of the same length")
		if !isMk {
			continue
		}
		// result (followed into a helper the buffer is handed to: return strip(buffer))
		okR, detail, nLoads := c.stripShape(fn, buf, 0)
		r.Check(okR, rule, name+": strips last octet + 1", c.Pos(fn.Pos()), detail, detail)
		r.Check(nLoads == 1, rule, name+": any pad content is accepted", c.Pos(fn.Pos()), "exactly one octet of the decrypted buffer is inspected (the pad length)", fmt.Sprintf("%d octets of the decrypted buffer are inspected", nLoads))
		// every legal pad length is accepted: no failure exit of Decrypt is reachable for IV | n >= 1 blocks whose
		// last decrypted octet p leaves p + 1 <= 16 n octets to strip (RFC 7296 3.14: the receiver accepts any pad
		// length, not only the minimal one)
		in = fn.Params[1]
		recv := fn.Params[0].Name()
		spec := &domSpec{ExactLenParam: -1, LenDom: map[string][2]int64{in.Name(): {32, INF}},
			// the object NewCrypto builds: a keyed AES block (block size 16), no injected IV
			NonNil: map[string]bool{recv: true, recv + ".Block": true}, IsNil: map[string]bool{recv + ".Iv": true},
			CallVals: map[string][]int64{"BlockSize": {16}}, EnvErr: map[string]string{},
			Rel: func(f *FA) []Fact {
				var out []Fact
				inLen := f.SliceLen(fn.Params[1])
				for _, b := range f.Fn.Blocks {
					for _, ins := range b.Instrs {
						switch x := ins.(type) {
						case *ssa.Call:
							// the block size of the keyed AES object is 16
							if x.Call.IsInvoke() && x.Call.Method.Name() == "BlockSize" {
								l := f.LFOf(x)
								out = append(out, Fact{L: l.add(konst(16), -1)}, Fact{L: konst(16).add(l, -1)})
							}
						case *ssa.BinOp:
							// (len(in) - 16k) % 16 == 0 on the domain
							if x.Op != token.REM {
								continue
							}
							k, isK := x.Y.(*ssa.Const)
							if !isK || k.Value == nil {
								continue
							}
							if kv, ok := constInt64(k.Value); !ok || kv != 16 {
								continue
							}
							d := f.LFOf(x.X).add(inLen, -1)
							if d.isConst() && d.C%16 == 0 {
								l := f.LFOf(x)
								out = append(out, Fact{L: l}, Fact{L: l.scale(-1)})
							}
						case *ssa.UnOp:
							// the pad-length octet: buffer[len(buffer)-1] + 1 <= len(buffer)
							base, idx, ok := isElemLoadAny(x)
							if !ok {
								continue
							}
							if _, isMk := base.(*ssa.MakeSlice); !isMk {
								continue
							}
							if f.LFOf(idx).key() != f.SliceLen(base).add(konst(1), -1).key() {
								continue
							}
							out = append(out, Fact{L: f.SliceLen(base).add(f.LFOf(x), -1).add(konst(1), -1)})
							for _, ref := range *x.Referrers() {
								if cv, ok := ref.(*ssa.Convert); ok {
									out = append(out, Fact{L: f.SliceLen(base).add(f.LFOf(cv), -1).add(konst(1), -1)})
								}
							}
						}
					}
				}
				return out
			}}
		c.domainTotalRule(r, prefix+"decrypt-accepts-legal-padding",
			"no failure exit of Decrypt is reachable for an input IV | n >= 1 whole blocks whose last decrypted octet p satisfies p + 1 <= 16 n: every legal pad length 0..255 is accepted, not only the minimal one (RFC 7296 3.14)",
			1, map[*ssa.Function]*domSpec{fn: spec}, []*ssa.Function{fn})
	}
}

// stripShape: every success return of fn yields buf[:len(buf)-(int(buf[len(buf)-1])+1)], possibly through a
// module helper that receives buf as an argument; also counts the element loads of buf.
func (c *Ctx) stripShape(fn *ssa.Function, buf ssa.Value, depth int) (bool, string, int) {
	f := c.NewFA(fn)
	okR, detail := false, "the result is not buffer[:len-(last+1)]"
	nLoads := 0
	for _, ref := range *buf.Referrers() {
		if ia, ok := ref.(*ssa.IndexAddr); ok {
			for _, r2 := range *ia.Referrers() {
				if u, ok := r2.(*ssa.UnOp); ok && u.Op == token.MUL {
					nLoads++
				}
			}
		}
	}
	nRet, nGood := 0, 0
	for _, b := range fn.Blocks {
		if f.Dead[b] {
			continue
		}
		ret, ok := b.Instrs[len(b.Instrs)-1].(*ssa.Return)
		if !ok || len(ret.Results) != 2 || !isNilConst(ret.Results[1]) {
			// "return helper(buf)": both results come from one call
			if ok && len(ret.Results) == 2 && depth < 2 {
				if ex, isEx := ret.Results[0].(*ssa.Extract); isEx {
					if call, isCall := ex.Tuple.(*ssa.Call); isCall {
						if h := call.Call.StaticCallee(); h != nil && c.InModule(h) && h.Blocks != nil {
							for k, a := range call.Call.Args {
								if a == buf && k < len(h.Params) {
									nRet++
									ok2, d2, n2 := c.stripShape(h, h.Params[k], depth+1)
									nLoads += n2
									if ok2 {
										nGood++
										detail = d2 + " (in " + c.FuncName(h) + ")"
									}
								}
							}
						}
					}
				}
			}
			continue
		}
		nRet++
		sl, ok := ret.Results[0].(*ssa.Slice)
		if !ok || sl.X != buf || sl.Low != nil || sl.High == nil {
			continue
		}
		// High = len(buf) - (x + 1), x = load buf[len(buf)-1]
		var lastLoad ssa.Value
		h := f.LFOf(sl.High)
		rest := h.add(f.SliceLen(buf), -1).add(konst(1), 1) // = -x
		if id, ok := singleAtom(rest.scale(-1)); ok {
			for v, lf := range f.lfMemo {
				if id2, ok := singleAtom(lf); ok && id2 == id {
					if bs, _, ok := isElemLoadAny(v); ok && bs == buf {
						lastLoad = v
					}
					if cv, ok := v.(*ssa.Convert); ok {
						if bs, _, ok := isElemLoadAny(cv.X); ok && bs == buf {
							lastLoad = cv.X
						}
					}
				}
			}
		}
		if lastLoad != nil {
			_, idx, _ := isElemLoadAny(lastLoad)
			if f.LFOf(idx).key() == f.SliceLen(buf).add(konst(1), -1).key() {
				nGood++
				detail = "result = buffer[:len(buffer) - (int(buffer[len-1]) + 1)]"
			}
		}
	}
	okR = nRet > 0 && nGood == nRet
	if !okR && nGood > 0 {
		detail = "some success return is not buffer[:len-(last+1)]"
	}
	return okR, detail, nLoads
}

// isElemLoadAny: v = *(&base[idx]) with arbitrary idx.
func isElemLoadAny(v ssa.Value) (ssa.Value, ssa.Value, bool) {
	u, ok := v.(*ssa.UnOp)
	if !ok || u.Op != token.MUL {
		return nil, nil, false
	}
	ia, ok := u.X.(*ssa.IndexAddr)
	if !ok {
		return nil, nil, false
	}
	return ia.X, ia.Index, true
}

// RunC10 decides property C10.
func RunC10(c *Ctx, r *Report) {
	prefix := "C10."
	r.Explanation = "Structural necessary conditions of the AES-CBC transform: Decrypt cannot panic on any input (E2 prover: too short, misaligned, impossible pad length); Encrypt's production arm draws the IV per call from crypto/rand into the first block of the output buffer, with the error checked, and that block is the IV used; no cipher method stores to its receiver or to package state (no IV reuse through object state); NewCrypto reaches aes.NewCipher only when len(key) equals the descriptor's key length and the registered lengths are 16/24/32; PKCS7 padding count in [1,16] with the pad-length octet p-1 and a padded length that is a multiple of 16; Decrypt strips exactly last+1 octets and inspects no other pad octet."
	r.TrustedBase = append(r.TrustedBase, "go/types and go/ssa (x/tools v0.29.0)", "the E2 prover and linear-form engine", "crypto/aes and crypto/cipher are a correct AES-CBC")
	r.Assumptions = append(r.Assumptions, "EncrAesCbcCrypto.Iv/Padding are never assigned by non-test code (test-only injection points; closed world)")
	r.NotDecided = append(r.NotDecided, "that decrypt(encrypt(x)) = x (follows from the shapes plus correctness of crypto/cipher)", "the exact size law for run-time lengths beyond 'multiple of 16, 1..16 pad octets'", "statistical freshness of IVs beyond 'drawn from crypto/rand on every call'")
	// rule 1
	var scope []*ssa.Function
	if nt := c.NamedType("security/IKECrypto", "IKECrypto"); nt != nil {
		for _, T := range c.Implementers(nt.Underlying().(*types.Interface)) {
			if m := c.methodOf(T, "Decrypt"); m != nil {
				scope = append(scope, m)
			}
		}
	}
	e := &E2{C: c, R: r, Prefix: prefix + "nocrash.", Strict: true}
	e.Run(scope)
	r.Floors[prefix+"nocrash.bounds.slice"] = 4
	r.Floors[prefix+"nocrash.ext.pre"] = 4
	for _, fn := range scope {
		for _, d := range e.FA(fn).DeadWhy {
			r.Assumptions = append(r.Assumptions, "closed world: "+d)
		}
	}
	// rule 2
	c.aesCbcEncryptRules(r, prefix)
	c.cipherNoStateRule(r, prefix+"no-state")
	// rule 3: NewCrypto
	rule3 := prefix + "key-size-guard"
	r.Rule(rule3, "NewCrypto reaches aes.NewCipher only when len(key) equals the descriptor's own key length, returns an error otherwise, propagates aes.NewCipher's error, and the registered key lengths are 16, 24 and 32", 2)
	if nt := c.NamedType("security/encr", "ENCRType"); nt != nil {
		for _, T := range c.Implementers(nt.Underlying().(*types.Interface)) {
			m := c.methodOf(T, "NewCrypto")
			if m == nil {
				continue
			}
			r.Func(c.FuncName(m))
			f := c.NewFA(m)
			var nc *ssa.Call
			for _, b := range m.Blocks {
				for _, ins := range b.Instrs {
					if call := staticCallTo(valueOf(ins), "crypto/aes.NewCipher"); call != nil {
						nc = call
					}
				}
			}
			if nc == nil {
				r.bad(rule3, c.FuncName(m), c.Pos(m.Pos()), "no aes.NewCipher call")
				continue
			}
			// guard: len(key) == load(recv.keyLength)
			var kl ssa.Value
			for _, b := range m.Blocks {
				for _, ins := range b.Instrs {
					if v, ok := ins.(ssa.Value); ok {
						if base, fld, ok := fieldLoad(v); ok && fld == "keyLength" && paramIndex(m, base) == 0 {
							kl = v
						}
					}
				}
			}
			okG := false
			if kl != nil {
				facts := f.FactsAt(nc.Block())
				l := f.SliceLen(nc.Call.Args[0])
				a, _ := f.Prove(l.add(f.LFOf(kl), -1), facts)
				b2, _ := f.Prove(f.LFOf(kl).add(l, -1), facts)
				okG = a && b2 && paramIndex(m, nc.Call.Args[0]) == 1
			}
			r.Check(okG, rule3, c.FuncName(m)+": guard", c.InstrPos(nc), "aes.NewCipher(key) is dominated by len(key) == t.keyLength", "the cipher can be keyed with a key whose length differs from the descriptor's key length")
			ok2, why := c.errorChecked(nc)
			r.Check(ok2, rule3, c.FuncName(m)+": cipher error propagated", c.InstrPos(nc), why, why)
			// the wrong-size edge returns an error: every return with nil error is dominated by nc
			okE := true
			for _, b := range m.Blocks {
				if ret, ok := b.Instrs[len(b.Instrs)-1].(*ssa.Return); ok && isNilConst(ret.Results[1]) {
					if !nc.Block().Dominates(b) {
						okE = false
					}
				}
			}
			r.Check(okE, rule3, c.FuncName(m)+": wrong size is an error", c.Pos(m.Pos()), "every success return follows aes.NewCipher", "a success return bypasses the key-size guard")
		}
	}
	if lo, hi, ok := c.FieldIntRange(c.NamedType("security/encr", "EncrAesCbc"), 0); ok {
		vals := map[int64]bool{}
		if fs := c.fieldStoreTable()["field:security/encr.EncrAesCbc.keyLength"]; fs != nil {
			for _, v := range fs.ints {
				vals[v] = true
			}
		}
		good := len(vals) == 3 && vals[16] && vals[24] && vals[32]
		r.Check(good, rule3, "registered AES key lengths", "-", "{16, 24, 32}", fmt.Sprintf("registered key lengths are not exactly 16/24/32 (range %d..%d)", lo, hi))
	}
	// "every key of the negotiated size": the descriptor a negotiated transform resolves to is the one registered
	// for that size, and each registered descriptor is an object of its own (C11's registry rules, encr only)
	c.registryRules(r, prefix+"registry.", "security/encr")
	c.libraryObjectRule(r, prefix+"key-objects-are-library-objects")
	// rule 4
	c.pkcs7Rules(r, prefix)
	// rule 5
	c.aesCbcDecryptRules(r, prefix)
}

// cipherNoStateRule: no IKECrypto method keeps state (shared by C10 and C01: a cipher object that remembers a
// buffer, an IV or a length from one message to the next breaks the round trip for histories of messages).
func (c *Ctx) cipherNoStateRule(r *Report, rule2 string) {
	r.Rule(rule2, "no IKECrypto method stores to a field of its receiver, to package state or to caller-visible non-buffer memory (so no IV or padding can be reused through object state)", 2)
	if nt := c.NamedType("security/IKECrypto", "IKECrypto"); nt != nil {
		iface := nt.Underlying().(*types.Interface)
		for _, T := range c.Implementers(iface) {
			for i := 0; i < iface.NumMethods(); i++ {
				m := c.methodOf(T, iface.Method(i).Name())
				if m == nil {
					continue
				}
				var bad []string
				for _, k := range c.ModSet(m).sorted() {
					if strings.HasPrefix(k, "fresh:") {
						continue
					}
					if strings.HasPrefix(k, "field:") || strings.HasPrefix(k, "global:") || strings.HasPrefix(k, "map:") || strings.HasPrefix(k, "deref:") {
						bad = append(bad, k)
					}
				}
				r.Check(len(bad) == 0, rule2, c.FuncName(m), c.Pos(m.Pos()), "transitive effects: "+strings.Join(c.ModSet(m).sorted(), ", "), "writes "+strings.Join(bad, ", "))
			}
		}
	}
}
