package lint

import (
	"fmt"
	"go/constant"
	"go/token"
	"sort"

	"ikeverif/checker/xt/ssa"
)

func isAppendCall(v ssa.Value) *ssa.Call {
	call, ok := v.(*ssa.Call)
	if !ok {
		return nil
	}
	if bi, ok := call.Call.Value.(*ssa.Builtin); ok && bi.Name() == "append" {
		return call
	}
	return nil
}

// copiesInto lists copy(dst, src) calls whose destination is exactly buffer mk (offset 0).
func copiesInto(mk ssa.Value) []*ssa.Call {
	var out []*ssa.Call
	for _, ref := range *mk.Referrers() {
		call, ok := ref.(*ssa.Call)
		if !ok {
			continue
		}
		if bi, ok := call.Call.Value.(*ssa.Builtin); ok && bi.Name() == "copy" && call.Call.Args[0] == mk {
			out = append(out, call)
		}
	}
	return out
}

// prfPrimeStreamTest: cond is `len(acc) < K` on the byte slice the round loop accumulates (fed by append / Sum on a
// back edge of a loop header phi): whether the rounds produce K octets is what the shape rule decides (at least
// ceil(208/32) rounds of 32 octets), not a property of the inputs.
func prfPrimeStreamTest(f *FA, cond ssa.Value) (bool, string) {
	bo, ok := cond.(*ssa.BinOp)
	if !ok || bo.Op != token.LSS {
		return false, ""
	}
	if _, isK := bo.Y.(*ssa.Const); !isK {
		return false, ""
	}
	lc, ok := bo.X.(*ssa.Call)
	if !ok {
		return false, ""
	}
	if bi, isB := lc.Call.Value.(*ssa.Builtin); !isB || bi.Name() != "len" {
		return false, ""
	}
	ph, ok := lc.Call.Args[0].(*ssa.Phi)
	if !ok || !isByteSlice(ph.Type()) {
		return false, ""
	}
	for _, li := range naturalLoops(f.Fn) {
		if li.header != ph.Block() {
			continue
		}
		for i, e := range ph.Edges {
			if !li.body[li.header.Preds[i]] {
				continue
			}
			if call, isCall := e.(*ssa.Call); isCall {
				if isAppendCall(call) != nil || (call.Call.IsInvoke() && call.Call.Method.Name() == "Sum") {
					return true, "the length of the stream the rounds accumulate is decided by the round count of the shape rule"
				}
			}
		}
	}
	return false, ""
}

// RunC16 decides property C16.
func RunC16(c *Ctx, r *Report) {
	prefix := "C16."
	r.Explanation = "Shape and constants of EapAkaPrimePRF against RFC 5448 3.3 / RFC 9048 3.4.1: key = IK'|CK', S = \"EAP-AKA'\"|Identity, a fresh HMAC-SHA-256 per round, data = T(n-1)|S|byte(n) with T(0) empty and n from 1, at least ceil(208/32) rounds, the five result slices [0,16) [16,48) [48,80) [80,144) [144,208) in the order K_encr, K_aut, K_re, MSK, EMSK, and the empty-key guard dominating every HMAC."
	r.TrustedBase = append(r.TrustedBase, "go/types and go/ssa (x/tools v0.29.0)", "the checker's linear-form engine")
	r.NotDecided = append(r.NotDecided, "HMAC-SHA-256 values")
	fn := c.Func("eap", "EapAkaPrimePRF")
	if fn == nil {
		r.undecided(prefix+"anchor", "eap.EapAkaPrimePRF", "-", "anchor does not resolve")
		return
	}
	r.Func(c.FuncName(fn))
	// totality on the property's domain: IK', CK' of 1..64 octets and identities of 0..255 octets derive keys;
	// no failure exit is reachable (an identity of exactly 255 octets included). The test of the derived stream's
	// length is decided by the shape rule below (at least ceil(208/32) rounds of 32 octets each).
	c.domainTotalRule(r, prefix+"total-on-domain",
		"no failure exit of EapAkaPrimePRF is reachable for IK', CK' of 1..64 octets and an identity of 0..255 octets (the test of the derived stream's length is decided by the round count of the shape rule)",
		1, map[*ssa.Function]*domSpec{fn: {ExactLenParam: -1,
			LenDom: map[string][2]int64{fn.Params[0].Name(): {1, 64}, fn.Params[1].Name(): {1, 64}, fn.Params[2].Name(): {0, 255}},
			EnvErr: map[string]string{}, Delegated: prfPrimeStreamTest}}, []*ssa.Function{fn})
	f := c.NewFA(fn)
	rule := prefix + "prf-prime-shape"
	r.Rule(rule, "PRF'(IK'|CK', \"EAP-AKA'\"|Identity): T1 = HMAC-SHA-256(K, S|0x01), Tn = HMAC-SHA-256(K, Tn-1|S|n); MK = T1|T2|...; keys are fixed slices of MK", 10)
	ik, ck, id := fn.Params[0], fn.Params[1], fn.Params[2]
	// the hmac.New call (in the loop)
	var hm *ssa.Call
	for _, b := range fn.Blocks {
		for _, ins := range b.Instrs {
			if call := staticCallTo(valueOf(ins), "crypto/hmac.New"); call != nil {
				hm = call
			}
		}
	}
	loops := naturalLoops(fn)
	if hm == nil || len(loops) != 1 {
		r.bad(rule, "one loop creating one HMAC per round", c.Pos(fn.Pos()), "expected a single loop containing hmac.New")
		return
	}
	li := loops[0]
	freshPerRound := li.body[hm.Block()]
	fdetail := "hmac.New is inside the round loop"
	if !freshPerRound {
		// one object keyed once, brought back to its keyed state by Reset before each round's Write
		var rst, wr *ssa.Call
		for _, ref := range *hm.Referrers() {
			if call, ok := ref.(*ssa.Call); ok && call.Call.IsInvoke() && call.Call.Value == ssa.Value(hm) && li.body[call.Block()] {
				switch call.Call.Method.Name() {
				case "Reset":
					rst = call
				case "Write":
					wr = call
				}
			}
		}
		if rst != nil && wr != nil && dominatesInstr(rst, wr) {
			freshPerRound = true
			fdetail = "one HMAC keyed before the loop, Reset before the Write of every round"
		}
	}
	r.Check(freshPerRound, rule, "a fresh HMAC per round", c.InstrPos(hm), fdetail, "the HMAC object is created outside the loop and not Reset per round: rounds would continue one MAC computation")
	// hash
	g, _ := hm.Call.Args[0].(*ssa.Function)
	r.Check(g != nil && g.String() == "crypto/sha256.New", rule, "hash is SHA-256", c.InstrPos(hm), "hmac.New(sha256.New, key)", "the hash constructor is not crypto/sha256.New")
	// key = IK' | CK'
	okKey, dk := false, "key is not IK' | CK'"
	if parts, ok := c.concatOf(f, hm.Call.Args[1], hm, 0); ok {
		if sameParts(parts, []cpart{{Kind: "slice", Val: ik}, {Kind: "slice", Val: ck}}) {
			okKey = true
			dk = "key = IK' | CK'"
		} else {
			dk = "key is " + partsString(f, dropEmpty(parts)) + ", expected IK' | CK'"
		}
	}
	r.Check(okKey, rule, "key = IK'|CK'", c.InstrPos(hm), dk, dk)
	// guard: at hmac.New, len(ik) >= 1 and len(ck) >= 1; and the failing edge returns an error
	facts := f.FactsAt(hm.Block())
	g1, _ := f.Prove(f.SliceLen(ik).add(konst(1), -1), facts)
	g2, _ := f.Prove(f.SliceLen(ck).add(konst(1), -1), facts)
	r.Check(g1 && g2, rule, "empty IK' or CK' is refused before any HMAC", c.InstrPos(hm), "every HMAC is dominated by len(ikPrime) != 0 and len(ckPrime) != 0", "an HMAC can be computed with an empty IK' or CK'")
	okErr := false
	for _, b := range fn.Blocks {
		if ret, ok := b.Instrs[len(b.Instrs)-1].(*ssa.Return); ok && !li.body[b] {
			last := ret.Results[len(ret.Results)-1]
			if !isNilConst(last) && c.nonNilError(last, nil, 0) && !hm.Block().Dominates(b) && !c.blockReaches(hm.Block(), b) {
				allNil := true
				for _, rv := range ret.Results[:len(ret.Results)-1] {
					if !isNilConst(rv) {
						allNil = false
					}
				}
				if allNil {
					okErr = true
				}
			}
		}
	}
	r.Check(okErr, rule, "the refusal is an error without keys", c.Pos(fn.Pos()), "an early return with five nil keys and a non-nil error precedes the loop", "no error-only return precedes the key derivation")
	// Write(s) / Sum on hm: the round's input is what is written before Sum(nil), in order (one Write of the
	// concatenation or several Writes of its pieces are the same octet stream to a hash)
	var writes []*ssa.Call
	var write, sum *ssa.Call
	for _, ref := range *hm.Referrers() {
		if call, ok := ref.(*ssa.Call); ok && call.Call.IsInvoke() && call.Call.Value == ssa.Value(hm) {
			switch call.Call.Method.Name() {
			case "Write":
				writes = append(writes, call)
			case "Sum":
				sum = call
			}
		}
	}
	sort.Slice(writes, func(i, j int) bool { return dominatesInstr(writes[i], writes[j]) && writes[i] != writes[j] })
	// Sum(nil) with the result appended to MK, or Sum(MK): the hash appends its output to the accumulated stream
	sumAcc := false
	if sum != nil {
		if ph, ok := sum.Call.Args[0].(*ssa.Phi); ok && ph.Block() == li.header && isByteSlice(ph.Type()) {
			sumAcc = true
		}
	}
	okOrder := len(writes) > 0 && sum != nil && (isNilConst(sum.Call.Args[0]) || sumAcc)
	for i := range writes {
		if i+1 < len(writes) && !dominatesInstr(writes[i], writes[i+1]) {
			okOrder = false
		}
		if sum != nil && !dominatesInstr(writes[i], sum) {
			okOrder = false
		}
	}
	if !okOrder {
		r.bad(rule, "T(n) = HMAC(K, data): Write(s), then Sum(nil)", c.InstrPos(hm), "the round does not write its input and then Sum(nil) on one straight path")
		return
	}
	write = writes[0]
	// φ-nodes: prev, MK, i
	var prevPhi, mkPhi, iPhi *ssa.Phi
	for _, ins := range li.header.Instrs {
		p, ok := ins.(*ssa.Phi)
		if !ok {
			continue
		}
		if isByteSlice(p.Type()) {
			for _, e := range p.Edges {
				if e == ssa.Value(sum) {
					prevPhi = p
				}
				if ap := isAppendCall(e); ap != nil && ap.Call.Args[0] == ssa.Value(p) && ap.Call.Args[1] == ssa.Value(sum) {
					mkPhi = p
				}
				if sumAcc {
					// MK = h.Sum(MK); prev = MK[len(MK)-32:]
					if e == ssa.Value(sum) && sum.Call.Args[0] == ssa.Value(p) {
						mkPhi = p
						if prevPhi == p {
							prevPhi = nil
						}
					}
					if sl, ok := e.(*ssa.Slice); ok && sl.X == ssa.Value(sum) && sl.High == nil && sl.Low != nil {
						if f.LFOf(sl.Low).key() == f.SliceLen(sum).add(konst(32), -1).key() {
							prevPhi = p
						}
					}
				}
			}
		} else {
			iPhi = p
		}
	}
	if prevPhi == nil || mkPhi == nil || iPhi == nil {
		r.bad(rule, "loop state prev / MK / i", c.InstrPos(hm), "cannot identify prev = T(n-1), MK = T1|..|Tn and the round counter")
		return
	}
	emptyInit := func(p *ssa.Phi) bool {
		for _, e := range p.Edges {
			if isNilConst(e) {
				return true
			}
			if freshRoot(e) {
				if l := f.SliceLen(e); l.isConst() && l.C == 0 {
					return true
				}
			}
		}
		return false
	}
	r.Check(emptyInit(prevPhi) && emptyInit(mkPhi), rule, "T(0) is empty and MK starts empty", c.InstrPos(prevPhi), "prev and MK are initialised to empty slices; prev = Sum(nil), MK = MK | Sum(nil) each round", "prev or MK does not start empty")
	// data = prev | S | byte(i+1)
	okData, dd := false, "written data is not prev | sBase | byte(i+1)"
	var parts []cpart
	okParts := true
	for _, w := range writes {
		ps, ok := c.concatOf(f, w.Call.Args[0], w, 0)
		if !ok || len(ps) == 0 {
			// an opaque slice value: one piece
			ps = []cpart{{Kind: "slice", Val: w.Call.Args[0], Len: f.SliceLen(w.Call.Args[0])}}
		}
		parts = append(parts, ps...)
	}
	isLabel := func(v ssa.Value) bool { // []byte("EAP-AKA'")
		cv, ok := v.(*ssa.Convert)
		if !ok {
			return false
		}
		k, ok := cv.X.(*ssa.Const)
		return ok && k.Value != nil && k.Value.Kind() == constant.String && constant.StringVal(k.Value) == "EAP-AKA'"
	}
	isIdentity := func(v ssa.Value) bool { // identity, []byte(identity)
		if v == ssa.Value(id) {
			return true
		}
		cv, ok := v.(*ssa.Convert)
		return ok && cv.X == ssa.Value(id)
	}
	counterStartsAt := int64(-1)
	if okParts {
		parts = dropEmpty(parts)
		dd = "written data is " + partsString(f, parts) + ", expected T(n-1) | \"EAP-AKA'\" | Identity | byte(n)"
		if len(parts) >= 3 && parts[0].Kind == "slice" && parts[0].Val == ssa.Value(prevPhi) && parts[len(parts)-1].Kind == "byte" {
			okS := false
			mid := parts[1 : len(parts)-1]
			switch {
			case len(mid) == 1 && mid[0].Kind == "slice":
				// S = []byte("EAP-AKA'" + identity), or append([]byte("EAP-AKA'"), identity...)
				if cv, ok := mid[0].Val.(*ssa.Convert); ok {
					if cat, ok := cv.X.(*ssa.BinOp); ok && cat.Op == token.ADD && cat.Y == ssa.Value(id) {
						if k, ok := cat.X.(*ssa.Const); ok && k.Value != nil && k.Value.Kind() == constant.String && constant.StringVal(k.Value) == "EAP-AKA'" {
							okS = true
						} else {
							dd = "S does not start with the constant \"EAP-AKA'\""
						}
					}
				}
				if ap := isAppendCall(mid[0].Val); ap != nil && isLabel(ap.Call.Args[0]) && isIdentity(ap.Call.Args[1]) {
					okS = true
				}
			case len(mid) == 2 && mid[0].Kind == "slice" && mid[1].Kind == "slice":
				okS = isLabel(mid[0].Val) && isIdentity(mid[1].Val)
			}
			// the counter octet: byte(i+1) with i from 0, or byte(n) with n from 1
			okN := false
			cv := unwrapByteConv(parts[len(parts)-1].Val)
			if b, ok := cv.(*ssa.BinOp); ok && b.Op == token.ADD && b.X == ssa.Value(iPhi) {
				if k, ok := b.Y.(*ssa.Const); ok {
					if one, _ := constInt64(k.Value); one == 1 {
						okN = true
						counterStartsAt = 0
					}
				}
			} else if cv == ssa.Value(iPhi) {
				okN = true
				counterStartsAt = 1
			}
			if okS && okN {
				okData = true
				dd = "data = T(n-1) | \"EAP-AKA'\" | Identity | byte(n)"
			}
		} else if len(parts) > 0 && !(parts[0].Kind == "slice" && parts[0].Val == ssa.Value(prevPhi)) {
			dd = "the data does not start with the previous round's output"
		}
	}
	r.Check(okData, rule, "data = T(n-1) | S | n", c.InstrPos(write), dd, dd)
	// counter from 0 step 1, rounds K with 32K >= 208
	okI := false
	rounds := int64(0)
	for _, e := range iPhi.Edges {
		if k, ok := e.(*ssa.Const); ok {
			if v, _ := constInt64(k.Value); v == counterStartsAt {
				okI = true
			}
		}
	}
	for _, e := range iPhi.Edges {
		if b, ok := e.(*ssa.BinOp); ok {
			k, isK := b.Y.(*ssa.Const)
			one := int64(0)
			if isK {
				one, _ = constInt64(k.Value)
			}
			if b.Op != token.ADD || b.X != ssa.Value(iPhi) || one != 1 {
				okI = false
			}
		}
	}
	if iff, ok := li.header.Instrs[len(li.header.Instrs)-1].(*ssa.If); ok {
		if cond, ok := iff.Cond.(*ssa.BinOp); ok && (cond.Op == token.LSS || cond.Op == token.LEQ) && cond.X == ssa.Value(iPhi) {
			if k, ok := cond.Y.(*ssa.Const); ok {
				bound, _ := constInt64(k.Value)
				// number of values the counter takes: start .. bound-1 (or bound)
				rounds = bound - counterStartsAt
				if cond.Op == token.LEQ {
					rounds++
				}
			}
		}
	}
	r.Check(okI && rounds*32 >= 208, rule, "round counter from its first value in steps of 1, at least 7 rounds", c.InstrPos(iPhi), fmt.Sprintf("%d rounds of 32 octets >= 208", rounds), fmt.Sprintf("%d rounds do not yield 208 octets of key material, or the counter is not 0,1,2,...", rounds))
	// result slices
	want := [][2]int64{{0, 16}, {16, 48}, {48, 80}, {80, 144}, {144, 208}}
	names := []string{"K_encr", "K_aut", "K_re", "MSK", "EMSK"}
	for _, b := range fn.Blocks {
		ret, ok := b.Instrs[len(b.Instrs)-1].(*ssa.Return)
		if !ok || len(ret.Results) != 6 || !isNilConst(ret.Results[5]) {
			continue
		}
		for i := 0; i < 5; i++ {
			root, lo, hi, open := f.relSpan(ret.Results[i])
			good := root == ssa.Value(mkPhi) && !open && lo.isConst() && hi.isConst() && lo.C == want[i][0] && hi.C == want[i][1]
			r.Check(good, rule, fmt.Sprintf("result %d (%s) = MK[%d:%d]", i, names[i], want[i][0], want[i][1]), c.InstrPos(ret), "as prescribed", fmt.Sprintf("is MK[%s:%s]", f.Show(lo), f.Show(hi)))
		}
		// enough material: dominated by len(MK) >= 208 or provable
		ok208, _ := f.Prove(f.SliceLen(mkPhi).add(konst(208), -1), f.FactsAt(b))
		r.Check(ok208, rule, "MK holds at least 208 octets at the slicing", c.InstrPos(ret), "guarded by len(MK) >= 208", "the slices may exceed the generated key material")
	}
}
