package lint

import (
	"fmt"
	"go/constant"
	"go/token"
	"go/types"
	"sort"
	"strings"

	"ikeverif/checker/xt/ssa"
)

// E2: panic / over-read / termination prover (DESIGN 3.3).

// extContract: what E2 knows about an external callee.
type extContract struct {
	why string
	// pre generates preconditions as goals; nil = no precondition.
	pre func(e *E2, f *FA, call ssa.CallInstruction, facts []Fact, name string)
}

func preLen(argIdx int, need int64) func(e *E2, f *FA, call ssa.CallInstruction, facts []Fact, name string) {
	return func(e *E2, f *FA, call ssa.CallInstruction, facts []Fact, name string) {
		args := call.Common().Args
		if argIdx >= len(args) {
			e.undecided(f, call, "ext.pre", name, "argument missing")
			return
		}
		g := f.SliceLen(args[argIdx]).add(konst(need), -1)
		e.goal(f, call, "ext.pre", fmt.Sprintf("%s needs len(arg) >= %d", name, need), g, facts)
	}
}

// External callees that may be reached from E2 scopes, with their panic preconditions.
// Anything not listed is reported as undecided ("external callee without contract").
var e2Contracts = map[string]extContract{
	"(encoding/binary.bigEndian).Uint16":    {"panics if len(b) < 2", preLen(1, 2)},
	"(encoding/binary.bigEndian).Uint32":    {"panics if len(b) < 4", preLen(1, 4)},
	"(encoding/binary.bigEndian).Uint64":    {"panics if len(b) < 8", preLen(1, 8)},
	"(encoding/binary.bigEndian).PutUint16": {"panics if len(b) < 2", preLen(1, 2)},
	"(encoding/binary.bigEndian).PutUint32": {"panics if len(b) < 4", preLen(1, 4)},
	"(encoding/binary.bigEndian).PutUint64": {"panics if len(b) < 8", preLen(1, 8)},
	"crypto/cipher.NewCBCDecrypter": {"panics if len(iv) != block size", func(e *E2, f *FA, call ssa.CallInstruction, facts []Fact, name string) {
		iv := f.SliceLen(call.Common().Args[1])
		e.goal(f, call, "ext.pre", name+" needs len(iv) >= 16 (AES block size)", iv.add(konst(16), -1), facts)
		e.goal(f, call, "ext.pre", name+" needs len(iv) <= 16 (AES block size)", konst(16).add(iv, -1), facts)
	}},
	"crypto/cipher.NewCBCEncrypter": {"panics if len(iv) != block size", func(e *E2, f *FA, call ssa.CallInstruction, facts []Fact, name string) {
		iv := f.SliceLen(call.Common().Args[1])
		e.goal(f, call, "ext.pre", name+" needs len(iv) >= 16 (AES block size)", iv.add(konst(16), -1), facts)
		e.goal(f, call, "ext.pre", name+" needs len(iv) <= 16 (AES block size)", konst(16).add(iv, -1), facts)
	}},
	"iface:crypto/cipher.BlockMode.CryptBlocks": {"panics if len(src) % blocksize != 0 or len(dst) < len(src)", func(e *E2, f *FA, call ssa.CallInstruction, facts []Fact, name string) {
		args := call.Common().Args
		dst, src := f.SliceLen(args[0]), f.SliceLen(args[1])
		e.goal(f, call, "ext.pre", name+" needs len(dst) >= len(src)", dst.add(src, -1), facts)
		// len(src) % 16 == 0: the structurally numbered atom (len(src) % 16) must be known to be 0
		rem := f.remAtom(src, 16)
		// a slice length is never negative, so len % 16 is unchanged by adding a multiple of 16 to it as long
		// as the shifted dividend is non-negative as well: a guard on len(in) % 16 settles len(in[16:]) % 16
		norm := LF{C: src.C - floorDiv(src.C, 16)*16, T: src.T}
		if norm.C != src.C {
			if lo, _ := f.bounds(norm, nil); lo >= 0 {
				if ok, _ := f.Prove(f.remAtom(norm, 16).scale(-1), facts); ok {
					rem = f.remAtom(norm, 16)
				}
			}
		}
		e.goal(f, call, "ext.pre", name+" needs len(src) % 16 == 0", rem.scale(-1), facts)
	}},
	"crypto/hmac.Equal":                 {"no precondition", nil},
	"crypto/hmac.New":                   {"no precondition", nil},
	"crypto/subtle.ConstantTimeCompare": {"no precondition", nil},
	"bytes.Equal":                       {"no precondition", nil},
	"bytes.NewReader":                   {"no precondition", nil},
	"bufio.NewReader":                   {"no precondition", nil},
	"(*bufio.Reader).ReadByte":          {"no precondition (returns io.EOF at end)", nil},
	"io.ReadFull":                       {"no precondition (returns an error on a short read)", nil},
	"github.com/pkg/errors.Errorf":      {"no precondition", nil},
	"github.com/pkg/errors.Wrapf":       {"no precondition (nil error gives nil)", nil},
	"github.com/pkg/errors.Wrap":        {"no precondition", nil},
	"github.com/pkg/errors.New":         {"no precondition", nil},
	"fmt.Sprintf":                       {"no precondition", nil},
	"iface:hash.Hash.Write":             {"never returns an error, no precondition", nil},
	"iface:hash.Hash.Sum":               {"appends Size() octets to its argument", nil},
	"iface:hash.Hash.Reset":             {"no precondition", nil},
	"iface:hash.Hash.Size":              {"no precondition", nil},
	"iface:error.Error":                 {"no precondition on a non-nil error", nil},
	"iface:fmt.Stringer.String":         {"no precondition", nil},
	// further callees without a panic precondition that hardening and error-reporting changes bring in
	"iface:crypto/cipher.Block.BlockSize":      {"no precondition (a nil interface receiver is the nil-dereference class)", nil},
	"iface:crypto/cipher.BlockMode.BlockSize":  {"no precondition", nil},
	"iface:hash.Hash.BlockSize":                {"no precondition", nil},
	"fmt.Errorf":                               {"no precondition", nil},
	"fmt.Sprint":                               {"no precondition", nil},
	"errors.New":                               {"no precondition", nil},
	"errors.Is":                                {"no precondition", nil},
	"errors.As":                                {"panics only if target is not a non-nil pointer to an error type: a programming error vet reports, not input dependent", nil},
	"errors.Unwrap":                            {"no precondition", nil},
	"errors.Join":                              {"no precondition", nil},
	"github.com/pkg/errors.WithMessage":        {"no precondition (nil error gives nil)", nil},
	"github.com/pkg/errors.WithMessagef":       {"no precondition (nil error gives nil)", nil},
	"github.com/pkg/errors.WithStack":          {"no precondition (nil error gives nil)", nil},
	"github.com/pkg/errors.Cause":              {"no precondition", nil},
	"bytes.Clone":                              {"no precondition", nil},
	"bytes.Compare":                            {"no precondition", nil},
	"bytes.HasPrefix":                          {"no precondition", nil},
	"bytes.HasSuffix":                          {"no precondition", nil},
	"strconv.Itoa":                             {"no precondition", nil},
	"strconv.FormatUint":                       {"base 10 / 16 constants only: no input-dependent precondition", nil},
	"strconv.FormatInt":                        {"base 10 / 16 constants only: no input-dependent precondition", nil},
}

// remAtom returns the atom for (l % m), numbered structurally like the BinOp REM case of lf0.
func (f *FA) remAtom(l LF, m int64) LF {
	k := fmt.Sprintf("%s:%s:(%s),(%s)", token.REM, "int", l.key(), konst(m).key())
	return f.atomLF(k, "("+f.Show(l)+")%"+fmt.Sprint(m), 0, m-1)
}

// E2 holds one prover run over a scope.
type E2 struct {
	C      *Ctx
	R      *Report
	Prefix string // rule id prefix, e.g. "C04."
	Strict bool   // decode-scope hygiene (class 10)
	fas    map[*ssa.Function]*FA
	// Setup is called once per function analysis, to inject entry contracts and lemmas.
	Setup func(f *FA)
	// NonNil lets a lemma vouch for a pointer value (class 7).
	NonNil func(f *FA, v ssa.Value) (bool, string)
	loops  int
}

func (e *E2) rule(id string) string { return e.Prefix + id }

func (e *E2) FA(fn *ssa.Function) *FA {
	if e.fas == nil {
		e.fas = map[*ssa.Function]*FA{}
	}
	if f, ok := e.fas[fn]; ok {
		return f
	}
	f := e.C.NewFA(fn)
	f.CallRange = e.C.callRange
	f.CallLen = e.C.callLen
	e.fas[fn] = f
	if e.Setup != nil {
		e.Setup(f)
	}
	return f
}

func (e *E2) key(f *FA, ins ssa.Instruction, what string) string {
	return fmt.Sprintf("%s: %s: %s", e.C.FuncName(f.Fn), e.C.SrcExpr(ins), what)
}

func (e *E2) goal(f *FA, ins ssa.Instruction, rule, what string, g LF, facts []Fact) bool {
	ok, how := f.Prove(g, facts)
	if !ok && ins.Block() != nil {
		ok, how = f.ProveCases(g, facts, ins.Block())
	}
	o := Obligation{Rule: e.rule(rule), Key: e.key(f, ins, what), Pos: e.C.InstrPos(ins)}
	if ok {
		o.Verdict = Discharged
		o.Detail = fmt.Sprintf("goal %s >= 0: %s", f.Show(g), how)
		o.NonTrivial = how != "interval of the goal is non-negative" || !g.isConst()
		if g.isConst() {
			o.NonTrivial = false
		}
	} else {
		o.Verdict = Violated
		o.NonTrivial = true
		o.Detail = fmt.Sprintf("cannot prove %s >= 0 from the dominating guards {%s}", f.Show(g), f.ShowFacts(facts))
	}
	e.R.Add(o)
	return ok
}

func (e *E2) undecided(f *FA, ins ssa.Instruction, rule, what, detail string) {
	e.R.Add(Obligation{Rule: e.rule(rule), Key: e.key(f, ins, what), Pos: e.C.InstrPos(ins), Verdict: Undecided, Detail: detail, NonTrivial: true})
}
func (e *E2) violated(f *FA, ins ssa.Instruction, rule, what, detail string) {
	e.R.Add(Obligation{Rule: e.rule(rule), Key: e.key(f, ins, what), Pos: e.C.InstrPos(ins), Verdict: Violated, Detail: detail, NonTrivial: true})
}
func (e *E2) discharged(f *FA, ins ssa.Instruction, rule, what, detail string, nontrivial bool) {
	e.R.Add(Obligation{Rule: e.rule(rule), Key: e.key(f, ins, what), Pos: e.C.InstrPos(ins), Verdict: Discharged, Detail: detail, NonTrivial: nontrivial})
}

// Run generates and decides the obligations of every function in scope.
func (e *E2) Run(scope []*ssa.Function) {
	e.declareRules()
	if cyc := e.C.HasCycle(scope); cyc != nil {
		e.R.bad(e.rule("term.recursion"), e.C.FuncName(cyc), e.C.Pos(cyc.Pos()), "function lies on a call cycle inside the scope: work is not bounded by a loop variant")
	} else {
		e.R.ok(e.rule("term.recursion"), fmt.Sprintf("call graph over %d scope functions", len(scope)), "-", "the call graph restricted to the scope is acyclic", true)
	}
	for _, fn := range scope {
		e.R.Func(e.C.FuncName(fn))
		e.runFunc(fn)
	}
}

func (e *E2) declareRules() {
	d := func(id, doc string) {
		if _, ok := e.R.RuleDoc[e.rule(id)]; !ok {
			e.R.Rule(e.rule(id), doc, 0)
		}
	}
	d("bounds.index", "every index expression satisfies 0 <= i < len(x)")
	d("bounds.slice", "every slice expression satisfies 0 <= lo <= hi <= len(x) (len, not cap: spare capacity must not be readable)")
	d("bounds.make", "every make([]T, n) has 0 <= n and n bounded by the input length or 65535")
	d("assert.type", "every single-result type assertion is dominated by a tag test that implies the asserted type")
	d("arith.div", "every integer division/remainder has a non-zero divisor; signed shift counts are non-negative")
	d("nil.map", "every map update is on a map known to be non-nil")
	d("nil.deref", "no pointer whose φ-web contains nil is dereferenced without a dominating non-nil fact")
	d("ext.pre", "documented panic preconditions of external callees hold")
	d("ext.contract", "every external callee reached has an entry in the frozen contract table")
	d("panic.explicit", "no explicit panic or recover in scope")
	d("hygiene.cap", "no cap(), 3-index slice or append onto a parameter-derived slice in decode scope")
	d("term.loop", "every loop has a strictly decreasing non-negative variant (templates T1-T5)")
	d("term.recursion", "no recursion inside the scope")
}

func (e *E2) runFunc(fn *ssa.Function) {
	f := e.FA(fn)
	tainted := map[ssa.Value]bool{}
	if e.Strict {
		tainted = paramDerivedSlices(fn)
	}
	nonNilMaps := e.mapNonNil(f)
	for _, b := range fn.Blocks {
		if f.Dead[b] {
			continue
		}
		var facts []Fact
		got := false
		getFacts := func() []Fact {
			if !got {
				facts = f.FactsAt(b)
				got = true
			}
			return facts
		}
		for idx, ins := range b.Instrs {
			switch x := ins.(type) {
			case *ssa.IndexAddr:
				e.indexObl(f, ins, x.X, x.Index, getFacts())
				e.derefObl(f, ins, x.X, getFacts())
			case *ssa.Index:
				e.indexObl(f, ins, x.X, x.Index, getFacts())
			case *ssa.Lookup:
				if _, isMap := x.X.Type().Underlying().(*types.Map); !isMap {
					e.indexObl(f, ins, x.X, x.Index, getFacts())
				}
			case *ssa.Slice:
				e.sliceObl(f, x, getFacts())
				if e.Strict && x.Max != nil {
					e.violated(f, ins, "hygiene.cap", "3-index slice", "a 3-index slice expression exposes capacity in decode scope")
				}
				e.derefObl(f, ins, x.X, getFacts())
			case *ssa.MakeSlice:
				e.makeObl(f, x, getFacts())
			case *ssa.TypeAssert:
				if !x.CommaOk {
					e.assertObl(f, x)
				}
			case *ssa.BinOp:
				switch x.Op {
				case token.QUO, token.REM:
					if _, _, isInt := f.typeRange(x.Type()); isInt {
						d := f.LFOf(x.Y)
						if d.isConst() && d.C != 0 {
							e.discharged(f, ins, "arith.div", "divisor != 0", "constant divisor", false)
						} else if f.ProveNE(d, getFacts()) {
							e.discharged(f, ins, "arith.div", "divisor != 0", "divisor "+f.Show(d)+" is non-zero by dominating guards", true)
						} else {
							e.violated(f, ins, "arith.div", "divisor != 0", "cannot prove "+f.Show(d)+" != 0")
						}
					}
				case token.SHL, token.SHR:
					if lo, _, ok := f.typeRange(x.Y.Type()); ok && lo < 0 {
						e.goal(f, ins, "arith.div", "shift count >= 0", f.LFOf(x.Y), getFacts())
					}
				}
			case *ssa.MapUpdate:
				if nonNilMaps[x] {
					e.discharged(f, ins, "nil.map", "map non-nil", "the map value is non-nil on every path (fresh make, or the nil case was replaced by a fresh map)", true)
				} else {
					e.violated(f, ins, "nil.map", "map non-nil", "cannot show the map is non-nil at this update")
				}
			case *ssa.FieldAddr:
				e.derefObl(f, ins, x.X, getFacts())
			case *ssa.UnOp:
				if x.Op == token.MUL {
					e.derefObl(f, ins, x.X, getFacts())
				}
			case *ssa.Store:
				e.derefObl(f, ins, x.Addr, getFacts())
			case *ssa.Panic:
				e.violated(f, ins, "panic.explicit", "panic", "explicit panic in scope")
			case *ssa.Go, *ssa.Defer:
				e.undecided(f, ins, "ext.contract", "go/defer", "go/defer statements are outside the prover's model")
			case *ssa.Call:
				e.callObl(f, x, getFacts(), tainted)
			}
			_ = idx
		}
	}
	e.loopObls(f)
}

func (e *E2) indexObl(f *FA, ins ssa.Instruction, base, idx ssa.Value, facts []Fact) {
	var n LF
	if k, ok := arrayLen(base.Type()); ok {
		n = konst(k)
	} else {
		n = f.SliceLen(base)
	}
	i := f.LFOf(idx)
	e.goal(f, ins, "bounds.index", "index >= 0", i, facts)
	e.goal(f, ins, "bounds.index", "index < len", n.add(i, -1).add(konst(1), -1), facts)
}

func (e *E2) sliceObl(f *FA, x *ssa.Slice, facts []Fact) {
	var n LF
	if k, ok := arrayLen(x.X.Type()); ok {
		n = konst(k)
	} else {
		n = f.SliceLen(x.X)
	}
	lo := konst(0)
	if x.Low != nil {
		lo = f.LFOf(x.Low)
		e.goal(f, x, "bounds.slice", "lo >= 0", lo, facts)
	}
	hi := n
	if x.High != nil {
		hi = f.LFOf(x.High)
		e.goal(f, x, "bounds.slice", "hi <= len", n.add(hi, -1), facts)
		if x.Low == nil {
			e.goal(f, x, "bounds.slice", "hi >= 0", hi, facts)
		}
	}
	if x.Low != nil {
		e.goal(f, x, "bounds.slice", "lo <= hi", hi.add(lo, -1), facts)
	}
	if x.Low == nil && x.High == nil {
		e.discharged(f, x, "bounds.slice", "full slice", "x[:] has no bounds to check", false)
	}
}

func (e *E2) makeObl(f *FA, x *ssa.MakeSlice, facts []Fact) {
	n := f.LFOf(x.Len)
	e.goal(f, x, "bounds.make", "len >= 0", n, facts)
	// boundedness: n <= 65535, or n is a sum of lengths of existing slices plus a constant <= 65535
	env := f.refine(facts)
	_, hi := f.bounds(n, env)
	if hi <= 65535+f.maxLenSmall() {
		e.discharged(f, x, "bounds.make", "len bounded", fmt.Sprintf("upper bound %d", hi), true)
		return
	}
	onlyLens := n.C <= 65535
	for a, k := range n.T {
		if !(strings.HasPrefix(f.atoms[a].name, "len(") && k >= 0 && k <= 2) {
			_, ahi := f.atomBounds(a, env)
			if ahi > 65535 || k < 0 {
				onlyLens = false
			}
		}
	}
	if onlyLens {
		e.discharged(f, x, "bounds.make", "len bounded", "length is a small multiple of lengths of existing slices plus a bounded term: "+f.Show(n), true)
	} else {
		e.violated(f, x, "bounds.make", "len bounded", "allocation size "+f.Show(n)+" is not bounded by the input length")
	}
}

func (f *FA) maxLenSmall() int64 { return 0 }

// ---- type assertions ----

// tagTable: for an interface with a Type()-like tag method whose module implementers each return
// one constant, maps constant -> implementing type.
func (c *Ctx) tagTable(iface *types.Interface, method string) (map[string]types.Type, bool) {
	out := map[string]types.Type{}
	for _, T := range c.Implementers(iface) {
		ms := c.Prog.MethodSets.MethodSet(T)
		var sel *types.Selection
		for i := 0; i < ms.Len(); i++ {
			if ms.At(i).Obj().Name() == method {
				sel = ms.At(i)
			}
		}
		if sel == nil {
			return nil, false
		}
		fn := c.unwrap(c.Prog.MethodValue(sel))
		cv, ok := constReturn(fn)
		if !ok {
			return nil, false
		}
		k := cv.ExactString()
		if _, dup := out[k]; dup {
			return nil, false
		}
		out[k] = T
	}
	return out, len(out) > 0
}

// constReturn: fn returns the same single constant on every path.
func constReturn(fn *ssa.Function) (constant.Value, bool) {
	if fn == nil || fn.Blocks == nil {
		return nil, false
	}
	var val constant.Value
	for _, b := range fn.Blocks {
		for _, ins := range b.Instrs {
			r, ok := ins.(*ssa.Return)
			if !ok {
				continue
			}
			if len(r.Results) != 1 {
				return nil, false
			}
			c, ok := r.Results[0].(*ssa.Const)
			if !ok || c.Value == nil {
				return nil, false
			}
			if val != nil && !constant.Compare(val, token.EQL, c.Value) {
				return nil, false
			}
			val = c.Value
		}
	}
	return val, val != nil
}

func (e *E2) assertObl(f *FA, x *ssa.TypeAssert) {
	if _, ok := x.X.Type().Underlying().(*types.Interface); !ok {
		e.undecided(f, x, "assert.type", "asserted type", "operand is not an interface")
		return
	}
	if ok, why := e.C.assertImplied(f, x); ok {
		e.discharged(f, x, "assert.type", "asserted type", why, true)
		return
	}
	e.violated(f, x, "assert.type", "asserted type", "no dominating tag test implies "+typeKey(x.AssertedType))
}

// assertImplied: the type assertion x is dominated by a tag test x.Tag() == K where, over the closed world
// of implementers, only the asserted type returns K.
func (c *Ctx) assertImplied(f *FA, x *ssa.TypeAssert) (bool, string) {
	iface, ok := x.X.Type().Underlying().(*types.Interface)
	if !ok {
		return false, ""
	}
	for b := x.Block(); b != nil; b = b.Idom() {
		if len(b.Preds) != 1 {
			continue
		}
		p := b.Preds[0]
		iff, ok := p.Instrs[len(p.Instrs)-1].(*ssa.If)
		if !ok {
			continue
		}
		cond, ok := iff.Cond.(*ssa.BinOp)
		if !ok {
			continue
		}
		wantTrue := p.Succs[0] == b
		if !((cond.Op == token.EQL && wantTrue) || (cond.Op == token.NEQ && !wantTrue)) {
			continue
		}
		call, k := cond.X, cond.Y
		if _, isC := call.(*ssa.Const); isC {
			call, k = k, call
		}
		kc, ok := k.(*ssa.Const)
		if !ok || kc.Value == nil {
			continue
		}
		cl, ok := call.(*ssa.Call)
		if !ok || !cl.Call.IsInvoke() {
			continue
		}
		if !f.sameValue(cl.Call.Value, x.X) {
			continue
		}
		tab, ok := c.tagTable(iface, cl.Call.Method.Name())
		if !ok {
			continue
		}
		T, ok := tab[kc.Value.ExactString()]
		if !ok {
			continue
		}
		if types.Identical(T, x.AssertedType) {
			return true, fmt.Sprintf("dominated by %s() == %s, which only %s returns (tag table over %d implementers)", cl.Call.Method.Name(), kc.Value.ExactString(), typeKey(T), len(tab))
		}
	}
	return false, ""
}

// sameValue: a and b denote the same run-time value (same SSA value, or loads of one load class).
func (f *FA) sameValue(a, b ssa.Value) bool {
	if a == b {
		return true
	}
	ua, ok1 := a.(*ssa.UnOp)
	ub, ok2 := b.(*ssa.UnOp)
	if ok1 && ok2 {
		ca, ok1 := f.loadCls[ua]
		cb, ok2 := f.loadCls[ub]
		return ok1 && ok2 && ca == cb
	}
	return false
}

// ---- nil ----

// phiWebHasNil: v, followed through φ-nodes, includes the nil constant.
func phiWebHasNil(v ssa.Value, seen map[ssa.Value]bool) bool {
	if seen[v] {
		return false
	}
	seen[v] = true
	switch x := v.(type) {
	case *ssa.Const:
		return x.Value == nil
	case *ssa.Phi:
		for _, e := range x.Edges {
			if phiWebHasNil(e, seen) {
				return true
			}
		}
	}
	return false
}

func (e *E2) derefObl(f *FA, ins ssa.Instruction, ptr ssa.Value, facts []Fact) {
	if _, isPtr := ptr.Type().Underlying().(*types.Pointer); !isPtr {
		return
	}
	if !phiWebHasNil(ptr, map[ssa.Value]bool{}) {
		return
	}
	// dominating non-nil test on this very value
	for b := ins.Block(); b != nil; b = b.Idom() {
		if len(b.Preds) != 1 {
			continue
		}
		p := b.Preds[0]
		iff, ok := p.Instrs[len(p.Instrs)-1].(*ssa.If)
		if !ok {
			continue
		}
		cond, ok := iff.Cond.(*ssa.BinOp)
		if !ok {
			continue
		}
		var other ssa.Value
		if cond.X == ptr {
			other = cond.Y
		} else if cond.Y == ptr {
			other = cond.X
		} else {
			continue
		}
		if !isNilConst(other) {
			continue
		}
		onTrue := p.Succs[0] == b
		if (cond.Op == token.NEQ && onTrue) || (cond.Op == token.EQL && !onTrue) {
			e.discharged(f, ins, "nil.deref", "pointer non-nil", "dominated by an explicit nil test", true)
			return
		}
	}
	if e.NonNil != nil {
		if ok, why := e.NonNil(f, ptr); ok {
			e.discharged(f, ins, "nil.deref", "pointer non-nil", why, true)
			return
		}
	}
	e.violated(f, ins, "nil.deref", "pointer non-nil", "the pointer may be nil here (a φ-node merges the nil constant) and no dominating test or lemma excludes it")
}

// mapNonNil computes, for every MapUpdate, whether its map operand is non-nil on all paths.
// Recognised sources: MakeMap; a field load whose every reaching definition is either a store of a
// MakeMap result or a load that passed a != nil test (forward must-analysis on field keys).
func (e *E2) mapNonNil(f *FA) map[*ssa.MapUpdate]bool {
	out := map[*ssa.MapUpdate]bool{}
	type state map[string]bool // canonical field -> known non-nil
	fn := f.Fn
	in := map[*ssa.BasicBlock]state{}
	copyS := func(s state) state {
		r := state{}
		for k, v := range s {
			if v {
				r[k] = true
			}
		}
		return r
	}
	fieldOf := func(v ssa.Value) (string, string, bool) {
		u, ok := v.(*ssa.UnOp)
		if !ok || u.Op != token.MUL {
			return "", "", false
		}
		fa, ok := u.X.(*ssa.FieldAddr)
		if !ok {
			return "", "", false
		}
		return fmt.Sprintf("%s.%d", f.canon(fa.X), fa.Field), FieldKey(fa.X.Type(), fa.Field), true
	}
	transfer := func(b *ssa.BasicBlock, s state, record bool) state {
		s = copyS(s)
		for _, ins := range b.Instrs {
			switch x := ins.(type) {
			case *ssa.Store:
				if fa, ok := x.Addr.(*ssa.FieldAddr); ok {
					k := fmt.Sprintf("%s.%d", f.canon(fa.X), fa.Field)
					ek := FieldKey(fa.X.Type(), fa.Field)
					// any store to this field key kills all canonical entries of that key, then sets this one
					for kk := range s {
						if strings.HasSuffix(kk, "|"+ek) {
							delete(s, kk)
						}
					}
					if _, isMake := x.Val.(*ssa.MakeMap); isMake {
						s[k+"|"+ek] = true
					}
				}
			case ssa.CallInstruction:
				for kk := range s {
					ek := kk[strings.LastIndex(kk, "|")+1:]
					if e.C.CallMayWrite(x, ek) {
						delete(s, kk)
					}
				}
			case *ssa.MapUpdate:
				if record {
					if _, isMake := x.Map.(*ssa.MakeMap); isMake {
						out[x] = true
					} else if k, ek, ok := fieldOf(x.Map); ok && s[k+"|"+ek] {
						// the load must come after the state was established: loads are pure, and the
						// state at the load equals the state here unless a kill intervened, in which case
						// the entry would be gone.
						out[x] = true
					}
				}
			}
		}
		return s
	}
	// edge refinement: if a block ends in `if load(field) == nil`, the non-nil successor knows the field is non-nil
	edgeState := func(p *ssa.BasicBlock, succ int, s state) state {
		iff, ok := p.Instrs[len(p.Instrs)-1].(*ssa.If)
		if !ok {
			return s
		}
		cond, ok := iff.Cond.(*ssa.BinOp)
		if !ok || (cond.Op != token.EQL && cond.Op != token.NEQ) {
			return s
		}
		x, y := cond.X, cond.Y
		if isNilConst(x) {
			x, y = y, x
		}
		if !isNilConst(y) {
			return s
		}
		k, ek, ok := fieldOf(x)
		if !ok {
			return s
		}
		nonNilOnTrue := cond.Op == token.NEQ
		if (succ == 0) == nonNilOnTrue {
			// the load must not be followed by a kill inside p: loads sit before the If; check no store/call after the load
			u := x.(*ssa.UnOp)
			if u.Block() == p {
				li := instrIndex(u)
				for _, ins := range p.Instrs[li+1:] {
					switch z := ins.(type) {
					case *ssa.Store:
						if addrEffect(z.Addr) == ek {
							return s
						}
					case ssa.CallInstruction:
						if e.C.CallMayWrite(z, ek) {
							return s
						}
					}
				}
				s = copyS(s)
				s[k+"|"+ek] = true
			}
		}
		return s
	}
	// iterate to fixpoint (must-analysis: start optimistic = nil (unvisited), meet = intersection)
	order := fn.DomPreorder()
	outS := map[*ssa.BasicBlock]state{}
	for changed, iter := true, 0; changed && iter < 50; iter++ {
		changed = false
		for _, b := range order {
			var s state
			if b == fn.Blocks[0] {
				s = state{}
			} else {
				first := true
				for _, p := range b.Preds {
					ps, ok := outS[p]
					if !ok {
						continue // not yet visited: optimistic
					}
					idx := 0
					for i, sc := range p.Succs {
						if sc == b {
							idx = i
						}
					}
					es := edgeState(p, idx, ps)
					if first {
						s = copyS(es)
						first = false
					} else {
						for k := range s {
							if !es[k] {
								delete(s, k)
							}
						}
					}
				}
				if s == nil {
					s = state{}
				}
			}
			in[b] = s
			ns := transfer(b, s, false)
			old, ok := outS[b]
			if !ok || len(old) != len(ns) {
				changed = true
			} else {
				for k := range ns {
					if !old[k] {
						changed = true
					}
				}
			}
			outS[b] = ns
		}
	}
	for _, b := range order {
		transfer(b, in[b], true)
	}
	return out
}

// ---- calls ----

func paramDerivedSlices(fn *ssa.Function) map[ssa.Value]bool {
	t := map[ssa.Value]bool{}
	for _, p := range fn.Params {
		if _, ok := p.Type().Underlying().(*types.Slice); ok {
			t[p] = true
		}
	}
	for changed := true; changed; {
		changed = false
		for _, b := range fn.Blocks {
			for _, ins := range b.Instrs {
				v, ok := ins.(ssa.Value)
				if !ok || t[v] {
					continue
				}
				switch x := ins.(type) {
				case *ssa.Slice:
					if t[x.X] {
						t[v] = true
						changed = true
					}
				case *ssa.Phi:
					for _, e := range x.Edges {
						if t[e] {
							t[v] = true
							changed = true
						}
					}
				case *ssa.ChangeType:
					if t[x.X] {
						t[v] = true
						changed = true
					}
				}
			}
		}
	}
	return t
}

func (e *E2) callObl(f *FA, call *ssa.Call, facts []Fact, tainted map[ssa.Value]bool) {
	cm := call.Common()
	if bi, ok := cm.Value.(*ssa.Builtin); ok {
		switch bi.Name() {
		case "cap":
			if e.Strict {
				e.violated(f, call, "hygiene.cap", "cap()", "cap() observed in decode scope: results could depend on spare capacity")
			}
		case "append":
			if e.Strict && tainted[cm.Args[0]] {
				e.violated(f, call, "hygiene.cap", "append onto input", "append onto a parameter-derived slice writes into (or depends on) the caller's spare capacity")
			}
		case "recover":
			e.violated(f, call, "panic.explicit", "recover", "recover in scope")
		case "panic":
			e.violated(f, call, "panic.explicit", "panic", "explicit panic in scope")
		}
		return
	}
	cs := e.C.CalleesAt(call)
	if cm.IsInvoke() {
		// nil interface receiver: only φ-webs with nil are considered (class 7)
		if phiWebHasNil(cm.Value, map[ssa.Value]bool{}) {
			e.violated(f, call, "nil.deref", "interface non-nil", "method call on an interface value that may be nil")
		}
	}
	if cs.Dynamic && len(cs.Mod) == 0 {
		e.undecided(f, call, "ext.contract", "dynamic call", "call through a function value with no resolvable target")
	}
	for _, name := range cs.External {
		ct, ok := e2Contracts[name]
		if !ok {
			e.undecided(f, call, "ext.contract", name, "external callee "+name+" has no entry in the contract table; its panic behaviour is unknown")
			continue
		}
		if ct.pre == nil {
			e.discharged(f, call, "ext.contract", name, ct.why, false)
			continue
		}
		ct.pre(e, f, call, facts, name)
	}
}

// ---- interprocedural summaries used as hooks ----

// callRange: interval of the integer result of a call to module functions (join over callees
// and return sites, evaluated in the callee with closed-world field ranges). One level deep.
func (c *Ctx) callRange(call *ssa.Call) (int64, int64, bool) {
	if c.crDepth > 2 {
		return 0, 0, false
	}
	c.crDepth++
	defer func() { c.crDepth-- }()
	cs := c.CalleesAt(call)
	if len(cs.Mod) == 0 && len(cs.External) == 1 && cs.External[0] == "iface:hash.Hash.Size" {
		lo, hi := c.moduleHashSizeRange()
		return lo, hi, true
	}
	if len(cs.External) > 0 || len(cs.Mod) == 0 {
		return 0, 0, false
	}
	lo, hi := int64(INF), int64(-INF)
	for _, m := range cs.Mod {
		m = c.unwrap(m)
		if m.Blocks == nil {
			return 0, 0, false
		}
		cf := c.summaryFA(m)
		for _, b := range m.Blocks {
			for _, ins := range b.Instrs {
				r, ok := ins.(*ssa.Return)
				if !ok || len(r.Results) != 1 {
					continue
				}
				blo, bhi := cf.bounds(cf.LFOf(r.Results[0]), cf.refine(cf.FactsAt(b)))
				if blo < lo {
					lo = blo
				}
				if bhi > hi {
					hi = bhi
				}
			}
		}
	}
	if lo > hi {
		return 0, 0, false
	}
	return lo, hi, true
}

func (c *Ctx) summaryFA(fn *ssa.Function) *FA {
	if c.sumFA == nil {
		c.sumFA = map[*ssa.Function]*FA{}
	}
	if f, ok := c.sumFA[fn]; ok {
		return f
	}
	f := c.NewFA(fn)
	c.sumFA[fn] = f
	return f
}

// Hash sizes of the standard constructors (E6 reference data).
var hashSizes = map[string]int64{"crypto/md5.New": 16, "crypto/sha1.New": 20, "crypto/sha256.New": 32}

// callLen: length of the slice returned by a call.
func (c *Ctx) callLen(f *FA, call *ssa.Call) (LF, bool) {
	cs := c.CalleesAt(call)
	for _, e := range cs.External {
		if e == "iface:hash.Hash.Sum" && len(cs.Mod) == 0 {
			// Sum(p) appends Size() octets; Size is between the smallest and largest hash the module constructs
			return f.SliceLen(call.Call.Args[0]).add(c.hashSizeLF(f, call.Call.Value), 1), true
		}
	}
	return LF{}, false
}

// hashSizeLF: Size() of a hash object: the constant of its constructor when the object is made right here
// (hmac.New(sha256.New, key), sha256.New()), else one atom per object between the smallest and the largest hash
// the module constructs.
func (c *Ctx) hashSizeLF(f *FA, obj ssa.Value) LF {
	if call, ok := obj.(*ssa.Call); ok {
		if g := call.Call.StaticCallee(); g != nil {
			if g.String() == "crypto/hmac.New" && len(call.Call.Args) == 2 {
				if h, ok := call.Call.Args[0].(*ssa.Function); ok {
					if s, ok := hashSizes[h.String()]; ok {
						return konst(s)
					}
				}
			}
			if s, ok := hashSizes[g.String()]; ok {
				return konst(s)
			}
		}
	}
	lo, hi := c.moduleHashSizeRange()
	return f.atomLF("hashsize:"+f.canon(obj), "Size("+f.canon(obj)+")", lo, hi)
}

func (c *Ctx) moduleHashSizeRange() (int64, int64) {
	lo, hi := int64(INF), int64(0)
	for _, fn := range c.ModFuncs {
		for _, b := range fn.Blocks {
			for _, ins := range b.Instrs {
				for _, op := range ins.Operands(nil) {
					if g, ok := (*op).(*ssa.Function); ok {
						if s, ok := hashSizes[g.String()]; ok {
							if s < lo {
								lo = s
							}
							if s > hi {
								hi = s
							}
						}
					}
				}
			}
		}
	}
	if lo > hi {
		return 0, 64
	}
	return lo, hi
}

// ---- termination ----

type loopInfo struct {
	header *ssa.BasicBlock
	backs  []*ssa.BasicBlock
	body   map[*ssa.BasicBlock]bool
}

func naturalLoops(fn *ssa.Function) []*loopInfo {
	byHeader := map[*ssa.BasicBlock]*loopInfo{}
	var order []*ssa.BasicBlock
	for _, b := range fn.Blocks {
		for _, s := range b.Succs {
			if s.Dominates(b) {
				li := byHeader[s]
				if li == nil {
					li = &loopInfo{header: s, body: map[*ssa.BasicBlock]bool{s: true}}
					byHeader[s] = li
					order = append(order, s)
				}
				li.backs = append(li.backs, b)
				// body: nodes that reach b without passing s
				st := []*ssa.BasicBlock{b}
				for len(st) > 0 {
					x := st[len(st)-1]
					st = st[:len(st)-1]
					if li.body[x] {
						continue
					}
					li.body[x] = true
					st = append(st, x.Preds...)
				}
			}
		}
	}
	var out []*loopInfo
	for _, h := range order {
		out = append(out, byHeader[h])
	}
	return out
}

// irreducible: a retreating edge whose target does not dominate its source.
func hasIrreducibleCycle(fn *ssa.Function) bool {
	// DFS; a back edge in DFS tree whose target does not dominate the source
	state := map[*ssa.BasicBlock]int{}
	bad := false
	var dfs func(b *ssa.BasicBlock)
	dfs = func(b *ssa.BasicBlock) {
		state[b] = 1
		for _, s := range b.Succs {
			switch state[s] {
			case 0:
				dfs(s)
			case 1:
				if !s.Dominates(b) {
					bad = true
				}
			}
		}
		state[b] = 2
	}
	if len(fn.Blocks) > 0 {
		dfs(fn.Blocks[0])
	}
	return bad
}

func (e *E2) loopObls(f *FA) {
	fn := f.Fn
	if hasIrreducibleCycle(fn) {
		e.R.undecided(e.rule("term.loop"), e.C.FuncName(fn)+": irreducible control flow", e.C.Pos(fn.Pos()), "control-flow cycle that is not a natural loop")
	}
	for _, li := range naturalLoops(fn) {
		if f.Dead[li.header] {
			continue
		}
		e.loops++
		hdrIns := li.header.Instrs[0]
		pos := e.C.InstrPos(li.header.Instrs[len(li.header.Instrs)-1])
		desc := e.loopDesc(li)
		key := fmt.Sprintf("%s: loop %s", e.C.FuncName(fn), desc)
		if ok, why := e.variant(f, li); ok {
			e.R.Add(Obligation{Rule: e.rule("term.loop"), Key: key, Pos: pos, Verdict: Discharged, Detail: why, NonTrivial: true})
		} else {
			e.R.Add(Obligation{Rule: e.rule("term.loop"), Key: key, Pos: pos, Verdict: Violated, Detail: "no variant template (T1 cursor shrink, T2 count down, T3 count up to invariant bound, T4 reader consume, T5 range) matches this loop: " + why, NonTrivial: true})
		}
		_ = hdrIns
	}
}

func (e *E2) loopDesc(li *loopInfo) string {
	// describe the loop by its header condition source text, or its first positioned instruction
	last := li.header.Instrs[len(li.header.Instrs)-1]
	if iff, ok := last.(*ssa.If); ok {
		if ins, ok := iff.Cond.(ssa.Instruction); ok {
			return "[" + e.C.SrcExpr(ins) + "]"
		}
	}
	for _, ins := range li.header.Instrs {
		if ins.Pos().IsValid() {
			return "[" + e.C.SrcExpr(ins) + "]"
		}
	}
	return "[header " + li.header.String() + "]"
}

// definedInLoop reports whether v is an instruction inside the loop body.
func definedInLoop(v ssa.Value, li *loopInfo) bool {
	ins, ok := v.(ssa.Instruction)
	if !ok {
		return false
	}
	return li.body[ins.Block()]
}

// invariant: v's value does not change across iterations (defined outside the loop, or a pure
// computation over invariant operands; len() of an invariant slice).
func (e *E2) invariant(v ssa.Value, li *loopInfo, depth int) bool {
	if !definedInLoop(v, li) {
		return true
	}
	if depth > 8 {
		return false
	}
	switch x := v.(type) {
	case *ssa.BinOp:
		return e.invariant(x.X, li, depth+1) && e.invariant(x.Y, li, depth+1)
	case *ssa.Convert:
		return e.invariant(x.X, li, depth+1)
	case *ssa.ChangeType:
		return e.invariant(x.X, li, depth+1)
	case *ssa.Call:
		if b, ok := x.Call.Value.(*ssa.Builtin); ok && b.Name() == "len" {
			return e.invariant(x.Call.Args[0], li, depth+1)
		}
	case *ssa.UnOp:
		// a load of a field of an invariant object that nothing in the loop writes
		if x.Op != token.MUL {
			return false
		}
		fa, ok := x.X.(*ssa.FieldAddr)
		if !ok || !e.invariant(fa.X, li, depth+1) {
			return false
		}
		ek := FieldKey(fa.X.Type(), fa.Field)
		for b := range li.body {
			for _, ins := range b.Instrs {
				switch y := ins.(type) {
				case *ssa.Store:
					if addrEffect(y.Addr) == ek {
						return false
					}
				case ssa.CallInstruction:
					if e.C.CallMayWrite(y, ek) {
						return false
					}
				}
			}
		}
		return true
	case *ssa.Slice:
		ok := e.invariant(x.X, li, depth+1)
		if x.Low != nil {
			ok = ok && e.invariant(x.Low, li, depth+1)
		}
		if x.High != nil {
			ok = ok && e.invariant(x.High, li, depth+1)
		}
		return ok
	}
	return false
}

func (e *E2) variant(f *FA, li *loopInfo) (bool, string) {
	var reasons []string
	// φ-nodes at the header
	var phis []*ssa.Phi
	for _, ins := range li.header.Instrs {
		if p, ok := ins.(*ssa.Phi); ok {
			phis = append(phis, p)
		}
	}
	backIdx := func(p *ssa.Phi) []int {
		var idx []int
		for i, pr := range li.header.Preds {
			for _, b := range li.backs {
				if pr == b {
					idx = append(idx, i)
				}
			}
		}
		return idx
	}
	// T1 cursor shrink
	for _, p := range phis {
		if _, ok := p.Type().Underlying().(*types.Slice); !ok {
			continue
		}
		ok := true
		lp := f.SliceLen(p)
		var ks []string
		for _, i := range backIdx(p) {
			ev := p.Edges[i]
			le := f.SliceLen(ev)
			// need len(φ) - len(edge) - 1 >= 0 at the back-edge source
			g := lp.add(le, -1).add(konst(1), -1)
			facts := f.FactsAt(li.header.Preds[i])
			if ins, isIns := ev.(ssa.Instruction); isIns {
				facts = append(facts, f.FactsAt(ins.Block())...)
			}
			if pr, _ := f.Prove(g, facts); !pr {
				ok = false
				reasons = append(reasons, fmt.Sprintf("T1 on %s: cannot prove the cursor shrinks (%s >= 0)", p.Name(), f.Show(g)))
				break
			}
			ks = append(ks, f.Show(lp.add(le, -1)))
		}
		if ok && len(backIdx(p)) > 0 {
			return true, fmt.Sprintf("T1 cursor shrink: variant len(%s) >= 0 decreases on every back edge by %s >= 1", p.Comment, strings.Join(ks, " / "))
		}
	}
	// T2 count down (unsigned or guarded)
	for _, p := range phis {
		if _, _, isInt := f.typeRange(p.Type()); !isInt {
			continue
		}
		ok := len(backIdx(p)) > 0
		for _, i := range backIdx(p) {
			b, isB := p.Edges[i].(*ssa.BinOp)
			if !isB || b.Op != token.SUB || b.X != ssa.Value(p) {
				ok = false
				break
			}
			c, isC := b.Y.(*ssa.Const)
			if !isC || c.Value == nil {
				ok = false
				break
			}
			step, _ := constant.Int64Val(c.Value)
			if step < 1 {
				ok = false
				break
			}
			// no wrap: φ - step >= 0 at the subtraction
			g := f.LFOf(p).add(konst(step), -1)
			if pr, _ := f.Prove(g, f.FactsAt(b.Block())); !pr {
				ok = false
				reasons = append(reasons, fmt.Sprintf("T2 on %s: cannot prove %s >= 0 before the decrement (wrap-around)", p.Name(), f.Show(g)))
				break
			}
		}
		if ok {
			return true, fmt.Sprintf("T2 count down: variant %s >= 0 decreases by a positive constant on every back edge and the guard excludes wrap-around", p.Comment)
		}
	}
	// T3 count up to a loop-invariant bound
	for _, p := range phis {
		if _, _, isInt := f.typeRange(p.Type()); !isInt {
			continue
		}
		ok := len(backIdx(p)) > 0
		for _, i := range backIdx(p) {
			b, isB := p.Edges[i].(*ssa.BinOp)
			if isB && b.Op == token.ADD && b.X != ssa.Value(p) {
				// the counter advanced through intermediate values: p = (p + 4) + n
				rest, k, okA := addendsBeside(p.Edges[i], p)
				if !okA || k < 0 {
					ok = false
					break
				}
				facts := f.FactsAt(li.header.Preds[i])
				env := f.refine(facts)
				sum := konst(k)
				for _, r := range rest {
					if dependsOnValue(r, p, 0) {
						ok = false
						break
					}
					lo, hi := f.bounds(f.LFOf(r), env)
					if lo < 0 || hi > 1<<20 {
						ok = false
						break
					}
					sum = sum.add(f.LFOf(r), 1)
				}
				if !ok {
					break
				}
				if pr, _ := f.Prove(sum.add(konst(1), -1), facts); !pr {
					ok = false
					reasons = append(reasons, fmt.Sprintf("T3 on %s: cannot prove the step %s >= 1 on the back edge", p.Name(), f.Show(sum)))
					break
				}
				continue
			}
			if !isB || b.Op != token.ADD || b.X != ssa.Value(p) {
				ok = false
				break
			}
			c, isC := b.Y.(*ssa.Const)
			if !isC || c.Value == nil {
				// a variable step: it must be provably >= 1 where the back edge is taken, must not depend on
				// the counter, and small enough not to wrap (the induction rule of E1 requires the same)
				if dependsOnValue(b.Y, p, 0) {
					ok = false
					break
				}
				facts := f.FactsAt(li.header.Preds[i])
				if pr, _ := f.Prove(f.LFOf(b.Y).add(konst(1), -1), facts); !pr {
					ok = false
					reasons = append(reasons, fmt.Sprintf("T3 on %s: cannot prove the step %s >= 1 on the back edge", p.Name(), f.Show(f.LFOf(b.Y))))
					break
				}
				if _, hi := f.bounds(f.LFOf(b.Y), f.refine(facts)); hi > 1<<20 {
					ok = false
					break
				}
				continue
			}
			step, _ := constant.Int64Val(c.Value)
			if step < 1 {
				ok = false
				break
			}
		}
		if !ok {
			continue
		}
		// a conditional exit inside the loop that every back edge passes on its "stay" side, of the form φ(+k) < B with B invariant
		if why, ok := e.countUpGuard(f, li, p); ok {
			return true, "T3 count up: " + why
		} else if why != "" {
			reasons = append(reasons, "T3 on "+p.Name()+": "+why)
		}
	}
	// T4 reader consume
	if why, ok := e.readerConsume(f, li); ok {
		return true, "T4 reader consume: " + why
	} else if why != "" {
		reasons = append(reasons, "T4: "+why)
	}
	// T5 range over map / string: header contains Next on a Range iterator
	for _, b := range sortedBlocks(li.body) {
		for _, ins := range b.Instrs {
			if n, ok := ins.(*ssa.Next); ok {
				if rg, ok := n.Iter.(*ssa.Range); ok && !li.body[rg.Block()] {
					// the loop continues only while Next reports ok: find If on Extract(n,0)
					if e.nextGuards(li, n) {
						if _, isMap := rg.X.Type().Underlying().(*types.Map); isMap {
							// the map must not grow inside the loop
							mk := "map:" + typeKey(rg.X.Type())
							grows := false
							for _, bb := range sortedBlocks(li.body) {
								for _, i2 := range bb.Instrs {
									switch z := i2.(type) {
									case *ssa.MapUpdate:
										if "map:"+typeKey(z.Map.Type()) == mk {
											grows = true
										}
									case ssa.CallInstruction:
										if e.C.CallMayWrite(z, mk) {
											grows = true
										}
									}
								}
							}
							if grows {
								reasons = append(reasons, "T5: the ranged map may be updated inside the loop")
								continue
							}
						}
						return true, "T5 range: iteration over a finite map/string that is not grown inside the loop"
					}
				}
			}
		}
	}
	return false, strings.Join(reasons, "; ")
}

func sortedBlocks(m map[*ssa.BasicBlock]bool) []*ssa.BasicBlock {
	out := make([]*ssa.BasicBlock, 0, len(m))
	for b := range m {
		out = append(out, b)
	}
	sort.Slice(out, func(i, j int) bool { return out[i].Index < out[j].Index })
	return out
}

func (e *E2) nextGuards(li *loopInfo, n *ssa.Next) bool {
	for _, ref := range *n.Referrers() {
		ex, ok := ref.(*ssa.Extract)
		if !ok || ex.Index != 0 {
			continue
		}
		for _, r2 := range *ex.Referrers() {
			iff, ok := r2.(*ssa.If)
			if !ok {
				continue
			}
			b := iff.Block()
			// false edge must leave the loop
			if !li.body[b.Succs[1]] {
				// and every back edge is dominated by the true successor
				all := true
				for _, bk := range li.backs {
					if !b.Succs[0].Dominates(bk) {
						all = false
					}
				}
				if all {
					return true
				}
			}
		}
	}
	return false
}

// countUpGuard looks for an If inside the loop whose stay-edge dominates every back-edge source and
// whose condition bounds φ (+k) strictly by a loop-invariant quantity.
func (e *E2) countUpGuard(f *FA, li *loopInfo, p *ssa.Phi) (string, bool) {
	why := ""
	for _, b := range sortedBlocks(li.body) {
		iff, ok := b.Instrs[len(b.Instrs)-1].(*ssa.If)
		if !ok {
			continue
		}
		cond, ok := iff.Cond.(*ssa.BinOp)
		if !ok {
			continue
		}
		for si := 0; si < 2; si++ {
			stay, leave := b.Succs[si], b.Succs[1-si]
			if li.body[leave] || !li.body[stay] {
				continue
			}
			dom := true
			for _, bk := range li.backs {
				if !(stay.Dominates(bk)) || len(stay.Preds) != 1 {
					dom = false
				}
			}
			if !dom {
				continue
			}
			// normalise to  L < R  or L <= R holding on the stay edge
			op := cond.Op
			L, R := cond.X, cond.Y
			if si == 1 { // stay on false: negate
				switch op {
				case token.LSS:
					op, L, R = token.LEQ, R, L // !(L<R) = R<=L
				case token.LEQ:
					op, L, R = token.LSS, R, L
				case token.GTR:
					op = token.LEQ
				case token.GEQ:
					op = token.LSS
				default:
					continue
				}
			} else {
				switch op {
				case token.GTR:
					op, L, R = token.LSS, R, L
				case token.GEQ:
					op, L, R = token.LEQ, R, L
				case token.LSS, token.LEQ:
				default:
					continue
				}
			}
			// L must be φ + k (k >= 0 const) and R invariant
			lf := f.LFOf(L)
			pid, isAtom := singleAtom(f.LFOf(p))
			if !isAtom {
				continue
			}
			if k, ok := lf.T[pid]; !ok || k < 1 || len(lf.T) != 1 {
				why = "guard left side " + f.Show(lf) + " is not φ + const"
				continue
			}
			if !e.invariant(R, li, 0) {
				why = "bound of the guard is not loop-invariant"
				continue
			}
			_, rhi := f.bounds(f.LFOf(R), nil)
			if rhi >= INF {
				why = "bound of the guard has no finite upper bound"
				continue
			}
			return fmt.Sprintf("variant (%s) - %s decreases on every back edge; the stay edge of [%s] dominates all back edges and its bound is loop-invariant", f.Show(f.LFOf(R)), p.Comment, e.C.SrcExpr(cond)), true
		}
	}
	return why, false
}

func singleAtom(l LF) (int, bool) {
	if l.C != 0 || len(l.T) != 1 {
		return 0, false
	}
	for x, k := range l.T {
		if k == 1 {
			return x, true
		}
	}
	return 0, false
}

// readerConsume: T4. Some call R.ReadByte() (R a *bufio.Reader built outside the loop on a
// bytes.Reader) is executed on every iteration (its block dominates all back-edge sources), and
// the non-nil-error edge of its error test leaves the loop.
func (e *E2) readerConsume(f *FA, li *loopInfo) (string, bool) {
	why := ""
	for _, b := range sortedBlocks(li.body) {
		for _, ins := range b.Instrs {
			call, ok := ins.(*ssa.Call)
			if !ok {
				continue
			}
			callee := call.Call.StaticCallee()
			if callee == nil || callee.String() != "(*bufio.Reader).ReadByte" {
				continue
			}
			rdr := call.Call.Args[0]
			if definedInLoop(rdr, li) {
				why = "reader is created inside the loop"
				continue
			}
			if !e.finiteReader(rdr) {
				why = "reader is not a bufio.Reader over a bytes.Reader over a finite slice"
				continue
			}
			dom := true
			for _, bk := range li.backs {
				if !b.Dominates(bk) {
					dom = false
				}
			}
			if !dom {
				why = "the ReadByte call is not executed on every iteration"
				continue
			}
			// the error result
			var errV ssa.Value
			for _, ref := range *call.Referrers() {
				if ex, ok := ref.(*ssa.Extract); ok && ex.Index == 1 {
					errV = ex
				}
			}
			if errV == nil {
				why = "error result of ReadByte is dropped"
				continue
			}
			// find If errV != nil in the loop dominating the back edges on its nil side; non-nil side must not reach a back edge
			for _, ref := range *errV.Referrers() {
				cmp, ok := ref.(*ssa.BinOp)
				if !ok || !(cmp.Op == token.NEQ || cmp.Op == token.EQL) {
					continue
				}
				other := cmp.Y
				if cmp.Y == errV {
					other = cmp.X
				}
				if !isNilConst(other) {
					continue
				}
				for _, r2 := range *cmp.Referrers() {
					iff, ok := r2.(*ssa.If)
					if !ok {
						continue
					}
					ib := iff.Block()
					nonNilSucc := ib.Succs[0]
					nilSucc := ib.Succs[1]
					if cmp.Op == token.EQL {
						nonNilSucc, nilSucc = nilSucc, nonNilSucc
					}
					// the non-nil side must never reach the header again inside the loop
					if e.reachesWithin(nonNilSucc, li.header, li) {
						why = "the non-nil error edge of ReadByte can continue the loop"
						continue
					}
					alld := true
					for _, bk := range li.backs {
						if !nilSucc.Dominates(bk) {
							alld = false
						}
					}
					if !alld {
						continue
					}
					// no rewinding calls on the reader inside the loop
					if bad := e.rewinds(rdr, li); bad != "" {
						why = "the loop calls " + bad + " on the reader"
						continue
					}
					return "every iteration consumes at least one octet of a finite reader: [" + e.C.SrcExpr(call) + "] runs on every iteration and its error edge leaves the loop", true
				}
			}
		}
	}
	return why, false
}

func (e *E2) reachesWithin(from, target *ssa.BasicBlock, li *loopInfo) bool {
	seen := map[*ssa.BasicBlock]bool{}
	st := []*ssa.BasicBlock{from}
	for len(st) > 0 {
		x := st[len(st)-1]
		st = st[:len(st)-1]
		if x == target {
			return true
		}
		if seen[x] || !li.body[x] {
			continue
		}
		seen[x] = true
		st = append(st, x.Succs...)
	}
	return false
}

func (e *E2) finiteReader(r ssa.Value) bool {
	call, ok := r.(*ssa.Call)
	if !ok {
		return false
	}
	cal := call.Call.StaticCallee()
	if cal == nil || cal.String() != "bufio.NewReader" {
		return false
	}
	inner := call.Call.Args[0]
	if mi, ok := inner.(*ssa.MakeInterface); ok {
		inner = mi.X
	}
	c2, ok := inner.(*ssa.Call)
	if !ok {
		return false
	}
	cal2 := c2.Call.StaticCallee()
	return cal2 != nil && cal2.String() == "bytes.NewReader"
}

func (e *E2) rewinds(rdr ssa.Value, li *loopInfo) string {
	allowed := map[string]bool{"(*bufio.Reader).ReadByte": true, "io.ReadFull": true, "(*bufio.Reader).Read": true, "(*bufio.Reader).Discard": true}
	for _, b := range sortedBlocks(li.body) {
		for _, ins := range b.Instrs {
			ci, ok := ins.(ssa.CallInstruction)
			if !ok {
				continue
			}
			uses := false
			for _, a := range ci.Common().Args {
				if a == rdr {
					uses = true
				}
				if mi, ok := a.(*ssa.MakeInterface); ok && mi.X == rdr {
					uses = true
				}
			}
			if !uses {
				continue
			}
			name := ""
			if cal := ci.Common().StaticCallee(); cal != nil {
				name = cal.String()
			} else {
				name = "dynamic call"
			}
			if !allowed[name] {
				return name
			}
		}
	}
	return ""
}
