package lint

import (
	"fmt"
	"go/constant"
	"go/token"
	"go/types"
	"sort"
	"strings"

	"ikeverif/checker/xt/ssa"
)

// E6: registries, descriptors, constant evaluation of descriptor methods, decision trees.

// regEntry is one `global[key] = value` update performed by an init function.
type regEntry struct {
	Key  constant.Value
	Val  ssa.Value
	Site *ssa.MapUpdate
}

// registryEntries lists the MapUpdates on package variable rel.name, all of which must be in init.
func (c *Ctx) registryEntries(rel, name string) ([]regEntry, *ssa.Global, error) {
	p := c.Pkg(rel)
	if p == nil {
		return nil, nil, fmt.Errorf("package %s not loaded", rel)
	}
	g, ok := p.Members[name].(*ssa.Global)
	if !ok {
		return nil, nil, fmt.Errorf("%s.%s is not a package variable", rel, name)
	}
	var out []regEntry
	// a registry written as a map literal: the map is filled first and stored to the variable afterwards
	literal := map[ssa.Value]bool{}
	for _, fn := range c.ModFuncs {
		for _, b := range fn.Blocks {
			for _, ins := range b.Instrs {
				if st, ok := ins.(*ssa.Store); ok && st.Addr == ssa.Value(g) {
					if mm, ok := st.Val.(*ssa.MakeMap); ok {
						literal[mm] = true
					}
				}
			}
		}
	}
	for _, fn := range c.ModFuncs {
		for _, b := range fn.Blocks {
			for _, ins := range b.Instrs {
				mu, ok := ins.(*ssa.MapUpdate)
				if !ok {
					continue
				}
				if u, ok := mu.Map.(*ssa.UnOp); ok && u.X == ssa.Value(g) {
				} else if literal[mu.Map] {
				} else {
					continue
				}
				k, ok := mu.Key.(*ssa.Const)
				if !ok || k.Value == nil {
					return nil, g, fmt.Errorf("non-constant key at %s", c.InstrPos(mu))
				}
				val := mu.Value
				// a function stored under a named function type (`type stringifier func(...)`) is the function
				for {
					ct, ok := val.(*ssa.ChangeType)
					if !ok {
						break
					}
					val = ct.X
				}
				out = append(out, regEntry{Key: k.Value, Val: val, Site: mu})
			}
		}
	}
	sort.Slice(out, func(i, j int) bool { return out[i].Key.ExactString() < out[j].Key.ExactString() })
	return out, g, nil
}

// descriptor: a registry value that is (a pointer to) a struct literal with constant fields.
type descriptor struct {
	T      types.Type // *Struct or Struct
	Named  *types.Named
	Fields map[string]ssa.Value // field name -> stored value (zero value if absent)
	Alloc  *ssa.Alloc
}

func (c *Ctx) descriptorOf(v ssa.Value) *descriptor {
	// the registry's interface type reached through another interface (a constructor typed with a common
	// interface of the IKE and Child SA variants)
	for i := 0; i < 3; i++ {
		switch x := v.(type) {
		case *ssa.ChangeInterface:
			v = x.X
			continue
		case *ssa.ChangeType:
			if _, isIface := x.X.Type().Underlying().(*types.Interface); isIface {
				v = x.X
				continue
			}
		}
		break
	}
	if mi, ok := v.(*ssa.MakeInterface); ok {
		v = mi.X
	}
	var al *ssa.Alloc
	T := v.Type()
	switch x := v.(type) {
	case *ssa.Alloc:
		al = x
	case *ssa.UnOp: // struct value loaded from a local composite literal
		if x.Op == token.MUL {
			if a, ok := x.X.(*ssa.Alloc); ok {
				al = a
			}
		}
	}
	if al == nil {
		return nil
	}
	et := al.Type().(*types.Pointer).Elem()
	nt, _ := et.(*types.Named)
	st, ok := et.Underlying().(*types.Struct)
	if !ok {
		return nil
	}
	d := &descriptor{T: T, Named: nt, Fields: map[string]ssa.Value{}, Alloc: al}
	for _, ref := range *al.Referrers() {
		fa, ok := ref.(*ssa.FieldAddr)
		if !ok {
			continue
		}
		for _, r2 := range *fa.Referrers() {
			if s, ok := r2.(*ssa.Store); ok && s.Addr == ssa.Value(fa) {
				d.Fields[st.Field(fa.Field).Name()] = s.Val
			}
		}
	}
	return d
}

func (d *descriptor) constField(name string) (constant.Value, bool) {
	v, ok := d.Fields[name]
	if !ok {
		return nil, false
	}
	k, ok := v.(*ssa.Const)
	if !ok || k.Value == nil {
		return nil, false
	}
	return k.Value, true
}

// absVal is the abstract value of the tiny constant interpreter.
type absVal struct {
	K    constant.Value // constant, if known
	Nil  bool           // nil pointer/slice/interface/error
	Desc string         // symbolic description for non-constants (e.g. "crypto/hmac.New(crypto/md5.New, param key)")
	Top  bool
}

func (a absVal) String() string {
	switch {
	case a.K != nil:
		return a.K.ExactString()
	case a.Nil:
		return "nil"
	case a.Desc != "":
		return a.Desc
	}
	return "?"
}

// evalMethod evaluates a loop-free method by constant propagation, with the receiver's fields bound
// to the descriptor's constants and parameters bound to `params` (nil = unknown).
// It returns, per Return reached, the abstract results. Branches on unknown conditions fork.
type evalResult struct {
	Results []absVal
	Path    []string // branch decisions taken on unknown conditions (description)
}

func (c *Ctx) evalMethod(fn *ssa.Function, d *descriptor, params map[int]absVal) ([]evalResult, error) {
	if fn == nil || fn.Blocks == nil {
		return nil, fmt.Errorf("no body")
	}
	var out []evalResult
	type frame struct {
		b    *ssa.BasicBlock
		prev *ssa.BasicBlock
		env  map[ssa.Value]absVal
		path []string
		n    int
	}
	var run func(fr frame) error
	run = func(fr frame) error {
		if fr.n > 64 {
			return fmt.Errorf("path too long (loop?)")
		}
		env := fr.env
		get := func(v ssa.Value) absVal {
			if a, ok := env[v]; ok {
				return a
			}
			switch x := v.(type) {
			case *ssa.Const:
				if x.Value == nil {
					return absVal{Nil: true}
				}
				return absVal{K: x.Value}
			case *ssa.Parameter:
				for i, p := range fn.Params {
					if p == x {
						if a, ok := params[i]; ok {
							return a
						}
						return absVal{Desc: "param " + x.Name()}
					}
				}
			case *ssa.Function:
				return absVal{Desc: x.String()}
			case *ssa.Global:
				return absVal{Desc: "&" + x.String()}
			}
			return absVal{Top: true}
		}
		for _, ins := range fr.b.Instrs {
			switch x := ins.(type) {
			case *ssa.Phi:
				for i, p := range fr.b.Preds {
					if p == fr.prev {
						env[x] = get(x.Edges[i])
					}
				}
			case *ssa.FieldAddr:
				if len(fn.Params) > 0 && x.X == ssa.Value(fn.Params[0]) && d != nil {
					st := d.Alloc.Type().(*types.Pointer).Elem().Underlying().(*types.Struct)
					name := st.Field(x.Field).Name()
					env[x] = absVal{Desc: "&recv." + name}
				} else {
					env[x] = absVal{Top: true}
				}
			case *ssa.UnOp:
				switch x.Op {
				case token.MUL:
					a := get(x.X)
					if strings.HasPrefix(a.Desc, "&recv.") && d != nil {
						name := strings.TrimPrefix(a.Desc, "&recv.")
						if sv, ok := d.Fields[name]; ok {
							if k, ok := sv.(*ssa.Const); ok {
								if k.Value == nil {
									env[x] = absVal{Nil: true}
								} else {
									env[x] = absVal{K: k.Value}
								}
							} else {
								env[x] = absVal{Desc: "recv." + name}
							}
						} else {
							// zero value
							env[x] = zeroAbs(x.Type())
						}
					} else if strings.HasPrefix(a.Desc, "&") {
						env[x] = absVal{Desc: "*" + a.Desc[1:]}
					} else {
						env[x] = absVal{Top: true}
					}
				case token.NOT:
					a := get(x.X)
					if a.K != nil && a.K.Kind() == constant.Bool {
						env[x] = absVal{K: constant.MakeBool(!constant.BoolVal(a.K))}
					} else {
						env[x] = absVal{Top: true}
					}
				default:
					env[x] = absVal{Top: true}
				}
			case *ssa.BinOp:
				a, b := get(x.X), get(x.Y)
				env[x] = absBinOp(x.Op, a, b, x.Type())
			case *ssa.Convert:
				a := get(x.X)
				if a.K != nil && a.K.Kind() == constant.Int {
					if v, ok := constant.Int64Val(a.K); ok {
						env[x] = absVal{K: constant.MakeInt64(truncTo(v, x.Type()))}
						break
					}
				}
				env[x] = a
			case *ssa.ChangeType:
				env[x] = get(x.X)
			case *ssa.MakeInterface:
				env[x] = get(x.X)
			case *ssa.Call:
				var parts []string
				name := "?"
				if cal := x.Call.StaticCallee(); cal != nil {
					name = cal.String()
				} else if x.Call.IsInvoke() {
					name = "invoke " + x.Call.Method.Name()
				} else if bi, ok := x.Call.Value.(*ssa.Builtin); ok {
					name = bi.Name()
				}
				for _, a := range x.Call.Args {
					parts = append(parts, get(a).String())
				}
				if name == "len" && len(x.Call.Args) == 1 {
					a := get(x.Call.Args[0])
					if a.K != nil && a.K.Kind() == constant.String {
						env[x] = absVal{K: constant.MakeInt64(int64(len(constant.StringVal(a.K))))}
						break
					}
					env[x] = absVal{Desc: "len(" + a.String() + ")"}
					break
				}
				env[x] = absVal{Desc: name + "(" + strings.Join(parts, ", ") + ")"}
			case *ssa.Extract:
				env[x] = absVal{Desc: fmt.Sprintf("%s#%d", get(x.Tuple).String(), x.Index)}
			case *ssa.Alloc, *ssa.Store, *ssa.IndexAddr, *ssa.Slice, *ssa.DebugRef:
				if v, ok := ins.(ssa.Value); ok {
					env[v] = absVal{Top: true}
				}
			case *ssa.Return:
				var res []absVal
				for _, rv := range x.Results {
					res = append(res, get(rv))
				}
				out = append(out, evalResult{Results: res, Path: append([]string(nil), fr.path...)})
				return nil
			case *ssa.Jump:
				return run(frame{b: fr.b.Succs[0], prev: fr.b, env: env, path: fr.path, n: fr.n + 1})
			case *ssa.If:
				cv := get(x.Cond)
				if cv.K != nil && cv.K.Kind() == constant.Bool {
					s := fr.b.Succs[1]
					if constant.BoolVal(cv.K) {
						s = fr.b.Succs[0]
					}
					return run(frame{b: s, prev: fr.b, env: env, path: fr.path, n: fr.n + 1})
				}
				for i, s := range fr.b.Succs {
					ne := map[ssa.Value]absVal{}
					for k, v := range env {
						ne[k] = v
					}
					dec := fmt.Sprintf("%s is %v", c.SrcExpr(x.Cond.(ssa.Instruction)), i == 0)
					if err := run(frame{b: s, prev: fr.b, env: ne, path: append(append([]string(nil), fr.path...), dec), n: fr.n + 1}); err != nil {
						return err
					}
				}
				return nil
			case *ssa.Panic:
				return nil
			default:
				if v, ok := ins.(ssa.Value); ok {
					env[v] = absVal{Top: true}
				}
			}
		}
		return nil
	}
	err := run(frame{b: fn.Blocks[0], env: map[ssa.Value]absVal{}})
	return out, err
}

func zeroAbs(t types.Type) absVal {
	switch u := t.Underlying().(type) {
	case *types.Basic:
		switch {
		case u.Info()&types.IsBoolean != 0:
			return absVal{K: constant.MakeBool(false)}
		case u.Info()&types.IsInteger != 0:
			return absVal{K: constant.MakeInt64(0)}
		case u.Info()&types.IsString != 0:
			return absVal{K: constant.MakeString("")}
		}
	case *types.Pointer, *types.Slice, *types.Map, *types.Interface, *types.Signature:
		return absVal{Nil: true}
	}
	return absVal{Top: true}
}

func absBinOp(op token.Token, a, b absVal, t types.Type) absVal {
	if a.K != nil && b.K != nil {
		switch op {
		case token.EQL, token.NEQ, token.LSS, token.LEQ, token.GTR, token.GEQ:
			if a.K.Kind() == b.K.Kind() || (a.K.Kind() == constant.Int && b.K.Kind() == constant.Int) {
				return absVal{K: constant.MakeBool(constant.Compare(a.K, op, b.K))}
			}
		case token.ADD, token.SUB, token.MUL, token.AND, token.OR, token.XOR:
			if a.K.Kind() == constant.Int && b.K.Kind() == constant.Int {
				r := constant.BinaryOp(a.K, op, b.K)
				if v, ok := constant.Int64Val(r); ok {
					return absVal{K: constant.MakeInt64(truncTo(v, t))}
				}
			}
			if op == token.ADD && a.K.Kind() == constant.String {
				return absVal{K: constant.BinaryOp(a.K, op, b.K)}
			}
		case token.SHL, token.SHR:
			if s, ok := constant.Uint64Val(b.K); ok && a.K.Kind() == constant.Int {
				r := constant.Shift(a.K, op, uint(s))
				if v, ok := constant.Int64Val(r); ok {
					return absVal{K: constant.MakeInt64(truncTo(v, t))}
				}
			}
		case token.QUO, token.REM:
			if a.K.Kind() == constant.Int && b.K.Kind() == constant.Int && constant.Sign(b.K) != 0 {
				if op == token.QUO {
					return absVal{K: constant.BinaryOp(a.K, token.QUO_ASSIGN, b.K)}
				}
				return absVal{K: constant.BinaryOp(a.K, token.REM, b.K)}
			}
		}
	}
	if (op == token.EQL || op == token.NEQ) && (a.Nil || b.Nil) {
		if a.Nil && b.Nil {
			return absVal{K: constant.MakeBool(op == token.EQL)}
		}
		other := a
		if a.Nil {
			other = b
		}
		if other.K != nil || (other.Desc != "" && strings.Contains(other.Desc, "(")) {
			// a constant or a call result compared with nil: unknown for calls, false for constants
			if other.K != nil {
				return absVal{K: constant.MakeBool(op == token.NEQ)}
			}
		}
	}
	return absVal{Desc: fmt.Sprintf("(%s %s %s)", a.String(), op, b.String())}
}

// treePath is one root-to-return path of a decision function over its parameters.
type treePath struct {
	Conds  []treeCond
	Result absVal
}

type treeCond struct {
	Param int
	Op    token.Token // EQL or NEQ
	K     constant.Value
}

func (tc treeCond) String() string {
	return fmt.Sprintf("p%d %s %s", tc.Param, tc.Op, tc.K.ExactString())
}

// decisionTree enumerates the paths of a loop-free function whose branches are all
// `param ==/!= const` tests (the toString_* functions of the registries).
func (c *Ctx) decisionTree(fn *ssa.Function) ([]treePath, error) {
	if fn == nil || fn.Blocks == nil {
		return nil, fmt.Errorf("no body")
	}
	var out []treePath
	var path []*ssa.BasicBlock // blocks of the path being walked (a result merged by φ-nodes is read off the path)
	onPath := func(v ssa.Value) ssa.Value {
		for i := 0; i < 8; i++ {
			ph, ok := v.(*ssa.Phi)
			if !ok {
				return v
			}
			var next ssa.Value
			for pi, b := range path {
				if b != ph.Block() || pi == 0 {
					continue
				}
				for ei, p := range ph.Block().Preds {
					if p == path[pi-1] {
						next = ph.Edges[ei]
					}
				}
			}
			if next == nil {
				return v
			}
			v = next
		}
		return v
	}
	var walk func(b *ssa.BasicBlock, conds []treeCond, depth int) error
	walk = func(b *ssa.BasicBlock, conds []treeCond, depth int) error {
		if depth > 64 {
			return fmt.Errorf("path too long (loop?)")
		}
		path = append(path[:depth:depth], b)
		last := b.Instrs[len(b.Instrs)-1]
		for _, ins := range b.Instrs[:len(b.Instrs)-1] {
			switch ins.(type) {
			case *ssa.BinOp, *ssa.DebugRef, *ssa.Convert, *ssa.ChangeType, *ssa.Phi:
			default:
				return fmt.Errorf("unexpected instruction %s at %s", ins, c.InstrPos(ins))
			}
		}
		switch x := last.(type) {
		case *ssa.Return:
			if len(x.Results) != 1 {
				return fmt.Errorf("unexpected result count")
			}
			k, ok := onPath(x.Results[0]).(*ssa.Const)
			if !ok {
				return fmt.Errorf("non-constant result at %s", c.InstrPos(x))
			}
			a := absVal{Nil: true}
			if k.Value != nil {
				a = absVal{K: k.Value}
			}
			out = append(out, treePath{Conds: append([]treeCond(nil), conds...), Result: a})
			return nil
		case *ssa.Jump:
			return walk(b.Succs[0], conds, depth+1)
		case *ssa.If:
			cond, ok := x.Cond.(*ssa.BinOp)
			if !ok || (cond.Op != token.EQL && cond.Op != token.NEQ) {
				return fmt.Errorf("branch at %s is not a ==/!= test", c.InstrPos(x))
			}
			pv, kv := cond.X, cond.Y
			if _, isK := pv.(*ssa.Const); isK {
				pv, kv = kv, pv
			}
			if cv, ok := pv.(*ssa.Convert); ok {
				pv = cv.X
			}
			pi := paramIndex(fn, pv)
			k, ok := kv.(*ssa.Const)
			if pi < 0 || !ok || k.Value == nil {
				return fmt.Errorf("branch at %s does not compare a parameter with a constant", c.InstrPos(x))
			}
			opT, opF := token.EQL, token.NEQ
			if cond.Op == token.NEQ {
				opT, opF = opF, opT
			}
			if err := walk(b.Succs[0], append(append([]treeCond(nil), conds...), treeCond{pi, opT, k.Value}), depth+1); err != nil {
				return err
			}
			return walk(b.Succs[1], append(append([]treeCond(nil), conds...), treeCond{pi, opF, k.Value}), depth+1)
		}
		return fmt.Errorf("unexpected terminator at %s", c.InstrPos(last))
	}
	err := walk(fn.Blocks[0], nil, 0)
	return out, err
}

// evalTree returns the result of the tree for concrete parameter values.
func evalTree(paths []treePath, args map[int]constant.Value) (absVal, bool) {
	for _, p := range paths {
		ok := true
		for _, cnd := range p.Conds {
			a, has := args[cnd.Param]
			if !has {
				ok = false
				break
			}
			eq := constant.Compare(a, token.EQL, cnd.K)
			if (cnd.Op == token.EQL) != eq {
				ok = false
				break
			}
		}
		if ok {
			return p.Result, true
		}
	}
	return absVal{}, false
}

// pins reports the constant a path forces parameter i to equal, if any.
func (p treePath) pins(i int) (constant.Value, bool) {
	for _, cnd := range p.Conds {
		if cnd.Param == i && cnd.Op == token.EQL {
			return cnd.K, true
		}
	}
	return nil, false
}
