package lint

// PropRun registers the checker of one property.
type PropRun struct {
	Level string
	Fn    func(c *Ctx, r *Report)
}

// Registry maps property ids to their checkers.
var Registry = map[string]PropRun{
	"C01": {"other", RunC01},
	"C02": {"other", RunC02},
	"C03": {"other", RunC03},
	"C04": {"proof", RunC04},
	"C05": {"other", RunC05},
	"C06": {"other", RunC06},
	"C07": {"other", RunC07},
	"C08": {"other", RunC08},
	"C09": {"other", RunC09},
	"C10": {"other", RunC10},
	"C11": {"other", RunC11},
	"C12": {"other", RunC12},
	"C13": {"other", RunC13},
	"C14": {"other", RunC14},
	"C15": {"other", RunC15},
	"C16": {"other", RunC16},
	"C17": {"proof", RunC17},
	"C18": {"proof", RunC18},
	"C19": {"other", RunC19},
	"C20": {"proof", RunC20},
}

// Merge appends the obligations of another run (e.g. another GOARCH), tagging their keys.
func (r *Report) Merge(o *Report, tag string) {
	for _, ob := range o.Obls {
		ob.Key = "[" + tag + "] " + ob.Key
		r.Obls = append(r.Obls, ob)
	}
	for f := range o.Funcs {
		r.Funcs[f] = true
	}
	for id, fl := range o.Floors {
		if fl > 0 {
			r.Floors[id] = fl * 2
		}
	}
	for id, d := range o.RuleDoc {
		r.RuleDoc[id] = d
	}
	seen := map[string]bool{}
	for _, a := range r.Assumptions {
		seen[a] = true
	}
	for _, a := range o.Assumptions {
		if !seen[a] {
			r.Assumptions = append(r.Assumptions, a)
		}
	}
}
