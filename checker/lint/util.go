package lint

import (
	"go/constant"
	"go/types"
)

func constInt64(v constant.Value) (int64, bool) {
	if v == nil || v.Kind() != constant.Int {
		return 0, false
	}
	return constant.Int64Val(v)
}

// isUnsignedType: t's underlying type is an unsigned integer.
func isUnsignedType(t types.Type) bool {
	b, ok := t.Underlying().(*types.Basic)
	return ok && b.Info()&types.IsUnsigned != 0
}
