package lint

import (
	"go/constant"
)

func constInt64(v constant.Value) (int64, bool) {
	if v == nil || v.Kind() != constant.Int {
		return 0, false
	}
	return constant.Int64Val(v)
}
