package lint

import (
	"fmt"
	"go/ast"
	"go/token"
	"go/types"
	"sort"
	"strings"

	"ikeverif/checker/xt/ssa"
)

// encodeRoots: the plain encoding entry points.
func (c *Ctx) encodeRoots(r *Report, prefix string) []*ssa.Function {
	var roots []*ssa.Function
	add := func(desc string, fn *ssa.Function) {
		if fn == nil {
			r.undecided(prefix+"anchor", desc, "-", "anchor "+desc+" does not resolve in the current tree")
			return
		}
		roots = append(roots, fn)
	}
	add("message.(*IKEMessage).Encode", c.Method("message", "IKEMessage", "Encode"))
	add("message.(*IKEPayloadContainer).Encode", c.Method("message", "IKEPayloadContainer", "Encode"))
	add("message.(*IKEHeader).Marshal", c.Method("message", "IKEHeader", "Marshal"))
	add("eap.(*EAP).Marshal", c.Method("eap", "EAP", "Marshal"))
	for _, spec := range []struct{ rel, iface, method string }{
		{"message", "IKEPayload", "Marshal"},
		{"eap", "EapTypeData", "Marshal"},
	} {
		nt := c.NamedType(spec.rel, spec.iface)
		if nt == nil {
			r.undecided(prefix+"anchor", spec.rel+"."+spec.iface, "-", "interface anchor does not resolve")
			continue
		}
		for _, T := range c.Implementers(nt.Underlying().(*types.Interface)) {
			if m := c.methodOf(T, spec.method); m != nil {
				add(typeKey(T)+"."+spec.method, m)
			}
		}
	}
	return roots
}

func (c *Ctx) EncodeScope(r *Report, prefix string) []*ssa.Function {
	return c.Reachable(c.encodeRoots(r, prefix)...)
}

// isAPI: fn is an exported function, an exported method, or a method of a module interface.
func (c *Ctx) isAPI(fn *ssa.Function) bool {
	if fn.Parent() != nil || fn.Object() == nil {
		return false
	}
	return fn.Object().Exported()
}

func isByteSlice(t types.Type) bool {
	s, ok := t.Underlying().(*types.Slice)
	if !ok {
		return false
	}
	b, ok := s.Elem().Underlying().(*types.Basic)
	return ok && b.Kind() == types.Uint8
}

// encodeNoWriteThroughRule: alias analysis over the encode scope with message memory (every pointer-like field
// load) as source: nothing writes elements of, or appends onto, a slice that belongs to the message. Encoding is
// then a function of the message's value; an encoder that grows a message-owned slice in place changes what a
// second message sharing that backing array encodes to.
func (c *Ctx) encodeNoWriteThroughRule(r *Report, rule string, escope []*ssa.Function, allowed map[string]bool) *AliasResult {
	er := c.Alias(&AliasCfg{
		Scope: escope,
		Source: func(fn *ssa.Function, v ssa.Value) bool {
			u, ok := v.(*ssa.UnOp)
			if !ok || u.Op != token.MUL || !pointerLike(u.Type()) {
				return false
			}
			_, isField := u.X.(*ssa.FieldAddr)
			return isField
		},
	})
	r.Rule(rule, "encode scope never writes elements of, or appends onto, a slice loaded from a message field (spare-capacity writes included)", 1)
	var wt []AliasSite
	for _, w := range er.WritesThrough {
		if st, ok := w.Ins.(*ssa.Store); ok && allowed[addrEffect(st.Addr)] {
			continue // header bookkeeping through m.IKEHeader
		}
		wt = append(wt, w)
	}
	er.WritesThrough = wt
	if len(er.WritesThrough) == 0 {
		r.ok(rule, fmt.Sprintf("%d functions", len(escope)), "-", "every element write / append base is a freshly made buffer", true)
	}
	for _, w := range er.WritesThrough {
		r.bad(rule, fmt.Sprintf("%s: %s", c.FuncName(w.Fn), c.SrcExpr(w.Ins)), c.InstrPos(w.Ins), w.What)
	}
	for _, w := range er.ExtArgs {
		r.undecided(rule, fmt.Sprintf("%s: %s", c.FuncName(w.Fn), c.SrcExpr(w.Ins)), c.InstrPos(w.Ins), w.What)
	}
	return er
}

// RunC20 decides property C20.
func RunC20(c *Ctx, r *Report) {
	prefix := "C20."
	r.Explanation = "Interprocedural alias analysis with a type-keyed heap abstraction: (1) over the decode scope with every []byte parameter as source, no aliasing value may be stored into heap memory or returned by an API function, except the documented IKEHeader.PayloadBytes; (2) over the encode scope with every pointer-like field load as source, nothing is written through message-owned memory, the field mod-set is header bookkeeping only, the returned buffer does not alias the message; (3) determinism: no randomness/time, no map-order dependence; (4) encryptMsg's mod-set."
	r.TrustedBase = append(r.TrustedBase, "go/types and go/ssa (x/tools v0.29.0)", "type-based alias classes (no unsafe/reflect; checked by C18)", "frozen tables of external callees: read-only arguments, writers, result-aliases-argument")
	r.NotDecided = append(r.NotDecided, "value-level equality of repeated encodings (decided structurally: no source of non-determinism is reachable)", "aliasing introduced inside the standard library")
	r.Assumptions = append(r.Assumptions,
		"callers do not mutate a message concurrently with encoding it",
		"external callees behave as the frozen tables say (read-only arguments, writers, result aliasing)")
	r.Rule(prefix+"anchor", "every entry point named by the property resolves", 0)

	// ---- clause 1: decoded messages own their data ----
	dscope := c.DecodeScope(r, prefix)
	inD := map[*ssa.Function]bool{}
	for _, f := range dscope {
		inD[f] = true
		r.Func(c.FuncName(f))
	}
	ar := c.Alias(&AliasCfg{
		Scope: dscope,
		Source: func(fn *ssa.Function, v ssa.Value) bool {
			// parameters of internal helpers (unexported, every caller known) are no inputs of their own:
			// they carry what their callers pass, which the analysis propagates from the call sites
			p, ok := v.(*ssa.Parameter)
			return ok && isByteSlice(p.Type()) && !c.eligibleForCallerFacts(fn)
		},
	})
	const hdrKey = "field:message.IKEHeader.PayloadBytes"
	r.Rule(prefix+"decode.no-alias-store", "in decode scope no value aliasing a []byte parameter is stored into heap memory (documented exception: IKEHeader.PayloadBytes written by ParseHeader)", 40)
	r.Rule(prefix+"decode.no-alias-return", "no API function in decode scope returns memory aliasing a []byte parameter", 20)
	aliasStores := map[ssa.Instruction]AliasSite{}
	for _, k := range ar.SortedHeapKeys() {
		for _, s := range ar.HeapKeys[k] {
			aliasStores[s.Ins] = s
		}
	}
	nSrc := 0
	for _, fn := range dscope {
		for _, p := range fn.Params {
			if isByteSlice(p.Type()) {
				nSrc++
			}
		}
		for _, b := range fn.Blocks {
			for _, ins := range b.Instrs {
				var val ssa.Value
				var key string
				switch x := ins.(type) {
				case *ssa.Store:
					val = x.Val
					key = addrEffect(x.Addr)
				case *ssa.MapUpdate:
					val = x.Value
					key = "map:" + typeKey(x.Map.Type())
				default:
					continue
				}
				if !pointerLike(val.Type()) || key == "" {
					continue
				}
				okey := fmt.Sprintf("%s: %s -> %s", c.FuncName(fn), c.SrcExpr(ins), key)
				if s, bad := aliasStores[ins]; bad {
					if s.Key == hdrKey && fn == c.Func("message", "ParseHeader") {
						r.ok(prefix+"decode.no-alias-store", okey, c.InstrPos(ins), "documented exception: IKEHeader.PayloadBytes aliases the input buffer", true)
						continue
					}
					if strings.HasPrefix(s.Key, "alloc:") {
						r.ok(prefix+"decode.no-alias-store", okey, c.InstrPos(ins), "store into a local variable (tracked as a carrier)", true)
						continue
					}
					r.bad(prefix+"decode.no-alias-store", okey, c.InstrPos(ins), "the stored value may point into the decoder's input buffer: the decoded message would share memory with the receive buffer")
					continue
				}
				r.ok(prefix+"decode.no-alias-store", okey, c.InstrPos(ins), "stored value is not derived from an input slice (copies via append(field, b...) / make do not alias)", true)
			}
		}
		if c.isAPI(fn) {
			key := c.FuncName(fn)
			if lvl := ar.RetAlias[fn]; lvl > 0 {
				// returning a carrier of the excepted field only is fine: check that the only heap keys are the excepted one
				onlyHdr := true
				for _, k := range ar.SortedHeapKeys() {
					if k != hdrKey && !strings.HasPrefix(k, "alloc:") {
						onlyHdr = false
					}
				}
				if lvl == 2 && !c.returnsOnlyViaKey(fn, ar, hdrKey) {
					r.bad(prefix+"decode.no-alias-return", key, c.Pos(fn.Pos()), "a result may point into a []byte parameter")
				} else {
					_ = onlyHdr
					r.ok(prefix+"decode.no-alias-return", key, c.Pos(fn.Pos()), "results reach input memory only through the documented IKEHeader.PayloadBytes", true)
				}
			} else {
				r.ok(prefix+"decode.no-alias-return", key, c.Pos(fn.Pos()), "no result is derived from an input slice", true)
			}
		}
	}
	r.Extra["decode_sources"] = nSrc
	r.Extra["heap_keys_holding_input_aliases"] = ar.SortedHeapKeys()
	// decoders never write their input (shared with C18 rule 4)
	r.Rule(prefix+"decode.no-input-write", "decode scope never writes through, copies into, or appends onto memory derived from a []byte parameter", 1)
	if len(ar.WritesThrough) == 0 {
		r.ok(prefix+"decode.no-input-write", fmt.Sprintf("%d functions, %d []byte parameters", len(dscope), nSrc), "-", "no store, copy destination, external writer argument or append base is derived from an input slice", true)
	}
	for _, w := range ar.WritesThrough {
		r.bad(prefix+"decode.no-input-write", fmt.Sprintf("%s: %s", c.FuncName(w.Fn), c.SrcExpr(w.Ins)), c.InstrPos(w.Ins), w.What)
	}
	for _, w := range ar.ExtArgs {
		r.undecided(prefix+"decode.no-input-write", fmt.Sprintf("%s: %s", c.FuncName(w.Fn), c.SrcExpr(w.Ins)), c.InstrPos(w.Ins), w.What)
	}

	// ---- clause 2: encoding does not alter payloads; result is fresh ----
	escope := c.EncodeScope(r, prefix)
	for _, f := range escope {
		r.Func(c.FuncName(f))
	}
	r.Rule(prefix+"encode.modset", "functions reachable from Encode/Marshal store only to IKEHeader.NextPayload / IKEHeader.PayloadBytes (header bookkeeping) among module struct fields, globals and maps", 20)
	allowed := map[string]bool{"field:message.IKEHeader.NextPayload": true, "field:message.IKEHeader.PayloadBytes": true}
	for _, fn := range escope {
		var bad []string
		for _, k := range c.DirectEffects(fn).sorted() {
			if strings.HasPrefix(k, "fresh:") {
				continue // stores into objects the function allocated itself
			}
			if strings.HasPrefix(k, "field:") || strings.HasPrefix(k, "global:") || strings.HasPrefix(k, "map:") || strings.HasPrefix(k, "deref:") {
				if !allowed[k] {
					bad = append(bad, k)
				}
			}
		}
		if len(bad) == 0 {
			r.ok(prefix+"encode.modset", c.FuncName(fn), c.Pos(fn.Pos()), "direct effects: "+strings.Join(c.DirectEffects(fn).sorted(), ", "), true)
		} else {
			r.bad(prefix+"encode.modset", c.FuncName(fn), c.Pos(fn.Pos()), "encoding writes "+strings.Join(bad, ", "))
		}
	}
	c.bookkeepingRecomputedRule(r, prefix, escope, allowed)
	er := c.encodeNoWriteThroughRule(r, prefix+"encode.no-write-through", escope, allowed)
	r.Rule(prefix+"encode.fresh-result", "the buffers returned by IKEMessage.Encode, IKEPayloadContainer.Encode and EAP.Marshal do not alias any field of the message", 3)
	for _, spec := range [][3]string{{"message", "IKEMessage", "Encode"}, {"message", "IKEPayloadContainer", "Encode"}, {"eap", "EAP", "Marshal"}} {
		fn := c.Method(spec[0], spec[1], spec[2])
		if fn == nil {
			continue
		}
		key := c.FuncName(fn)
		if er.RetAlias[fn] == 2 {
			r.bad(prefix+"encode.fresh-result", key, c.Pos(fn.Pos()), "the returned buffer may be (a slice of) memory the message still references")
		} else {
			r.ok(prefix+"encode.fresh-result", key, c.Pos(fn.Pos()), "the result is built by make/append into a fresh buffer", true)
		}
	}

	// ---- clause 3: determinism ----
	c.determinismRules(r, prefix, escope)

	// ---- clause 4: encryptMsg mod-set ----
	r.Rule(prefix+"protect.modset", "encryptMsg (transitively) writes only the message's payload list, header bookkeeping, fields of the freshly allocated Encrypted payload, and byte buffers", 1)
	if em := c.Func("", "encryptMsg"); em != nil {
		allowedP := map[string]string{
			"field:message.IKEHeader.NextPayload":   "header bookkeeping",
			"field:message.IKEHeader.PayloadBytes":  "header bookkeeping",
			"deref:message.IKEPayloadContainer":     "the message's own payload list (Reset / BuildEncrypted)",
			"field:message.Encrypted.NextPayload":   "field of the fresh Encrypted payload",
			"field:message.Encrypted.EncryptedData": "field of the fresh Encrypted payload",
			"elem:byte":                             "byte buffers (fresh; clause encode.no-write-through covers message-owned ones)",
			"elem:uint8":                            "byte buffers",
			"local-heap":                            "objects allocated by the function itself",
			"elem:eap.EapAkaPrimeAttrType":          "sorting a fresh key slice in EAP-AKA' Marshal",
		}
		var bad []string
		for _, k := range c.ModSet(em).sorted() {
			if strings.HasPrefix(k, "fresh:") {
				continue // stores into objects allocated by the writing function itself
			}
			if _, ok := allowedP[k]; !ok {
				bad = append(bad, k)
			}
		}
		if len(bad) == 0 {
			r.ok(prefix+"protect.modset", "ike.encryptMsg", c.Pos(em.Pos()), "transitive effects: "+strings.Join(c.ModSet(em).sorted(), ", "), true)
		} else {
			r.bad(prefix+"protect.modset", "ike.encryptMsg", c.Pos(em.Pos()), "protecting a message may also write "+strings.Join(bad, ", "))
		}
		c.protectListFreshRule(r, prefix+"protect.list-rebuilt-from-nil", em)
		// the payload objects themselves: encryptMsg must not store into fields of existing payloads — covered by the
		// mod-set (no field:message.<Payload>.* other than Encrypted, whose only allocation site is BuildEncrypted).
	} else {
		r.undecided(prefix+"anchor", "ike.encryptMsg", "-", "anchor does not resolve")
	}
}

// returnsOnlyViaKey: every Return of fn whose result is at level 2 is a pointer to a fresh object
// (level comes from carrier loads, not from slicing a parameter). Approximation: the returned
// value is not a slice type.
func (c *Ctx) returnsOnlyViaKey(fn *ssa.Function, ar *AliasResult, key string) bool {
	for _, b := range fn.Blocks {
		for _, ins := range b.Instrs {
			ret, ok := ins.(*ssa.Return)
			if !ok {
				continue
			}
			for _, res := range ret.Results {
				if ar.Level(fn, res) == 2 {
					if _, isSlice := res.Type().Underlying().(*types.Slice); isSlice {
						return false
					}
					if _, isStr := res.Type().Underlying().(*types.Basic); isStr {
						return false
					}
				}
			}
		}
	}
	return true
}

// syntacticMapRanges counts the range statements over map-typed operands in the source of fns.
func (c *Ctx) syntacticMapRanges(fns []*ssa.Function) int {
	n := 0
	seen := map[ast.Node]bool{}
	for _, fn := range fns {
		syn := fn.Syntax()
		if syn == nil || seen[syn] || fn.Pkg == nil {
			continue
		}
		seen[syn] = true
		var info *types.Info
		for _, p := range c.Pkgs {
			if p.Types == fn.Pkg.Pkg {
				info = p.TypesInfo
			}
		}
		if info == nil {
			continue
		}
		ast.Inspect(syn, func(nd ast.Node) bool {
			if _, isLit := nd.(*ast.FuncLit); isLit && nd != syn {
				return false // a function literal is a function of its own
			}
			if rs, ok := nd.(*ast.RangeStmt); ok {
				if t := info.TypeOf(rs.X); t != nil {
					if _, isMap := t.Underlying().(*types.Map); isMap {
						n++
					}
				}
			}
			return true
		})
	}
	return n
}

// determinismRules: DESIGN 3.4 "Determinism".
func (c *Ctx) determinismRules(r *Report, prefix string, scope []*ssa.Function) {
	r.Rule(prefix+"determinism.no-random", "no function reachable from Encode/Marshal calls into crypto/rand, math/rand or time", 20)
	// floor: counted independently from the syntax of the functions in scope (1 on the tree the rule was written
	// for: getAttrsKeys); a tree without any such range statement has nothing to check
	r.Rule(prefix+"determinism.map-order", "every range over a map in encode scope is order-insensitive (collect-then-sort or unique-match idiom)", c.syntacticMapRanges(scope))
	for _, fn := range scope {
		var bad []string
		for _, b := range fn.Blocks {
			for _, ins := range b.Instrs {
				ci, ok := ins.(ssa.CallInstruction)
				if !ok {
					continue
				}
				for _, e := range c.CalleesAt(ci).External {
					if strings.Contains(e, "crypto/rand") || strings.Contains(e, "math/rand") || strings.HasPrefix(e, "time.") || strings.Contains(e, "(time.") {
						bad = append(bad, e+" at "+c.InstrPos(ins))
					}
				}
				// reads of external mutable globals (rand.Reader)
				for _, op := range ins.Operands(nil) {
					if g, ok := (*op).(*ssa.Global); ok && g.Pkg != nil && (g.Pkg.Pkg.Path() == "crypto/rand" || g.Pkg.Pkg.Path() == "math/rand") {
						bad = append(bad, g.String()+" at "+c.InstrPos(ins))
					}
				}
			}
		}
		if len(bad) == 0 {
			r.ok(prefix+"determinism.no-random", c.FuncName(fn), c.Pos(fn.Pos()), "no random/time callee", true)
		} else {
			r.bad(prefix+"determinism.no-random", c.FuncName(fn), c.Pos(fn.Pos()), "encoding depends on "+strings.Join(bad, "; "))
		}
		// map ranges
		for _, b := range fn.Blocks {
			for _, ins := range b.Instrs {
				rg, ok := ins.(*ssa.Range)
				if !ok {
					continue
				}
				if _, isMap := rg.X.Type().Underlying().(*types.Map); !isMap {
					continue
				}
				key := fmt.Sprintf("%s: %s", c.FuncName(fn), c.SrcExpr(ins))
				if why, ok := c.mapRangeOrderInsensitive(fn, rg); ok {
					r.ok(prefix+"determinism.map-order", key, c.InstrPos(ins), why, true)
				} else {
					r.bad(prefix+"determinism.map-order", key, c.InstrPos(ins), "map iteration order can influence the result: "+why)
				}
			}
		}
	}
}

// mapRangeOrderInsensitive recognises (a) collect-then-sort: the loop body only appends the key
// (or value) to a slice which is passed to sort.Slice/sort.Sort before any other use after the loop;
// (b) unique-match: the loop body returns (or breaks) on a key/field equality test and has no other effect.
func (c *Ctx) mapRangeOrderInsensitive(fn *ssa.Function, rg *ssa.Range) (string, bool) {
	// find the loop containing Next(rg)
	var next *ssa.Next
	for _, ref := range *rg.Referrers() {
		if n, ok := ref.(*ssa.Next); ok {
			next = n
		}
	}
	if next == nil {
		return "range iterator is never advanced", true
	}
	var loop *loopInfo
	for _, li := range naturalLoops(fn) {
		if li.body[next.Block()] {
			if loop == nil || len(li.body) < len(loop.body) {
				loop = li
			}
		}
	}
	if loop == nil {
		return "cannot find the loop of the range", false
	}
	// effects inside the loop body
	var appends []*ssa.Call
	var allocAppends []*ssa.Alloc
	nIndexed := 0
	otherEffect := ""
	returns := 0
	for _, b := range sortedBlocks(loop.body) {
		for _, ins := range b.Instrs {
			switch x := ins.(type) {
			case *ssa.Store:
				if a, ok := x.Addr.(*ssa.Alloc); ok {
					if !a.Heap {
						continue
					}
					// captured variable: result = append(result, key)
					if ap, ok := x.Val.(*ssa.Call); ok {
						if bi, ok := ap.Call.Value.(*ssa.Builtin); ok && bi.Name() == "append" {
							if ld, ok := ap.Call.Args[0].(*ssa.UnOp); ok && ld.X == ssa.Value(a) {
								allocAppends = append(allocAppends, a)
								continue
							}
						}
					}
				}
				if root := allocRoot(x.Addr); root != nil && loop.body[root.Block()] && root != x.Addr {
					continue // element of a temporary allocated inside the body (varargs array)
				}
				// keys[next] = key; next++ into a captured slice variable: the same collection as an append
				if a := indexedCollect(loop, x); a != nil {
					allocAppends = append(allocAppends, a)
					nIndexed++
					continue
				}
				otherEffect = "store at " + c.InstrPos(ins)
			case *ssa.MapUpdate:
				otherEffect = "map update at " + c.InstrPos(ins)
			case *ssa.Return:
				returns++
			case *ssa.Call:
				if bi, ok := x.Call.Value.(*ssa.Builtin); ok {
					if bi.Name() == "append" {
						appends = append(appends, x)
					}
					continue
				}
				cs := c.CalleesAt(x)
				pure := true
				for _, m := range cs.Mod {
					if len(c.ModSet(m)) > 0 {
						pure = false
					}
				}
				for _, e := range cs.External {
					if _, ok := externalReadOnly[e]; !ok {
						pure = false
					}
				}
				if !pure {
					otherEffect = "call with effects at " + c.InstrPos(ins)
				}
			}
		}
	}
	if otherEffect != "" {
		return otherEffect + " inside the range body", false
	}
	if len(allocAppends) > 0 {
		for _, a := range allocAppends {
			// after the loop: some load of the variable is passed to sort.* in a block that dominates every return
			var sortBlock *ssa.BasicBlock
			for _, ref := range *a.Referrers() {
				ld, ok := ref.(*ssa.UnOp)
				if !ok || loop.body[ld.Block()] {
					continue
				}
				for _, r1 := range *ld.Referrers() {
					if mi, ok := r1.(*ssa.MakeInterface); ok {
						for _, r2 := range *mi.Referrers() {
							if call, ok := r2.(*ssa.Call); ok && isSortCall(call, mi) {
								sortBlock = call.Block()
							}
						}
					}
					if call, ok := r1.(*ssa.Call); ok && isSortCall(call, ld) {
						sortBlock = call.Block()
					}
					if ct, ok := r1.(*ssa.ChangeType); ok {
						for _, r2 := range *ct.Referrers() {
							if call, ok := r2.(*ssa.Call); ok && isSortCall(call, ld) {
								sortBlock = call.Block()
							}
						}
					}
				}
			}
			if sortBlock == nil {
				return "the slice collected from the map is not sorted before use", false
			}
			for _, b := range fn.Blocks {
				if loop.body[b] {
					continue
				}
				for _, ins := range b.Instrs {
					if ret, ok := ins.(*ssa.Return); ok && !sortBlock.Dominates(ret.Block()) && len(ret.Results) > 0 {
						// a return before the sort is fine only if it cannot carry the slice: be strict
						for _, res := range ret.Results {
							if ld, ok := res.(*ssa.UnOp); ok && ld.X == ssa.Value(a) {
								return "the collected slice can be returned without passing the sort", false
							}
						}
					}
				}
			}
		}
		if len(appends) == len(allocAppends)-nIndexed {
			return "collect-then-sort idiom: the body only appends keys to a slice that is sorted before it is used", true
		}
	}
	if len(appends) == 0 {
		// unique-match idiom: returns inside the loop are guarded by an equality test; order cannot matter if at most one key matches.
		// We accept when every return in the loop is control dependent on an == test whose one side is loop-invariant.
		if returns > 0 {
			if c.returnsGuardedByEquality(loop) {
				return "unique-match idiom: the body only returns on an equality test against a loop-invariant value", true
			}
			return "return inside the range body is not guarded by an equality test", false
		}
		return "range body has no effect", true
	}
	// collect-then-sort: the φ of the appended slice at the loop exit must flow to sort.Slice before any other use
	for _, ap := range appends {
		// value after the loop: the header φ that merges ap
		var phi *ssa.Phi
		for _, ref := range *ap.Referrers() {
			if p, ok := ref.(*ssa.Phi); ok && p.Block() == loop.header {
				phi = p
			}
		}
		if phi == nil {
			return "appended slice does not flow through the loop header", false
		}
		sorted := false
		var sortBlock0 *ssa.BasicBlock
		for _, ref := range *phi.Referrers() {
			ins := ref
			if loop.body[ins.Block()] {
				continue
			}
			switch x := ins.(type) {
			case *ssa.MakeInterface:
				for _, r2 := range *x.Referrers() {
					if call, ok := r2.(*ssa.Call); ok && isSortCall(call, x) {
						sorted = true
						sortBlock0 = call.Block()
					}
				}
			case *ssa.ChangeType:
				for _, r2 := range *x.Referrers() {
					if call, ok := r2.(*ssa.Call); ok && isSortCall(call, phi) {
						sorted = true
						sortBlock0 = call.Block()
					}
				}
			case *ssa.Call:
				if isSortCall(x, phi) {
					sorted = true
					sortBlock0 = x.Block()
				}
			case *ssa.MakeClosure, *ssa.Return, *ssa.Store:
				// uses after the sort are fine; we require the sort call to dominate them
			}
		}
		if !sorted {
			return "the slice collected from the map is not sorted before use", false
		}
		// the sort must dominate every Return that returns the slice
		sortBlock := sortBlock0
		for _, ref := range *phi.Referrers() {
			if ret, ok := ref.(*ssa.Return); ok && sortBlock != nil && !sortBlock.Dominates(ret.Block()) {
				return "the collected slice can be returned without passing the sort", false
			}
		}
		// the comparison closure must be a strict total order on distinct keys: we require it to compare the elements themselves
	}
	return "collect-then-sort idiom: the body only appends keys to a slice that is sorted before it is used", true
}

// isSortCall: call sorts the slice v in place: sort.Slice / sort.SliceStable / sort.Sort on v wrapped into an
// interface (mi), or slices.Sort / slices.SortFunc / slices.SortStableFunc on v itself.
func isSortCall(call *ssa.Call, v ssa.Value) bool {
	cal := call.Call.StaticCallee()
	if cal == nil || len(call.Call.Args) == 0 {
		return false
	}
	name := cal.String()
	if o := cal.Origin(); o != nil {
		name = o.String()
	}
	switch {
	case name == "sort.Slice" || name == "sort.SliceStable" || name == "sort.Sort" || name == "sort.Stable":
		return call.Call.Args[0] == v
	case name == "slices.Sort" || name == "slices.SortFunc" || name == "slices.SortStableFunc":
		a := call.Call.Args[0]
		if ct, ok := a.(*ssa.ChangeType); ok {
			a = ct.X
		}
		return a == v
	}
	return false
}

// indexedCollect: st is `s[n] = v` executed in every iteration of loop, with s the current value of a captured
// slice variable (heap Alloc, not assigned inside the loop) and n a counter that starts at 0 and is incremented
// by one in every iteration - the slice receives the iterated values at 0, 1, 2, ... in iteration order, as
// append would do it. Returns the variable.
func indexedCollect(loop *loopInfo, st *ssa.Store) *ssa.Alloc {
	ia, ok := st.Addr.(*ssa.IndexAddr)
	if !ok {
		return nil
	}
	ld, ok := ia.X.(*ssa.UnOp)
	if !ok || ld.Op != token.MUL {
		return nil
	}
	a, ok := ld.X.(*ssa.Alloc)
	if !ok || !a.Heap {
		return nil
	}
	if _, isSlice := a.Type().(*types.Pointer).Elem().Underlying().(*types.Slice); !isSlice {
		return nil
	}
	for _, ref := range *a.Referrers() {
		if s2, ok := ref.(*ssa.Store); ok && s2.Addr == ssa.Value(a) && loop.body[s2.Block()] {
			return nil
		}
	}
	ph, ok := ia.Index.(*ssa.Phi)
	if !ok || ph.Block() != loop.header {
		return nil
	}
	for i, e := range ph.Edges {
		if loop.body[ph.Block().Preds[i]] {
			bo, ok := e.(*ssa.BinOp)
			if !ok || bo.Op != token.ADD || bo.X != ssa.Value(ph) {
				return nil
			}
			if k, ok := bo.Y.(*ssa.Const); !ok || k.Value == nil || k.Value.ExactString() != "1" {
				return nil
			}
			// the store and the increment happen in every iteration that goes round
			if !st.Block().Dominates(ph.Block().Preds[i]) {
				return nil
			}
			continue
		}
		if k, ok := e.(*ssa.Const); !ok || k.Value == nil || k.Value.ExactString() != "0" {
			return nil
		}
	}
	return a
}

func (c *Ctx) returnsGuardedByEquality(loop *loopInfo) bool {
	for _, b := range sortedBlocks(loop.body) {
		for _, ins := range b.Instrs {
			if _, ok := ins.(*ssa.Return); !ok {
				continue
			}
			guarded := false
			for x := b; x != nil && loop.body[x]; x = x.Idom() {
				if len(x.Preds) != 1 {
					continue
				}
				p := x.Preds[0]
				if iff, ok := p.Instrs[len(p.Instrs)-1].(*ssa.If); ok && p.Succs[0] == x {
					if cond, ok := iff.Cond.(*ssa.BinOp); ok && cond.Op == token.EQL {
						guarded = true
					}
				}
			}
			if !guarded {
				return false
			}
		}
	}
	return true
}

func sortedStrings(m map[string]bool) []string {
	out := make([]string, 0, len(m))
	for k := range m {
		out = append(out, k)
	}
	sort.Strings(out)
	return out
}

// allocRoot returns the Alloc an address is derived from (through field/index/slice), or nil.
func allocRoot(a ssa.Value) *ssa.Alloc {
	for i := 0; i < 16; i++ {
		switch x := a.(type) {
		case *ssa.Alloc:
			return x
		case *ssa.FieldAddr:
			a = x.X
		case *ssa.IndexAddr:
			a = x.X
		case *ssa.Slice:
			a = x.X
		default:
			return nil
		}
	}
	return nil
}

// bookkeepingRecomputedRule: the header bookkeeping fields the encoder is allowed to write are derived
// state (left over from the last Decode or Encode). The encoding is a function of the message only if a
// function of the encode scope that writes such a field writes it on every path before anything reads it:
// at every call whose callee (transitively) loads the field, and at every own load, the field has been
// stored on all paths from the function's entry (forward must-analysis over the CFG).
func (c *Ctx) bookkeepingRecomputedRule(r *Report, prefix string, escope []*ssa.Function, derived map[string]bool) {
	rule := prefix + "determinism.bookkeeping-recomputed"
	r.Rule(rule, "a function of the encode scope that stores a header bookkeeping field (IKEHeader.NextPayload, IKEHeader.PayloadBytes) has stored it on every path before that field is read by itself or by a callee, so that no value left by an earlier Decode/Encode reaches the output", 1)
	readsMemo := map[*ssa.Function]map[string]bool{}
	var reads func(fn *ssa.Function) map[string]bool
	reads = func(fn *ssa.Function) map[string]bool {
		if m, ok := readsMemo[fn]; ok {
			return m
		}
		m := map[string]bool{}
		readsMemo[fn] = m
		for _, g := range c.Reachable(fn) {
			for _, b := range g.Blocks {
				for _, ins := range b.Instrs {
					if u, ok := ins.(*ssa.UnOp); ok && u.Op == token.MUL {
						if fa, ok := u.X.(*ssa.FieldAddr); ok {
							if k := FieldKey(fa.X.Type(), fa.Field); derived[k] {
								m[k] = true
							}
						}
					}
				}
			}
		}
		return m
	}
	for _, fn := range escope {
		// which derived fields does fn store directly?
		stores := map[string]bool{}
		for _, b := range fn.Blocks {
			for _, ins := range b.Instrs {
				if st, ok := ins.(*ssa.Store); ok {
					if fa, ok := st.Addr.(*ssa.FieldAddr); ok {
						if k := FieldKey(fa.X.Type(), fa.Field); derived[k] {
							stores[k] = true
						}
					}
				}
			}
		}
		if len(stores) == 0 {
			continue
		}
		// forward must-analysis: set of derived fields stored on all paths to the block entry
		in := map[*ssa.BasicBlock]map[string]bool{}
		full := func() map[string]bool {
			m := map[string]bool{}
			for k := range stores {
				m[k] = true
			}
			return m
		}
		for _, b := range fn.Blocks {
			in[b] = full()
		}
		in[fn.Blocks[0]] = map[string]bool{}
		transfer := func(b *ssa.BasicBlock, upTo int) map[string]bool {
			cur := map[string]bool{}
			for k := range in[b] {
				cur[k] = true
			}
			for i, ins := range b.Instrs {
				if upTo >= 0 && i >= upTo {
					break
				}
				if st, ok := ins.(*ssa.Store); ok {
					if fa, ok := st.Addr.(*ssa.FieldAddr); ok {
						if k := FieldKey(fa.X.Type(), fa.Field); derived[k] {
							cur[k] = true
						}
					}
				}
			}
			return cur
		}
		for changed := true; changed; {
			changed = false
			for _, b := range fn.Blocks[1:] {
				var meet map[string]bool
				for _, p := range b.Preds {
					out := transfer(p, -1)
					if meet == nil {
						meet = out
						continue
					}
					for k := range meet {
						if !out[k] {
							delete(meet, k)
						}
					}
				}
				if meet == nil {
					meet = map[string]bool{}
				}
				if len(meet) != len(in[b]) {
					in[b] = meet
					changed = true
				}
			}
		}
		for _, b := range fn.Blocks {
			for i, ins := range b.Instrs {
				var need map[string]bool
				what := ""
				switch x := ins.(type) {
				case *ssa.UnOp:
					if fa, ok := x.X.(*ssa.FieldAddr); ok && x.Op == token.MUL {
						if k := FieldKey(fa.X.Type(), fa.Field); stores[k] {
							need, what = map[string]bool{k: true}, "load of "+strings.TrimPrefix(k, "field:")
						}
					}
				case *ssa.Call:
					need = map[string]bool{}
					for _, m := range c.CalleesAt(x).Mod {
						for k := range reads(m) {
							if stores[k] {
								need[k] = true
							}
						}
					}
					what = c.SrcExpr(x)
				}
				if len(need) == 0 {
					continue
				}
				have := transfer(b, i)
				var missing []string
				for k := range need {
					if !have[k] {
						missing = append(missing, strings.TrimPrefix(k, "field:"))
					}
				}
				sortStrings(missing)
				key := c.FuncName(fn) + ": " + what
				r.Check(len(missing) == 0, rule, key, c.InstrPos(ins), "every bookkeeping field read here was stored on all paths from the entry", "on some path "+strings.Join(missing, ", ")+" still holds the value left by an earlier Decode/Encode when it is read here: the output is not a function of the message")
			}
		}
	}
}

// protectListFreshRule: the payload list a protected message ends up with is a NEW list. encryptMsg keeps
// the old list (ikePayloads := ikeMsg.Payloads) and the caller may still hold the slice it built the
// message from; appending the Encrypted payload onto a list that was merely truncated ([:0]) would write
// into that shared storage. So every write to the message's payload list in encryptMsg is either "set to
// nil" (directly or by a callee whose only store is the nil constant) or an append, and the first append is
// dominated by a set-to-nil with no other write in between.
func (c *Ctx) protectListFreshRule(r *Report, rule string, em *ssa.Function) {
	r.Rule(rule, "protecting a message builds its new payload list from nil: the list field is set to nil (by a store or by a callee whose only store through its receiver is the nil constant) before the Encrypted payload is appended, so the append cannot write into the storage of the old list", 1)
	isListAddr := func(v ssa.Value) bool {
		fa, ok := v.(*ssa.FieldAddr)
		return ok && strings.HasSuffix(FieldKey(fa.X.Type(), fa.Field), "message.IKEMessage.Payloads")
	}
	// classify a callee that receives the list's address as argument i
	classify := func(g *ssa.Function, i int) string {
		if g == nil || g.Blocks == nil || i >= len(g.Params) {
			return "unknown"
		}
		p := g.Params[i]
		kind := "reads"
		for _, b := range g.Blocks {
			for _, ins := range b.Instrs {
				switch x := ins.(type) {
				case *ssa.Store:
					if x.Addr != ssa.Value(p) {
						continue
					}
					if isNilConst(x.Val) {
						if kind == "reads" {
							kind = "nil"
						}
						continue
					}
					if ap := isAppendCall(x.Val); ap != nil {
						if u, ok := ap.Call.Args[0].(*ssa.UnOp); ok && u.X == ssa.Value(p) {
							if kind != "other" {
								kind = "append"
							}
							continue
						}
					}
					kind = "other"
				case ssa.CallInstruction:
					for _, a := range x.Common().Args {
						if a == ssa.Value(p) {
							if _, bi := x.Common().Value.(*ssa.Builtin); !bi {
								for _, m := range c.CalleesAt(x).Mod {
									if c.ModSet(m)["deref:message.IKEPayloadContainer"] {
										kind = "other"
									}
								}
							}
						}
					}
				}
			}
		}
		return kind
	}
	type ev struct {
		ins  ssa.Instruction
		kind string
	}
	var evs []ev
	for _, b := range em.Blocks {
		for _, ins := range b.Instrs {
			switch x := ins.(type) {
			case *ssa.Store:
				if !isListAddr(x.Addr) {
					continue
				}
				switch {
				case isNilConst(x.Val):
					evs = append(evs, ev{ins, "nil"})
				case isAppendCall(x.Val) != nil:
					if base := isAppendCall(x.Val).Call.Args[0]; isNilConst(base) || freshRoot(base) {
						evs = append(evs, ev{ins, "nil"}) // a list built from nothing: new storage
					} else {
						evs = append(evs, ev{ins, "append"})
					}
				case freshRoot(x.Val):
					evs = append(evs, ev{ins, "nil"}) // a literal / freshly made list: new storage
				default:
					evs = append(evs, ev{ins, "other"})
				}
			case ssa.CallInstruction:
				if _, bi := x.Common().Value.(*ssa.Builtin); bi {
					continue
				}
				for i, a := range x.Common().Args {
					if !isListAddr(a) {
						continue
					}
					k := "reads"
					for _, m := range c.CalleesAt(x).Mod {
						if kk := classify(m, i); kk != "reads" {
							k = kk
						}
					}
					if k != "reads" {
						evs = append(evs, ev{ins, k})
					}
				}
			}
		}
	}
	var firstAppend ssa.Instruction
	for _, e := range evs {
		if e.kind == "other" || e.kind == "unknown" {
			r.bad(rule, "ike.encryptMsg: "+c.SrcExpr(e.ins), c.InstrPos(e.ins), "the message's payload list is written in a way that is neither 'set to nil' nor an append")
			return
		}
	}
	for _, e := range evs {
		if e.kind != "append" {
			continue
		}
		dominatedByAll := true
		for _, o := range evs {
			if o.kind == "append" && o.ins != e.ins && !dominatesInstr(e.ins, o.ins) {
				dominatedByAll = false
			}
		}
		if dominatedByAll {
			firstAppend = e.ins
		}
	}
	if firstAppend == nil {
		for _, e := range evs {
			if e.kind == "nil" {
				r.ok(rule, "ike.encryptMsg: "+c.SrcExpr(e.ins), c.InstrPos(e.ins), "the new payload list is made from nothing (nil / a fresh list); nothing is appended onto the old one", true)
				return
			}
		}
		r.undecided(rule, "ike.encryptMsg", c.Pos(em.Pos()), "no write of the new payload list found")
		return
	}
	for _, e := range evs {
		if e.kind == "nil" && dominatesInstr(e.ins, firstAppend) {
			r.ok(rule, "ike.encryptMsg: "+c.SrcExpr(firstAppend), c.InstrPos(firstAppend), "the list is nil at this append (set to nil at "+c.InstrPos(e.ins)+", no other write in between): the append allocates new storage", true)
			return
		}
	}
	r.bad(rule, "ike.encryptMsg: "+c.SrcExpr(firstAppend), c.InstrPos(firstAppend), "the new payload list is appended onto the old list's storage: nothing sets the list to nil before this append (a truncation to length 0 keeps the backing array, which the caller's slice and the saved old list still share)")
}
