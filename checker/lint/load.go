// Package lint holds the repository-specific static checkers for free5gc/ike.
//
// Nothing in this package executes code of the analysed repository; it loads the
// type-checked program and its SSA form and decides obligations on them.
package lint

import (
	"fmt"
	"go/token"
	"go/types"
	"os"
	"sort"
	"strings"

	"golang.org/x/tools/go/packages"
	"ikeverif/checker/xt/ssa"
	"ikeverif/checker/xt/ssautil"
)

// ModulePath of the analysed repository.
const ModulePath = "github.com/free5gc/ike"

// Ctx is the loaded program.
type Ctx struct {
	Dir         string
	GOARCH      string
	Fset        *token.FileSet
	Pkgs        []*packages.Package
	Prog        *ssa.Program
	SSAPkgs     map[string]*ssa.Package // by import path
	ModFuncs    []*ssa.Function         // every function with a body in module packages (incl. closures), sorted
	inMod       map[*ssa.Package]bool
	modPath     string
	Inlined     []string // "caller <- callee" for every call folded back by the helper-inlining normalisation
	Unrolled    []string // notes of the loop / table normalisation
	ConstTables []string // package-level variables treated as constant tables
	liveSet     map[*ssa.Function]bool
	DeadHelpers []string // unexported helpers left without any reference after inlining (dropped from ModFuncs)
	// renamed anchors (anchors.go)
	anchorAlias  map[string]*ssa.Function
	aliasTarget  map[*ssa.Function]string
	AnchorNotes  []string
	cdMemo       map[*ssa.Function][]paramDom
	cdOpen       map[*ssa.Function]bool
	postOpen     map[*ssa.Function]bool
	cgCache      *callGraph
	effCache     map[*ssa.Function]*funcEffects
	fieldTab     map[string]*fieldStores
	fieldEsc     map[string]bool
	sumFA        map[*ssa.Function]*FA
	fullCopyMemo map[*ssa.Function]map[*ssa.Call]bool
	crDepth      int
	slotCache    *slotTables
	curTables    *slotTables
	fieldBits    map[string]int
}

// CannotDecide is the error class for "the checker itself could not run" (exit 2).
type CannotDecide struct{ Msg string }

func (e *CannotDecide) Error() string { return e.Msg }

func cannot(format string, a ...any) error { return &CannotDecide{fmt.Sprintf(format, a...)} }

// Load loads every package of the module rooted at dir (non-test files) and builds SSA.
// minPkgs is the floor on the number of module packages.
func Load(dir, goarch, modPath string, minPkgs int) (*Ctx, error) {
	env := []string{}
	for _, e := range os.Environ() {
		if strings.HasPrefix(e, "GOWORK=") || strings.HasPrefix(e, "GOARCH=") || strings.HasPrefix(e, "GOFLAGS=") {
			continue
		}
		env = append(env, e)
	}
	env = append(env, "GOWORK=off", "GOFLAGS=-mod=mod", "GOPROXY=off", "GOSUMDB=off", "GOTOOLCHAIN=local")
	if goarch != "" {
		env = append(env, "GOARCH="+goarch)
	}
	cfg := &packages.Config{
		Mode:  packages.LoadSyntax | packages.NeedModule,
		Dir:   dir,
		Tests: false,
		Env:   env,
	}
	pkgs, err := packages.Load(cfg, "./...")
	if err != nil {
		return nil, cannot("load %s: %v", dir, err)
	}
	var errs []string
	packages.Visit(pkgs, nil, func(p *packages.Package) {
		for _, e := range p.Errors {
			errs = append(errs, e.Error())
		}
	})
	if len(errs) > 0 {
		return nil, cannot("packages of %s have errors: %s", dir, strings.Join(errs, "; "))
	}
	n := 0
	for _, p := range pkgs {
		if p.Module != nil && p.Module.Path == modPath {
			n++
		}
	}
	if n < minPkgs {
		return nil, cannot("only %d packages of module %s loaded from %s (floor %d)", n, modPath, dir, minPkgs)
	}
	prog, spkgs := ssautil.Packages(pkgs, ssa.InstantiateGenerics)
	prog.Build()
	c := &Ctx{Dir: dir, GOARCH: goarch, Prog: prog, Pkgs: pkgs, SSAPkgs: map[string]*ssa.Package{}, inMod: map[*ssa.Package]bool{}, modPath: modPath}
	if len(pkgs) > 0 {
		c.Fset = pkgs[0].Fset
	}
	for i, sp := range spkgs {
		if sp == nil {
			return nil, cannot("no SSA for package %s", pkgs[i].PkgPath)
		}
		c.SSAPkgs[sp.Pkg.Path()] = sp
		c.inMod[sp] = true
	}
	for fn := range ssautil.AllFunctions(prog) {
		if fn.Blocks == nil {
			continue
		}
		if c.InModule(fn) {
			c.ModFuncs = append(c.ModFuncs, fn)
		}
	}
	sort.Slice(c.ModFuncs, func(i, j int) bool { return c.ModFuncs[i].String() < c.ModFuncs[j].String() })
	// Normalisation against the "extract helper" refactoring: direct calls to unexported module functions
	// that are not anchors of a rule are inlined into their callers (vendored go/ssa, xt/ssa/inline.go). On
	// the tree the rules were written for this inlines nothing: every unexported function of that tree is an
	// anchor. A helper introduced later is folded back into the functions the rules look at.
	c.resolveAnchors()
	if !NoInline {
		inlineOpts := ssa.InlineOptions{Callee: func(g *ssa.Function) bool {
			if !c.InModule(g) {
				return false
			}
			if g.Parent() != nil {
				// a function literal: a local closure called by the function that makes it, or a constructor
				// kept in a table; its enclosing function decides
				return true
			}
			if g.Object() == nil {
				return false
			}
			if g.Object().Exported() {
				// an exported function the pinned tree does not have: a helper / accessor added later
				return !pinnedExported[c.FuncName(g)] && !c.isAnchorFn(g) && g.Name() != "String" && g.Name() != "Error"
			}
			return !c.isAnchorFn(g) && !strings.HasPrefix(g.Name(), "toString_") && !isPkgInitName(g.Name())
		}}
		// constant package-level tables (a composite literal of constants assigned once by the package
		// initializer, never written and never handed out): reads of their cells and lengths become constants
		// before the loops over them are looked at, see xt/ssa/consttab.go
		ssa.LowerAppendUint(c.ModFuncs) // binary.BigEndian.AppendUintN(b, v) = append(b, byte(v>>8), ..., byte(v))
		var ct *ssa.ConstTables
		for pass := 0; pass < 3; pass++ {
			res := ssa.InlineCalls(c.ModFuncs, inlineOpts)
			if pass > 0 && len(res.Inlined) == 0 {
				break
			}
			c.Inlined = append(c.Inlined, res.Inlined...)
			ssa.FoldInlined(c.ModFuncs, res.Inlined)
			c.dropDeadHelpers()
			if ct == nil {
				ct = ssa.AnalyzeConstGlobals(c.ModFuncs)
				c.ConstTables = ct.Notes
			}
			c.Unrolled = append(c.Unrolled, ct.Rewrite(c.ModFuncs, false)...)
			// second normalisation: loops with a compile-time constant trip count are unrolled and local tables
			// (composite literals accessed by constant indices) dissolved, see xt/ssa/unroll.go. Nothing on the
			// tree the rules were written for qualifies.
			c.Unrolled = append(c.Unrolled, ssa.NormalizeLoops(c.ModFuncs, ssa.UnrollOptions{DataOnly: true, StructCopies: func(f *ssa.Function) bool {
				for _, l := range c.Inlined {
					if strings.HasPrefix(l, f.String()+" <- ") {
						return true
					}
				}
				return false
			}})...)
			// reads at an integer offset that walks a byte slice (b[off+2:off+4]) become reads of the element at
			// the cursor (elem := b[off:]; elem[2:4]), see xt/ssa/cursor.go. Nothing on the tree the rules were
			// written for qualifies.
			c.Unrolled = append(c.Unrolled, ssa.NormalizeOffsetReads(c.ModFuncs)...)
			// a slice filled by index from a range over a map (keys[n] = k; n++) becomes the append form of the
			// same collection, see xt/ssa/indexfill.go. Nothing on the tree the rules were written for qualifies.
			c.Unrolled = append(c.Unrolled, ssa.NormalizeIndexFill(c.ModFuncs)...)
			// third normalisation: a merge that selects among integer constants which then serve as slice bounds
			// (switch kind { case A: n = 4; case B: n = 16 } ... b[8:8+n]) is duplicated per incoming edge, see
			// xt/ssa/split.go. Nothing on the tree the rules were written for qualifies.
			// (the two feed each other: a split turns the index of a table read into a constant, a table read that
			// became a φ of constants is the next merge to split)
			c.Unrolled = append(c.Unrolled, ssa.ThreadSwitchNilTests(c.ModFuncs, 6)...)
			ssa.CanonCompares(c.ModFuncs)
			for round := 0; round < 3; round++ {
				n1 := ct.Rewrite(c.ModFuncs, true)
				n2 := ssa.SplitConstMerges(c.ModFuncs)
				c.Unrolled = append(append(c.Unrolled, n1...), n2...)
				if len(n1)+len(n2) == 0 {
					break
				}
			}
			ssa.CanonCompares(c.ModFuncs)
			// an offset that became constant through a split (offset + 8 + addressLength) is read at the cursor now
			c.Unrolled = append(c.Unrolled, ssa.NormalizeOffsetReads(c.ModFuncs)...)
			// a call through a table entry or a local function value may have become a direct call by now: once more
		}
	}
	if want := os.Getenv("IKELINT_DUMP_FN"); want != "" {
		for _, fn := range c.ModFuncs {
			if fn.Name() == want || fn.String() == want {
				fn.WriteTo(os.Stderr)
			}
		}
	}
	return c, nil
}

// NoInline disables the helper-inlining normalisation (debugging).
var NoInline bool

// inlineAnchors: the unexported functions and methods of the module that rules name as their anchors
// (all unexported functions of the tree the rules were written for). They are never inlined.
var inlineAnchors = map[string]bool{
	"init": true, "initMAC": true, "getAttrsKeys": true, "setAttr": true,
	"verifyIntegrity": true, "calculateIntegrity": true, "encryptPayload": true, "decryptPayload": true,
	"decryptMsg": true, "encryptMsg": true, "getAttribute": true, "concatenateNonceAndSPI": true,
}

// InModule reports whether fn (or its enclosing function) belongs to a loaded module package.
func (c *Ctx) InModule(fn *ssa.Function) bool {
	for fn.Parent() != nil {
		fn = fn.Parent()
	}
	if fn.Pkg != nil {
		return c.inMod[fn.Pkg]
	}
	// synthetic wrappers / instantiated methods: look at the receiver / origin
	if o := fn.Origin(); o != nil && o.Pkg != nil {
		return c.inMod[o.Pkg]
	}
	return false
}

// Pos renders a position relative to the analysed directory.
func (c *Ctx) Pos(p token.Pos) string {
	if !p.IsValid() {
		return "-"
	}
	pos := c.Fset.Position(p)
	f := pos.Filename
	if rel := strings.TrimPrefix(f, c.Dir+"/"); rel != f {
		f = rel
	} else if i := strings.Index(f, "/pkg/mod/"); i >= 0 {
		f = f[i+9:]
	}
	return fmt.Sprintf("%s:%d", f, pos.Line)
}

// InstrPos gives the best position for an instruction (falls back to the block's other instructions).
func (c *Ctx) InstrPos(ins ssa.Instruction) string {
	if ins.Pos().IsValid() {
		return c.Pos(ins.Pos())
	}
	if v, ok := ins.(ssa.Value); ok {
		// try referrers / operands
		for _, op := range ins.Operands(nil) {
			if *op != nil && (*op).Pos().IsValid() {
				return c.Pos((*op).Pos())
			}
		}
		_ = v
	}
	if b := ins.Block(); b != nil {
		for _, i2 := range b.Instrs {
			if i2.Pos().IsValid() {
				return c.Pos(i2.Pos())
			}
		}
		if b.Parent() != nil {
			return c.Pos(b.Parent().Pos())
		}
	}
	return "-"
}

// Pkg returns the SSA package with the module-relative path rel ("" = root, "message", "security/encr").
func (c *Ctx) Pkg(rel string) *ssa.Package {
	p := c.modPath
	if rel != "" {
		p += "/" + rel
	}
	return c.SSAPkgs[p]
}

// Func resolves a package-level function. Returns nil if absent.
func (c *Ctx) Func(rel, name string) *ssa.Function {
	p := c.Pkg(rel)
	if p == nil {
		return nil
	}
	if fn := p.Func(name); fn != nil {
		return fn
	}
	return c.anchorAlias[rel+".."+name]
}

// Method resolves method name on named type typ (pointer receiver method set) of package rel.
func (c *Ctx) Method(rel, typ, name string) *ssa.Function {
	p := c.Pkg(rel)
	if p == nil {
		return nil
	}
	t := p.Type(typ)
	if t == nil {
		return nil
	}
	nt, ok := t.Type().(*types.Named)
	if !ok {
		return nil
	}
	for _, T := range []types.Type{types.NewPointer(nt), nt} {
		ms := c.Prog.MethodSets.MethodSet(T)
		if sel := ms.Lookup(p.Pkg, name); sel != nil {
			if fn := c.Prog.MethodValue(sel); fn != nil {
				// unwrap synthetic pointer wrappers to the declared method when possible
				return fn
			}
		}
	}
	return c.anchorAlias[rel+"."+typ+"."+name]
}

// NamedType resolves a named type of package rel.
func (c *Ctx) NamedType(rel, typ string) *types.Named {
	p := c.Pkg(rel)
	if p == nil {
		return nil
	}
	t := p.Type(typ)
	if t == nil {
		return nil
	}
	nt, _ := t.Type().(*types.Named)
	return nt
}

// FuncName is a stable, human readable name of a function: pkgrel.(Recv).Name or pkgrel.Name[$n].
func (c *Ctx) FuncName(fn *ssa.Function) string {
	s := fn.String()
	s = strings.ReplaceAll(s, c.modPath+"/", "")
	s = strings.ReplaceAll(s, c.modPath+".", "ike.")
	s = strings.ReplaceAll(s, c.modPath, "ike")
	return s
}

// ModuleNamedTypes lists all named (non-alias) types declared in module packages, sorted.
func (c *Ctx) ModuleNamedTypes() []*types.Named {
	var out []*types.Named
	for _, sp := range c.SSAPkgs {
		for _, m := range sp.Members {
			if t, ok := m.(*ssa.Type); ok {
				if nt, ok := t.Type().(*types.Named); ok {
					out = append(out, nt)
				}
			}
		}
	}
	sort.Slice(out, func(i, j int) bool { return out[i].String() < out[j].String() })
	return out
}

// Implementers returns the module types (T or *T) whose method set implements iface, sorted.
func (c *Ctx) Implementers(iface *types.Interface) []types.Type {
	var out []types.Type
	for _, nt := range c.ModuleNamedTypes() {
		if _, isIface := nt.Underlying().(*types.Interface); isIface {
			continue
		}
		if types.Implements(nt, iface) {
			out = append(out, nt)
		} else if pt := types.NewPointer(nt); types.Implements(pt, iface) {
			out = append(out, pt)
		}
	}
	return out
}

// FuncAtLine names the innermost module function whose syntax spans file:line ("" if none).
func (c *Ctx) FuncAtLine(file string, line int) string {
	best := ""
	bestSpan := 1 << 30
	for _, fn := range c.ModFuncs {
		syn := fn.Syntax()
		if syn == nil {
			continue
		}
		a, b := c.Fset.Position(syn.Pos()), c.Fset.Position(syn.End())
		f := strings.TrimPrefix(a.Filename, c.Dir+"/")
		if f != file || line < a.Line || line > b.Line {
			continue
		}
		if span := b.Line - a.Line; span < bestSpan {
			// closures are reported under their outermost parent, as the reports do
			p := fn
			for p.Parent() != nil {
				p = p.Parent()
			}
			best, bestSpan = c.FuncName(p), span
		}
	}
	return best
}

// dropDeadHelpers removes from ModFuncs the unexported, non-anchor functions that no module function refers to
// any more after inlining (every call was folded into its caller): they are dead code, and rules that scan
// "every function of the module" must not judge a body that can no longer run.
func (c *Ctx) dropDeadHelpers() {
	if len(c.Inlined) == 0 {
		return
	}
	for round := 0; round < 4; round++ {
		referenced := map[*ssa.Function]bool{}
		var rands []*ssa.Value
		for _, fn := range c.ModFuncs {
			for _, b := range fn.Blocks {
				for _, ins := range b.Instrs {
					rands = ins.Operands(rands[:0])
					for _, p := range rands {
						if g, ok := (*p).(*ssa.Function); ok {
							referenced[g] = true
						}
					}
				}
			}
		}
		var kept []*ssa.Function
		dropped := false
		for _, fn := range c.ModFuncs {
			dead := fn.Parent() == nil && fn.Object() != nil && !fn.Object().Exported() && fn.Signature.Recv() == nil &&
				!referenced[fn] && !c.isAnchorFn(fn) && !isPkgInitName(fn.Name()) && fn.Name() != "main"
			// unexported methods can be reached through interfaces; only those of types that implement no
			// module interface method of that name are considered: keep it simple and require a plain function
			// or a method that is not in any interface's method set
			if !dead && fn.Parent() == nil && fn.Object() != nil && !fn.Object().Exported() && fn.Signature.Recv() != nil &&
				!referenced[fn] && !c.isAnchorFn(fn) && !c.methodNameInSomeInterface(fn.Name()) {
				dead = true
			}
			// a function literal whose every call was inlined and whose closure value is gone
			if !dead && fn.Parent() != nil && !referenced[fn] {
				dead = true
			}
			if dead {
				dropped = true
				c.DeadHelpers = append(c.DeadHelpers, fn.String())
				continue
			}
			kept = append(kept, fn)
		}
		c.ModFuncs = kept
		if !dropped {
			break
		}
	}
}

func (c *Ctx) methodNameInSomeInterface(name string) bool {
	for _, sp := range c.SSAPkgs {
		for _, m := range sp.Members {
			t, ok := m.(*ssa.Type)
			if !ok {
				continue
			}
			if it, ok := t.Type().Underlying().(*types.Interface); ok {
				for i := 0; i < it.NumMethods(); i++ {
					if it.Method(i).Name() == name {
						return true
					}
				}
			}
		}
	}
	return false
}

// isPkgInitName: the package initialiser and the init functions of a package ("init", "init#1", ...), not a
// function that merely starts with these letters (initMAC, initSecurityObjects).
func isPkgInitName(n string) bool {
	return n == "init" || strings.HasPrefix(n, "init#")
}
