package lint

import (
	"go/token"
	"go/types"
	"sort"

	"ikeverif/checker/xt/ssa"
)

// Alias analysis with a type-based, field-keyed heap abstraction (E3 of DESIGN.md).
//
// alias(v) means: v may point into "source" memory (e.g. the input buffer of a decoder).
// Heap memory is abstracted by effect keys (field:pkg.T.F, elem:T, map:T, global:..., deref:T):
// once an alias value is stored under a key, every pointer-like load under that key is an alias.
// The analysis is flow-insensitive and interprocedural over a scope (module call graph).

type AliasCfg struct {
	Scope []*ssa.Function
	// Source reports whether v (a parameter, or any instruction value) is a source in fn.
	Source func(fn *ssa.Function, v ssa.Value) bool
	// AllowedKeys: heap keys that may legitimately hold alias values (they still propagate).
	AllowedKeys map[string]string
}

type AliasSite struct {
	Fn   *ssa.Function
	Ins  ssa.Instruction
	Key  string
	What string
}

type AliasResult struct {
	cfg      *AliasCfg
	c        *Ctx
	Tainted  map[*ssa.Function]map[ssa.Value]int // 0 none, 1 reach (fresh memory holding pointers into source memory), 2 mem (points into source memory)
	HeapKeys map[string][]AliasSite              // keys holding alias values, with the stores that put them there
	RetAlias map[*ssa.Function]int
	paramSrc map[*ssa.Function]map[int]int
	inScope  map[*ssa.Function]bool
	// Events
	WritesThrough []AliasSite // stores / copy dst / external writers / append-first-arg on alias memory
	ExtArgs       []AliasSite // alias values passed to external callees not in the read-only table
}

func pointerLike(t types.Type) bool {
	switch u := t.Underlying().(type) {
	case *types.Pointer, *types.Slice, *types.Map, *types.Interface, *types.Signature, *types.Chan:
		return true
	case *types.Struct:
		for i := 0; i < u.NumFields(); i++ {
			if pointerLike(u.Field(i).Type()) {
				return true
			}
		}
	case *types.Array:
		return pointerLike(u.Elem())
	case *types.Tuple:
		for i := 0; i < u.Len(); i++ {
			if pointerLike(u.At(i).Type()) {
				return true
			}
		}
	}
	return false
}

func elemPointerLike(t types.Type) bool {
	if s, ok := t.Underlying().(*types.Slice); ok {
		return pointerLike(s.Elem())
	}
	return true
}

// External callees whose pointer-like result may alias an argument (others return fresh memory).
var externalResultAliasesArg = map[string]bool{
	"(net.IP).To4":          true,
	"(net.IP).To16":         true,
	"iface:hash.Hash.Sum":   true, // appends to its argument
	"bytes.NewBuffer":       true,
	"(*bytes.Buffer).Bytes": true,
}

func (c *Ctx) Alias(cfg *AliasCfg) *AliasResult {
	r := &AliasResult{cfg: cfg, c: c, Tainted: map[*ssa.Function]map[ssa.Value]int{}, HeapKeys: map[string][]AliasSite{}, RetAlias: map[*ssa.Function]int{}, paramSrc: map[*ssa.Function]map[int]int{}, inScope: map[*ssa.Function]bool{}}
	for _, fn := range cfg.Scope {
		r.inScope[fn] = true
		r.Tainted[fn] = map[ssa.Value]int{}
	}
	for changed := true; changed; {
		changed = false
		for _, fn := range cfg.Scope {
			if r.pass(fn) {
				changed = true
			}
		}
	}
	// collect events in a final pass
	for _, fn := range cfg.Scope {
		r.events(fn)
	}
	return r
}

func (r *AliasResult) isAlias(fn *ssa.Function, v ssa.Value) bool { return r.Tainted[fn][v] > 0 }

// Level returns 0 (none), 1 (reach) or 2 (mem) for v in fn.
func (r *AliasResult) Level(fn *ssa.Function, v ssa.Value) int { return r.Tainted[fn][v] }

func (r *AliasResult) addHeap(key string, site AliasSite) bool {
	for _, s := range r.HeapKeys[key] {
		if s.Ins == site.Ins {
			return false
		}
	}
	first := len(r.HeapKeys[key]) == 0
	r.HeapKeys[key] = append(r.HeapKeys[key], site)
	return first
}

func (r *AliasResult) pass(fn *ssa.Function) bool {
	changed := false
	t := r.Tainted[fn]
	mark := func(v ssa.Value, lvl int) {
		if v != nil && lvl > t[v] {
			t[v] = lvl
			changed = true
		}
	}
	for i, p := range fn.Params {
		if r.cfg.Source != nil && r.cfg.Source(fn, p) {
			mark(p, 2)
		}
		mark(p, r.paramSrc[fn][i])
	}
	for _, fv := range fn.FreeVars {
		// closures: a free variable aliases if the bound value in the parent does
		if par := fn.Parent(); par != nil && r.inScope[par] {
			for _, b := range par.Blocks {
				for _, ins := range b.Instrs {
					if mc, ok := ins.(*ssa.MakeClosure); ok && mc.Fn == ssa.Value(fn) {
						for j, bv := range mc.Bindings {
							if j < len(fn.FreeVars) && fn.FreeVars[j] == fv {
								mark(fv, r.Tainted[par][bv])
							}
						}
					}
				}
			}
		}
	}
	loaded := func(x ssa.Value, from ssa.Value) {
		if pointerLike(x.Type()) && t[from] > 0 {
			mark(x, 2)
		}
	}
	for _, b := range fn.Blocks {
		for _, ins := range b.Instrs {
			if v, ok := ins.(ssa.Value); ok && r.cfg.Source != nil && r.cfg.Source(fn, v) {
				mark(v, 2)
			}
			if r.cfg.Source != nil {
				for _, op := range ins.Operands(nil) {
					if g, ok := (*op).(*ssa.Global); ok && r.cfg.Source(fn, g) {
						mark(g, 2)
					}
				}
			}
			switch x := ins.(type) {
			case *ssa.Slice:
				mark(x, t[x.X])
			case *ssa.Phi:
				for _, e := range x.Edges {
					mark(x, t[e])
				}
			case *ssa.ChangeType:
				mark(x, t[x.X])
			case *ssa.ChangeInterface:
				mark(x, t[x.X])
			case *ssa.MakeInterface:
				mark(x, t[x.X])
			case *ssa.TypeAssert:
				mark(x, t[x.X])
			case *ssa.Extract:
				if pointerLike(x.Type()) {
					mark(x, t[x.Tuple])
				}
			case *ssa.IndexAddr:
				mark(x, t[x.X])
			case *ssa.FieldAddr:
				mark(x, t[x.X])
			case *ssa.Field:
				loaded(x, x.X)
			case *ssa.Index:
				loaded(x, x.X)
			case *ssa.Lookup:
				if pointerLike(x.Type()) {
					loaded(x, x.X)
					if _, isMap := x.X.Type().Underlying().(*types.Map); isMap && len(r.HeapKeys["map:"+typeKey(x.X.Type())]) > 0 {
						mark(x, 2)
					}
				}
			case *ssa.Range:
				mark(x, t[x.X])
			case *ssa.Next:
				if t[x.Iter] > 0 {
					mark(x, 2)
				}
				if rg, ok := x.Iter.(*ssa.Range); ok {
					if _, isMap := rg.X.Type().Underlying().(*types.Map); isMap && len(r.HeapKeys["map:"+typeKey(rg.X.Type())]) > 0 {
						mark(x, 2)
					}
				}
			case *ssa.UnOp:
				if x.Op == token.MUL && pointerLike(x.Type()) {
					loaded(x, x.X)
					if k := r.loadKey(fn, x.X); k != "" && len(r.HeapKeys[k]) > 0 {
						mark(x, 2)
					}
				}
			case *ssa.Convert:
				// []byte <-> string conversions copy; pointer conversions (unsafe) are excluded by C18
			case *ssa.Store:
				if t[x.Val] > 0 && pointerLike(x.Val.Type()) {
					k := r.loadKey(fn, x.Addr)
					if k != "" {
						if r.addHeap(k, AliasSite{Fn: fn, Ins: ins, Key: k, What: "store of an aliasing value"}) {
							changed = true
						}
					}
				}
			case *ssa.MapUpdate:
				if (t[x.Value] > 0 && pointerLike(x.Value.Type())) || (t[x.Key] > 0 && pointerLike(x.Key.Type())) {
					k := "map:" + typeKey(x.Map.Type())
					if r.addHeap(k, AliasSite{Fn: fn, Ins: ins, Key: k, What: "map update with an aliasing value"}) {
						changed = true
					}
				}
			case *ssa.Return:
				for _, res := range x.Results {
					if t[res] > r.RetAlias[fn] {
						r.RetAlias[fn] = t[res]
						changed = true
					}
				}
			case *ssa.MakeClosure:
				// handled from the closure side
			case ssa.CallInstruction:
				if r.call(fn, x, mark) {
					changed = true
				}
			}
		}
	}
	return changed
}

// loadKey gives the heap key of an address (for loads and stores). Local allocations get a
// per-site key so that they act as carriers.
func (r *AliasResult) loadKey(fn *ssa.Function, addr ssa.Value) string {
	switch x := addr.(type) {
	case *ssa.Alloc:
		return "alloc:" + r.c.FuncName(fn) + ":" + x.Name()
	}
	k := addrEffect(addr)
	if k == "local-heap" {
		return ""
	}
	return k
}

func (r *AliasResult) call(fn *ssa.Function, ci ssa.CallInstruction, mark func(ssa.Value, int)) bool {
	changed := false
	t := r.Tainted[fn]
	cm := ci.Common()
	val, _ := ci.(ssa.Value)
	if bi, ok := cm.Value.(*ssa.Builtin); ok {
		switch bi.Name() {
		case "append":
			mark(val, t[cm.Args[0]])
			if len(cm.Args) > 1 && t[cm.Args[1]] > 0 && elemPointerLike(cm.Args[1].Type()) {
				mark(val, 1)
			}
		case "copy":
			if t[cm.Args[1]] > 0 && elemPointerLike(cm.Args[1].Type()) {
				if k := sliceElemKey(cm.Args[0].Type()); k != "" {
					if r.addHeap(k, AliasSite{Fn: fn, Ins: ci, Key: k, What: "copy of aliasing elements"}) {
						changed = true
					}
				}
			}
		}
		return changed
	}
	cs := r.c.CalleesAt(ci)
	args := cm.Args
	anyAlias := 0
	for _, a := range args {
		if t[a] > anyAlias {
			anyAlias = t[a]
		}
	}
	if cm.IsInvoke() && t[cm.Value] > anyAlias {
		anyAlias = t[cm.Value]
	}
	for _, m := range cs.Mod {
		if !r.inScope[m] {
			// callee outside the analysed scope: conservative — result aliases if any argument does
			if anyAlias > 0 && val != nil && pointerLike(val.Type()) {
				mark(val, anyAlias)
			}
			continue
		}
		params := m.Params
		var actuals []ssa.Value
		if cm.IsInvoke() {
			actuals = append([]ssa.Value{cm.Value}, args...)
		} else {
			actuals = args
		}
		for i, a := range actuals {
			if i < len(params) && t[a] > 0 {
				if r.paramSrc[m] == nil {
					r.paramSrc[m] = map[int]int{}
				}
				if t[a] > r.paramSrc[m][i] {
					r.paramSrc[m][i] = t[a]
					changed = true
				}
			}
		}
		if r.RetAlias[m] > 0 && val != nil && pointerLike(val.Type()) {
			mark(val, r.RetAlias[m])
		}
	}
	for _, e := range cs.External {
		if anyAlias > 0 && val != nil && pointerLike(val.Type()) {
			if externalResultAliasesArg[e] {
				mark(val, anyAlias)
			} else if _, known := externalReadOnly[e]; !known {
				if _, w := externalWritesArg[e]; !w {
					mark(val, anyAlias) // unknown external callee: assume the result may alias its arguments
				}
			}
		}
	}
	if cs.Dynamic && len(cs.Mod) == 0 && anyAlias > 0 && val != nil && pointerLike(val.Type()) {
		mark(val, anyAlias)
	}
	return changed
}

// events collects write-through and external-argument events (after the fixpoint).
func (r *AliasResult) events(fn *ssa.Function) {
	t := r.Tainted[fn]
	for _, b := range fn.Blocks {
		for _, ins := range b.Instrs {
			switch x := ins.(type) {
			case *ssa.Store:
				if t[x.Addr] == 2 {
					r.WritesThrough = append(r.WritesThrough, AliasSite{Fn: fn, Ins: ins, What: "store through a pointer into aliased memory"})
				}
			case *ssa.MapUpdate:
				if t[x.Map] == 2 {
					r.WritesThrough = append(r.WritesThrough, AliasSite{Fn: fn, Ins: ins, What: "update of an aliased map"})
				}
			case ssa.CallInstruction:
				cm := x.Common()
				if bi, ok := cm.Value.(*ssa.Builtin); ok {
					switch bi.Name() {
					case "copy":
						if t[cm.Args[0]] == 2 {
							r.WritesThrough = append(r.WritesThrough, AliasSite{Fn: fn, Ins: ins, What: "copy() into aliased memory"})
						}
					case "delete":
						if t[cm.Args[0]] == 2 {
							r.WritesThrough = append(r.WritesThrough, AliasSite{Fn: fn, Ins: ins, What: "delete from an aliased map"})
						}
					case "append":
						if t[cm.Args[0]] == 2 {
							r.WritesThrough = append(r.WritesThrough, AliasSite{Fn: fn, Ins: ins, What: "append onto an aliased slice (may write its spare capacity)"})
						}
					}
					continue
				}
				cs := r.c.CalleesAt(x)
				for _, e := range cs.External {
					if idxs, ok := externalWritesArg[e]; ok {
						for _, i := range idxs {
							if i < len(cm.Args) && t[cm.Args[i]] == 2 {
								r.WritesThrough = append(r.WritesThrough, AliasSite{Fn: fn, Ins: ins, What: e + " writes into aliased memory"})
							}
						}
						continue
					}
					if _, ok := externalReadOnly[e]; ok {
						continue
					}
					for _, a := range cm.Args {
						if t[a] > 0 {
							r.ExtArgs = append(r.ExtArgs, AliasSite{Fn: fn, Ins: ins, What: "aliased memory passed to external callee " + e + " which is not in the read-only table"})
						}
					}
					if cm.IsInvoke() && t[cm.Value] > 0 {
						r.ExtArgs = append(r.ExtArgs, AliasSite{Fn: fn, Ins: ins, What: "method " + e + " invoked on an aliased object whose implementation lies outside the module and is not in the read-only table"})
					}
				}
			}
		}
	}
}

// SortedHeapKeys lists heap keys holding alias values.
func (r *AliasResult) SortedHeapKeys() []string {
	out := make([]string, 0, len(r.HeapKeys))
	for k := range r.HeapKeys {
		out = append(out, k)
	}
	sort.Strings(out)
	return out
}
