package lint

import (
	"fmt"
	"go/token"
	"go/types"
	"sort"
	"strings"

	"ikeverif/checker/xt/ssa"
)

// E5: wire-slot tables (DESIGN 3.6).
//
// A record is a module struct type whose fields are carried on the wire. For each record the
// decoder side yields rows "field bit j <- wire bit (octet o, bit b)" and byte segments
// "field <- octets [lo, hi)", the encoder side yields rows "wire bit (o, b) <- field bit j",
// constants written to wire bits, length/count slots and appended segments. Both are obtained from
// the SSA form through bit-provenance vectors (bv.go) and linear forms (lf.go); nothing is matched
// on text.

// wbit is one bit on the wire inside a record: octet offset and bit number (0 = least significant).
type wbit struct {
	Off int64
	Bit int
}

type bitRow struct {
	Field string // Struct.Field
	FBit  int
	W     wbit
	Cond  string
	Root  string // decode: the cursor / parameter the wire bit is relative to
	Fn    string // function the row was extracted from
}

type segRow struct {
	Field  string // Struct.Field (bytes), or nested record name
	Lo, Hi string // symbolic octet offsets ("end" for an open upper end)
	LoLF   LF
	HiLF   LF
	Open   bool
	Cond   string
	Pos    string
	Nested string // name of the nested family / cursor, if the segment is a sub-record list
	Alias  bool   // decode: the field aliases the input (no copy)
	Fn     string
}

type constRow struct {
	W    wbit
	Val  int // 0/1
	Cond string
}

type lenSlot struct {
	Off    int64
	Octets int
	Of     string // what length/count it carries, in symbolic form
	Cond   string
	Pos    string
}

// cursorInfo describes the cursor (loop-carried sub-slice) a record is decoded from.
type cursorInfo struct {
	Root   string // cursor name
	Parent string // root the cursor is cut from
	InitLo string
	InitHi string // "end" if open
	Step   string // how far the cursor advances per element
}

type recTable struct {
	Cursors    []cursorInfo
	Record     string
	Side       string // "decode" | "encode"
	Bits       []bitRow
	Segs       []segRow
	Consts     []constRow
	LenSlots   []lenSlot
	Unresolved []string
	Funcs      []string
	Elems      []string // array-element rows (variable offset), rendered
	ElemLen    []string // encode side, element records: the size one element is made with (constant or a field expression)
}

// dedupe removes duplicate rows (sibling functions such as TSi/TSr contribute the same rows).
func (t *recTable) dedupe() {
	seenB := map[bitRow]bool{}
	var bits []bitRow
	for _, r := range t.Bits {
		if !seenB[r] {
			seenB[r] = true
			bits = append(bits, r)
		}
	}
	t.Bits = bits
	seenC := map[constRow]bool{}
	var cs []constRow
	for _, r := range t.Consts {
		if !seenC[r] {
			seenC[r] = true
			cs = append(cs, r)
		}
	}
	t.Consts = cs
	seenL := map[string]bool{}
	var ls []lenSlot
	for _, r := range t.LenSlots {
		k := fmt.Sprintf("%d/%d/%s/%s", r.Off, r.Octets, r.Of, r.Cond)
		if !seenL[k] {
			seenL[k] = true
			ls = append(ls, r)
		}
	}
	t.LenSlots = ls
	seenS := map[string]bool{}
	var ss []segRow
	for _, r := range t.Segs {
		k := r.Field + "/" + r.Lo + "/" + r.Hi + "/" + r.Nested + "/" + r.Cond + "/" + r.Fn
		if !seenS[k] {
			seenS[k] = true
			ss = append(ss, r)
		}
	}
	t.Segs = ss
}

func (t *recTable) addUnresolved(s string) {
	for _, u := range t.Unresolved {
		if u == s {
			return
		}
	}
	t.Unresolved = append(t.Unresolved, s)
}

// beBit maps bit i of a big-endian integer of n octets at offset off to its wire bit.
func beBit(off int64, n, i int) wbit {
	return wbit{Off: off + int64(n-1-i/8), Bit: i % 8}
}

type slotTables struct {
	Dec map[string]*recTable
	Enc map[string]*recTable
}

func (s *slotTables) table(side, rec string) *recTable {
	m := s.Dec
	if side == "encode" {
		m = s.Enc
	}
	t, ok := m[rec]
	if !ok {
		t = &recTable{Record: rec, Side: side}
		m[rec] = t
	}
	return t
}

// structOfField splits "pkg.Struct.Field".
func structOfField(fk string) (string, string) {
	i := strings.LastIndex(fk, ".")
	if i < 0 {
		return fk, ""
	}
	return fk[:i], fk[i+1:]
}

// isCodecStruct: struct types of the message and eap packages.
func isCodecStructKey(k string) bool {
	return strings.HasPrefix(k, "message.") || strings.HasPrefix(k, "eap.")
}

// variantCond renders the dominating branch conditions of block b that select a variant of the
// layout (both arms continue), skipping guards one of whose arms only reports an error.
func (c *Ctx) variantCond(f *FA, x *bvCtx, b *ssa.BasicBlock) string {
	var parts []string
	for bb := b; bb != nil; bb = bb.Idom() {
		if len(bb.Preds) != 1 {
			continue
		}
		p := bb.Preds[0]
		iff, ok := p.Instrs[len(p.Instrs)-1].(*ssa.If)
		if !ok || p.Succs[0] == p.Succs[1] {
			continue
		}
		if _, _, dec := c.condKnown(iff.Cond); dec {
			continue
		}
		other := p.Succs[1]
		taken := true
		if p.Succs[1] == bb {
			other = p.Succs[0]
			taken = false
		}
		if c.onlyErrorExit(other) {
			continue
		}
		// loop guards: the other arm leaves the loop — not a variant
		if isLoopExitEdge(f.Fn, p, other) {
			continue
		}
		if tok := moreLastTokenF(f, f.Fn, p, iff, taken); tok != "" {
			parts = append(parts, tok)
			continue
		}
		txt := c.condText(f, x, iff.Cond, taken)
		// "x != k" behind a guard that already established x >= k is "x > k" (and likewise "<"): the same
		// variant written with an early return instead of a nested if
		if bo, ok := iff.Cond.(*ssa.BinOp); ok && strings.Contains(txt, " != ") {
			if k, isK := bo.Y.(*ssa.Const); isK && k.Value != nil {
				if kv, okK := constInt64(k.Value); okK {
					facts := f.FactsAt(p)
					l := f.LFOf(bo.X)
					// only when a guard establishes the bound (not the value's type alone)
					ge, _ := f.Prove(l.add(konst(kv), -1), facts)
					ge0, _ := f.Prove(l.add(konst(kv), -1), nil)
					le, _ := f.Prove(konst(kv).add(l, -1), facts)
					le0, _ := f.Prove(konst(kv).add(l, -1), nil)
					if ge && !ge0 {
						txt = strings.Replace(txt, " != ", " > ", 1)
					} else if le && !le0 {
						txt = strings.Replace(txt, " != ", " < ", 1)
					}
				}
			}
		}
		parts = append(parts, txt)
	}
	return cleanConds(parts)
}

// moreLastToken recognises the "is there a following element" test (i+1) < len(list) inside a range
// loop: "#more" on its true edge, "#last" on its false edge.
func moreLastToken(fn *ssa.Function, p *ssa.BasicBlock, iff *ssa.If, taken bool) string {
	return moreLastTokenF(nil, fn, p, iff, taken)
}

// moreLastTokenF: with f, the right-hand side may also be an integer that equals the bound of the enclosing range
// loop (the element count computed separately, e.g. as the sum of the lengths of the lists that were concatenated).
func moreLastTokenF(f *FA, fn *ssa.Function, p *ssa.BasicBlock, iff *ssa.If, taken bool) string {
	cond, ok := iff.Cond.(*ssa.BinOp)
	if !ok || cond.Op != token.LSS {
		return ""
	}
	for _, li := range naturalLoops(fn) {
		if li.header == p {
			return ""
		}
	}
	add, ok := cond.X.(*ssa.BinOp)
	if !ok || add.Op != token.ADD {
		return ""
	}
	k, ok := add.Y.(*ssa.Const)
	if !ok {
		return ""
	}
	if kv, _ := constInt64(k.Value); kv != 1 {
		return ""
	}
	isLen := false
	if lc, ok := cond.Y.(*ssa.Call); ok {
		if bi, ok := lc.Call.Value.(*ssa.Builtin); ok && bi.Name() == "len" {
			isLen = true
		}
	}
	if !isLen {
		if f == nil {
			return ""
		}
		// the bound of the innermost loop around p: header test `index < len(list)`
		same := false
		var inner *loopInfo
		for _, li := range naturalLoops(fn) {
			if li.body[p] && (inner == nil || len(li.body) < len(inner.body)) {
				inner = li
			}
		}
		if inner != nil {
			if hif, ok := inner.header.Instrs[len(inner.header.Instrs)-1].(*ssa.If); ok {
				if hc, ok := hif.Cond.(*ssa.BinOp); ok && hc.Op == token.LSS {
					// the index tested is the loop's own counter, the bound is the loop's own bound (the length of
					// the list, or the element count computed separately and used for both tests)
					if ph, ok := add.X.(*ssa.Phi); ok && ph.Block() == inner.header && (hc.X == ssa.Value(ph) || f.LFOf(hc.X).key() == f.LFOf(ph).add(konst(1), 1).key()) || add.X == hc.X {
						same = f.LFOf(cond.Y).key() == f.LFOf(hc.Y).key()
					}
				}
			}
		}
		if !same {
			return ""
		}
	}
	if taken {
		return "#more"
	}
	return "#last"
}

// cleanConds keeps the conditions that select a layout variant: comparisons of a wire leaf or a
// codec field with a constant (or a boolean field); guards on lengths, loop state and nil tests of
// byte slices do not change the layout. For one left-hand side an "==" makes its "!=" redundant.
func cleanConds(parts []string) string {
	var keep []string
	hasEq := map[string]bool{}
	lhsOf := func(p string) string {
		for _, op := range []string{" == ", " != ", " >= ", " <= ", " > ", " < "} {
			if i := strings.Index(p, op); i > 0 {
				return p[:i]
			}
		}
		return strings.TrimPrefix(p, "!")
	}
	for _, p := range parts {
		l := lhsOf(p)
		if strings.HasPrefix(p, "#") {
			keep = append(keep, p)
			continue
		}
		if strings.Contains(p, "len(") || strings.Contains(p, "len:") || strings.Contains(p, "phi:") || strings.Contains(p, "arith:") || strings.Contains(p, "v:") || strings.Contains(p, "call:") || strings.Contains(p, "cmp:") || strings.Contains(p, "param:") && !strings.Contains(p, "wire(") {
			continue
		}
		if !(strings.HasPrefix(l, "wire(") || strings.HasPrefix(l, "message.") || strings.HasPrefix(l, "eap.")) {
			continue
		}
		if strings.HasSuffix(p, " != nil") || strings.HasSuffix(p, " == nil") {
			continue
		}
		keep = append(keep, p)
		if strings.Contains(p, " == ") {
			hasEq[l] = true
		}
	}
	var out []string
	seen := map[string]bool{}
	for _, p := range keep {
		if strings.Contains(p, " != ") && hasEq[lhsOf(p)] {
			continue
		}
		if !seen[p] {
			seen[p] = true
			out = append(out, p)
		}
	}
	sort.Strings(out)
	return strings.Join(out, " && ")
}

func isLoopExitEdge(fn *ssa.Function, p, other *ssa.BasicBlock) bool {
	for _, li := range naturalLoops(fn) {
		if li.body[p] && !li.body[other] {
			return true
		}
	}
	return false
}

// onlyErrorExit: every path from b ends in a return with a non-nil error (or panics).
func (c *Ctx) onlyErrorExit(b *ssa.BasicBlock) bool {
	seen := map[*ssa.BasicBlock]bool{}
	st := []*ssa.BasicBlock{b}
	n := 0
	for len(st) > 0 {
		x := st[len(st)-1]
		st = st[:len(st)-1]
		if seen[x] {
			continue
		}
		seen[x] = true
		n++
		if n > 12 {
			return false
		}
		last := x.Instrs[len(x.Instrs)-1]
		switch l := last.(type) {
		case *ssa.Return:
			if len(l.Results) == 0 {
				return false
			}
			e := l.Results[len(l.Results)-1]
			if !isErrorType(e.Type()) || mayBeNilValue(e, 0) {
				return false
			}
		case *ssa.Panic:
		default:
			if len(x.Succs) == 0 {
				return false
			}
			st = append(st, x.Succs...)
		}
	}
	return true
}

// condText renders a branch condition canonically: comparisons of a field / wire leaf with a constant.
func (c *Ctx) condText(f *FA, x *bvCtx, cond ssa.Value, taken bool) string {
	neg := func(s string) string {
		if strings.HasPrefix(s, "!") {
			return s[1:]
		}
		return "!" + s
	}
	var txt string
	switch e := cond.(type) {
	case *ssa.BinOp:
		l, r := x.operandText(e.X), x.operandText(e.Y)
		op := e.Op
		if !taken {
			switch op {
			case token.EQL:
				op = token.NEQ
			case token.NEQ:
				op = token.EQL
			case token.LSS:
				op = token.GEQ
			case token.GEQ:
				op = token.LSS
			case token.GTR:
				op = token.LEQ
			case token.LEQ:
				op = token.GTR
			}
		}
		return fmt.Sprintf("%s %s %s", l, op, r)
	case *ssa.UnOp:
		if e.Op == token.NOT {
			return c.condText(f, x, e.X, !taken)
		}
		txt = x.operandText(cond)
	default:
		txt = x.operandText(cond)
	}
	if !taken {
		return neg(txt)
	}
	return txt
}

func (x *bvCtx) operandText(v ssa.Value) string {
	if k, ok := v.(*ssa.Const); ok {
		if k.Value == nil {
			return "nil"
		}
		return k.Value.ExactString()
	}
	if _, ok := typeBits(v.Type()); ok {
		bv := x.Eval(v)
		if kv, ok := bvConst(bv); ok {
			return fmt.Sprint(kv)
		}
		// consecutive wire octets assembled by shifts and ors are the integer a BigEndian call would read there
		if id, ok := x.wireGroupOf(v); ok {
			return x.leaves[id].Key
		}
		runs, ones, tops := runsOf(bv)
		if len(runs) == 1 && len(ones) == 0 && len(tops) == 0 && runs[0].DstLo == 0 {
			l := x.leaves[runs[0].Leaf]
			dw := l.Width
			if n, ok := x.FieldBits[l.Key]; ok && n < dw {
				dw = n
			}
			if runs[0].SrcLo == 0 && (runs[0].N == l.Width || runs[0].N == dw) {
				return l.Key
			}
			return fmt.Sprintf("%s[%d..%d]", l.Key, runs[0].SrcLo, runs[0].SrcLo+runs[0].N-1)
		}
		return x.Describe(bv)
	}
	if fk, ok := fieldKeyOfLoad(v); ok {
		return fk
	}
	if call, ok := v.(*ssa.Call); ok {
		if bi, ok := call.Call.Value.(*ssa.Builtin); ok && bi.Name() == "len" {
			return "len(" + x.operandText(call.Call.Args[0]) + ")"
		}
	}
	return "v:" + v.Name()
}

// ---------------------------------------------------------------------------------------------
// decode side

// decodeTablesOf extracts the decode rows of fn into st.
func (c *Ctx) decodeTablesOf(fn *ssa.Function, st *slotTables, recName func(rec string) string) {
	c.curTables = st
	f := c.NewFA(fn)
	x := newBVCtx(c, f)
	for _, b := range fn.Blocks {
		if f.Dead[b] {
			continue
		}
		for _, ins := range b.Instrs {
			s, ok := ins.(*ssa.Store)
			if !ok {
				continue
			}
			// the target field: a field address, or a pointer chosen among field addresses by an accessor
			// (`*p.listFor(kind) = append(...)`): one conditional store per alternative
			type target struct {
				fa   *ssa.FieldAddr
				cond string
			}
			var targets []target
			if fa, ok := s.Addr.(*ssa.FieldAddr); ok {
				targets = []target{{fa, c.variantCond(f, x, b)}}
			} else if _, isPhi := s.Addr.(*ssa.Phi); isPhi {
				base := c.variantCond(f, x, b)
				for _, a := range phiAlternatives(s.Addr, b, 0) {
					fa, ok := a.val.(*ssa.FieldAddr)
					if !ok {
						continue // nil (no such list) and anything else: nothing is stored into a field
					}
					cond := c.altCond(f, x, a)
					if base != "" && !strings.Contains(cond, base) {
						if cond == "" {
							cond = base
						} else {
							cond = cleanConds(append(strings.Split(cond, " && "), strings.Split(base, " && ")...))
						}
					}
					targets = append(targets, target{fa, cond})
				}
			}
			for _, tg := range targets {
				fa := tg.fa
				fk := strings.TrimPrefix(FieldKey(fa.X.Type(), fa.Field), "field:")
				rec, _ := structOfField(fk)
				if !isCodecStructKey(rec) {
					continue
				}
				if recName != nil {
					rec = recName(rec)
				}
				t := st.table("decode", rec)
				t.Funcs = appendUniq(t.Funcs, c.FuncName(fn))
				cond := tg.cond
				pos := c.InstrPos(s)
				nb, ns := len(t.Bits), len(t.Segs)
				c.decodeStore(f, x, t, fk, s.Val, cond, pos, fn)
				for i := nb; i < len(t.Bits); i++ {
					t.Bits[i].Fn = c.FuncName(fn)
				}
				for i := ns; i < len(t.Segs); i++ {
					t.Segs[i].Fn = c.FuncName(fn)
				}
			}
		}
	}
	// cursors: every byte-slice φ at a loop header that roots a wire leaf or a segment
	for _, li := range naturalLoops(fn) {
		for _, ins := range li.header.Instrs {
			p, ok := ins.(*ssa.Phi)
			if !ok || !isByteSlice(p.Type()) {
				continue
			}
			rk := x.rootKey(p)
			// which record uses it?
			for rec, t := range st.Dec {
				uses := false
				for _, sg := range t.Segs {
					if sg.Nested == rk {
						uses = true
					}
				}
				for _, l := range x.leaves {
					if l.Kind == "wire" && l.RootKey == rk {
						// attribute to the record whose bit rows came from this function: approximate by function membership
						for _, fnm := range t.Funcs {
							if fnm == c.FuncName(fn) && recordUsesRoot(t, x, rk) {
								uses = true
							}
						}
					}
				}
				if !uses {
					continue
				}
				ci := cursorInfo{Root: rk}
				for i, e := range p.Edges {
					isBack := false
					for _, bk := range li.backs {
						if li.header.Preds[i] == bk {
							isBack = true
						}
					}
					root, lo, hi, open := f.relSpan(e)
					if isBack {
						if root == ssa.Value(p) {
							facts := f.FactsAt(li.header.Preds[i])
							ci.Step = c.symOffset(f, x, f.pin(lo, facts))
						} else {
							ci.Step = "?"
						}
						continue
					}
					ci.Parent = x.rootKey(root)
					ci.InitLo = c.symOffset(f, x, lo)
					ci.InitHi = c.symOffset(f, x, hi)
					if open {
						ci.InitHi = "end"
					}
				}
				dup := false
				for _, o := range st.Dec[rec].Cursors {
					if o == ci {
						dup = true
					}
				}
				if !dup {
					st.Dec[rec].Cursors = append(st.Dec[rec].Cursors, ci)
				}
			}
		}
	}
}

// recordUsesRoot: some bit row of t stems from a wire leaf rooted at rk. Rows do not keep their
// leaf, so the leaf set of the function is consulted: a record uses a root if the function decodes
// the record and the root's leaves have constant offsets matching some row.
func recordUsesRoot(t *recTable, x *bvCtx, rk string) bool {
	for _, l := range x.leaves {
		if l.Kind != "wire" || l.RootKey != rk || !l.Off.isConst() {
			continue
		}
		for _, r := range t.Bits {
			if r.Root == rk && r.W.Off >= l.Off.C && r.W.Off < l.Off.C+int64(l.Octets) {
				return true
			}
		}
	}
	return false
}

func appendUniq(a []string, ss ...string) []string {
	for _, s := range ss {
		found := false
		for _, x := range a {
			if x == s {
				found = true
			}
		}
		if !found {
			a = append(a, s)
		}
	}
	return a
}

func (c *Ctx) decodeStore(f *FA, x *bvCtx, t *recTable, fk string, val ssa.Value, cond, pos string, fn *ssa.Function) {
	if _, isInt := typeBits(val.Type()); isInt {
		bv := x.Eval(val)
		c.addDecodeBits(f, x, t, fk, bv, cond, pos)
		return
	}
	switch v := val.(type) {
	case *ssa.Call:
		if ap := isAppendCall(v); ap != nil {
			src := ap.Call.Args[1]
			// element append through a varargs array: container nesting or integer element
			if sl, ok := src.(*ssa.Slice); ok {
				if al, ok := sl.X.(*ssa.Alloc); ok {
					if _, isArr := al.Type().(*types.Pointer).Elem().Underlying().(*types.Array); isArr {
						for _, ref := range *al.Referrers() {
							ia, ok := ref.(*ssa.IndexAddr)
							if !ok {
								continue
							}
							for _, r2 := range *ia.Referrers() {
								es, ok := r2.(*ssa.Store)
								if !ok {
									continue
								}
								if _, isInt := typeBits(es.Val.Type()); isInt {
									bv := x.Eval(es.Val)
									t.Elems = appendUniq(t.Elems, fmt.Sprintf("%s[] <- %s [%s]", fk, x.Describe(bv), cond))
									c.addDecodeElem(f, x, t, fk, bv, cond, pos)
								} else {
									t.Segs = append(t.Segs, segRow{Field: fk, Nested: typeKey(es.Val.Type()), Cond: cond, Pos: pos, Lo: "list", Hi: "list"})
								}
							}
						}
						return
					}
				}
			}
			if isByteSlice(src.Type()) {
				// append(field, φ(nil, octets)...): appending nil appends nothing, so the one alternative that
				// is not nil is what is appended, under the condition of its edge
				if ph, isPhi := src.(*ssa.Phi); isPhi {
					var real []valAlt
					alts := phiAlternatives(ph, ph.Block(), 0)
					for _, a := range alts {
						if !isNilConst(a.val) {
							real = append(real, a)
						}
					}
					if len(alts) > 1 && len(real) == 1 {
						src = real[0].val
						if ac := c.altCond(f, x, real[0]); ac != "" && !strings.Contains(cond, ac) {
							if cond == "" {
								cond = ac
							} else {
								cond = cleanConds(append(strings.Split(cond, " && "), strings.Split(ac, " && ")...))
							}
						}
					}
				}
				root, lo, hi, open := f.relSpan(src)
				_, isParamOrPhi := root.(*ssa.Parameter)
				if _, isPhi := root.(*ssa.Phi); isPhi {
					isParamOrPhi = true
				}
				if rs, isSlice := root.(*ssa.Slice); isSlice && isOffsetCursor(rs) {
					isParamOrPhi = true // the element at an integer offset that walks the input
				}
				if !isParamOrPhi {
					t.addUnresolved(fmt.Sprintf("%s: copied from %s which is not the input cursor (%s)", fk, root.Name(), pos))
					return
				}
				facts := f.FactsAt(ap.Block())
				lo, hi = f.pin(lo, facts), f.pin(hi, facts)
				hi = f.lengthSpelledEnd(lo, hi, facts)
				seg := segRow{Field: fk, LoLF: lo, HiLF: hi, Open: open, Cond: cond, Pos: pos, Lo: c.symOffset(f, x, lo), Hi: c.symOffset(f, x, hi)}
				if open {
					seg.Hi = "end"
				}
				seg.Nested = x.rootKey(root)
				t.Segs = append(t.Segs, seg)
				return
			}
		}
	case *ssa.Slice:
		if isByteSlice(v.Type()) {
			root, lo, hi, open := f.relSpan(v)
			facts := f.FactsAt(v.Block())
			lo, hi = f.pin(lo, facts), f.pin(hi, facts)
			seg := segRow{Field: fk, LoLF: lo, HiLF: hi, Open: open, Cond: cond, Pos: pos, Lo: c.symOffset(f, x, lo), Hi: c.symOffset(f, x, hi), Alias: true}
			if open {
				seg.Hi = "end"
			}
			seg.Nested = x.rootKey(root)
			t.Segs = append(t.Segs, seg)
			return
		}
	case *ssa.MakeSlice:
		// field = make([]byte, n); copy(field, <octets of the input>): the copy an append would have made, when
		// the buffer is exactly as long as what is copied in
		if isByteSlice(v.Type()) {
			var cp *ssa.Call
			n := 0
			for _, b := range fn.Blocks {
				for _, ins := range b.Instrs {
					call, ok := ins.(*ssa.Call)
					if !ok {
						continue
					}
					if bi, ok := call.Call.Value.(*ssa.Builtin); !ok || bi.Name() != "copy" {
						continue
					}
					dst := call.Call.Args[0]
					same := dst == ssa.Value(v)
					if !same {
						if k, isF := fieldKeyOfLoad(dst); isF && k == fk && dominatesInstr(v, call) {
							// a reload of the field the buffer was stored into, same object
							if u, ok := dst.(*ssa.UnOp); ok {
								if fa, ok := u.X.(*ssa.FieldAddr); ok {
									for _, ref := range *v.Referrers() {
										if st, ok := ref.(*ssa.Store); ok && st.Val == ssa.Value(v) {
											if sa, ok := st.Addr.(*ssa.FieldAddr); ok && sa.X == fa.X && sa.Field == fa.Field {
												same = true
											}
										}
									}
								}
							}
						}
					}
					if same {
						cp = call
						n++
					}
				}
			}
			if n == 1 && isByteSlice(cp.Call.Args[1].Type()) {
				src := cp.Call.Args[1]
				root, lo, hi, open := f.relSpan(src)
				_, isParamOrPhi := root.(*ssa.Parameter)
				if _, isPhi := root.(*ssa.Phi); isPhi {
					isParamOrPhi = true
				}
				if rs, isSlice := root.(*ssa.Slice); isSlice && isOffsetCursor(rs) {
					isParamOrPhi = true
				}
				if isParamOrPhi && f.LFOf(v.Len).key() == f.SliceLen(src).key() {
					facts := f.FactsAt(cp.Block())
					lo, hi = f.pin(lo, facts), f.pin(hi, facts)
					hi = f.lengthSpelledEnd(lo, hi, facts)
					seg := segRow{Field: fk, LoLF: lo, HiLF: hi, Open: open, Cond: cond, Pos: pos, Lo: c.symOffset(f, x, lo), Hi: c.symOffset(f, x, hi)}
					if open {
						seg.Hi = "end"
					}
					seg.Nested = x.rootKey(root)
					t.Segs = append(t.Segs, seg)
					return
				}
			}
		}
		// stream style (EAP-AKA'): handled by the token engine
		return
	case *ssa.Const:
		return
	case *ssa.Phi:
		// a byte string selected by a merge (the result of an inlined helper with several returns): one
		// conditional row per alternative; the alternative "what the field held before" stores nothing new
		if isByteSlice(v.Type()) {
			alts := phiAlternatives(v, v.Block(), 0)
			if len(alts) > 1 {
				for _, a := range alts {
					if k, isF := fieldKeyOfLoad(a.val); isF && strings.TrimPrefix(k, "field:") == fk {
						continue
					}
					if isNilConst(a.val) {
						continue
					}
					acond := c.altCond(f, x, a)
					if cond != "" && !strings.Contains(acond, cond) {
						if acond == "" {
							acond = cond
						} else {
							acond = cleanConds(append(strings.Split(acond, " && "), strings.Split(cond, " && ")...))
						}
					}
					c.decodeStore(f, x, t, fk, a.val, acond, pos, fn)
				}
				return
			}
		}
	}
	if !pointerLike(val.Type()) {
		t.addUnresolved(fmt.Sprintf("%s: stored value %s not understood (%s)", fk, val.Name(), pos))
		return
	}
	// nested record decoded through dynamic dispatch: val.Unmarshal(<octets of the input>) and val kept in the field
	for _, b := range fn.Blocks {
		if f.Dead[b] {
			continue
		}
		for _, ins := range b.Instrs {
			call, ok := ins.(*ssa.Call)
			if !ok || !call.Call.IsInvoke() || call.Call.Value != val || len(call.Call.Args) != 1 || !isByteSlice(call.Call.Args[0].Type()) {
				continue
			}
			if !c.isDecodeMethodName(call.Call.Method.Name()) {
				continue
			}
			root, lo, hi, open := f.relSpan(call.Call.Args[0])
			facts := f.FactsAt(b)
			lo, hi = f.pin(lo, facts), f.pin(hi, facts)
			ccond := c.variantCond(f, x, b)
			if cond != "" && ccond != "" && cond != ccond {
				ccond = ccond + " && " + cond
			} else if ccond == "" {
				ccond = cond
			}
			seg := segRow{Field: "call:" + fk, LoLF: lo, HiLF: hi, Open: open, Cond: ccond, Pos: c.InstrPos(call), Lo: c.symOffset(f, x, lo), Hi: c.symOffset(f, x, hi)}
			if open {
				seg.Hi = "end"
			}
			seg.Nested = x.rootKey(root)
			t.Segs = append(t.Segs, seg)
		}
	}
}

// isDecodeMethodName: the module's codec interfaces name their decoding method Unmarshal.
func (c *Ctx) isDecodeMethodName(n string) bool { return n == "Unmarshal" || n == "unmarshal" }

// pin substitutes atoms whose value is fixed by the facts.
// lengthSpelledEnd: a segment [lo : E] whose end E is a single quantity (the record's own length) while a
// dominating equality says E = lo + n for another quantity n (the value's length field, checked against the
// record length) is the segment [lo : lo + n]: the end is spelled by the length, the form encoders and the
// reference tables use.
func (f *FA) lengthSpelledEnd(lo, hi LF, facts []Fact) LF {
	if !lo.isConst() || hi.C != 0 || len(hi.T) != 1 {
		return hi
	}
	var e int
	for a, k := range hi.T {
		if k != 1 {
			return hi
		}
		e = a
	}
	for i, p := range facts {
		if p.NE {
			continue
		}
		for j, q := range facts {
			if i == j || q.NE || q.L.key() != p.L.scale(-1).key() {
				continue
			}
			// p.L == 0: solve for e
			k, has := p.L.T[e]
			if !has || (k != 1 && k != -1) {
				continue
			}
			rest := LF{C: p.L.C, T: map[int]int64{}}
			for a, v := range p.L.T {
				if a != e {
					rest.T[a] = v
				}
			}
			sol := rest.scale(-k) // e = -rest/k
			if sol.C == lo.C && len(sol.T) == 1 {
				for _, v := range sol.T {
					if v == 1 {
						return sol
					}
				}
			}
		}
	}
	return hi
}

func (f *FA) pin(l LF, facts []Fact) LF {
	e := f.refine(facts)
	out := konst(l.C)
	for a, k := range l.T {
		lo, hi := f.atomBounds(a, e)
		if lo == hi {
			out = out.add(konst(lo), k)
		} else {
			out = out.add(LF{T: map[int]int64{a: 1}}, k)
		}
	}
	return out
}

// symOffset renders an offset LF in a side-independent vocabulary: constants, wire leaves
// ("wire(root @o wN)") on the decode side and len(Struct.Field) on the encode side.
func (c *Ctx) symOffset(f *FA, x *bvCtx, l LF) string {
	if l.isConst() {
		return fmt.Sprint(l.C)
	}
	type term struct {
		k int64
		s string
	}
	var ts []term
	for a, k := range l.T {
		ts = append(ts, term{k, c.atomSym(f, x, a)})
	}
	sort.Slice(ts, func(i, j int) bool { return ts[i].s < ts[j].s })
	s := fmt.Sprint(l.C)
	for _, t := range ts {
		s += fmt.Sprintf(" %+d*%s", t.k, t.s)
	}
	return s
}

func (c *Ctx) atomSym(f *FA, x *bvCtx, a int) string {
	if v := f.atomDef(a); v != nil {
		// widening conversions keep the atom of their operand; look through
		if id, ok := x.wireLeafOf(v); ok {
			return x.leaves[id].Key
		}
		if id, ok := x.wireGroupOf(v); ok {
			return x.leaves[id].Key
		}
		if call, ok := v.(*ssa.Call); ok {
			if bi, ok := call.Call.Value.(*ssa.Builtin); ok && bi.Name() == "len" {
				if fk, ok := fieldKeyOfLoad(call.Call.Args[0]); ok {
					return "len(" + fk + ")"
				}
			}
		}
		if fk, ok := fieldKeyOfLoad(v); ok {
			return fk
		}
	}
	name := f.atoms[a].name
	if strings.HasPrefix(name, "len(load(") {
		// len of a field load class: recover the field
		if fk := f.fieldOfLenAtom(a); fk != "" {
			return "len(" + fk + ")"
		}
	}
	return name
}

func (c *Ctx) addDecodeBits(f *FA, x *bvCtx, t *recTable, fk string, bv BV, cond, pos string) {
	for j, b := range bv {
		switch b.K {
		case bRef:
			l := x.leaves[b.Leaf]
			if l.Kind != "wire" {
				// derived from something else (e.g. a comparison): not a wire slot
				if l.Kind == "cmp" || l.Kind == "field" {
					continue
				}
				t.addUnresolved(fmt.Sprintf("%s bit %d <- %s (%s)", fk, j, l.Key, pos))
				continue
			}
			if !l.Off.isConst() {
				t.addUnresolved(fmt.Sprintf("%s bit %d <- %s at a variable offset (%s)", fk, j, l.Key, pos))
				continue
			}
			t.Bits = append(t.Bits, bitRow{Field: fk, FBit: j, W: beBit(l.Off.C, l.Octets, b.Idx), Cond: cond, Root: l.RootKey})
		case bTop:
			t.addUnresolved(fmt.Sprintf("%s bit %d has unknown provenance (%s)", fk, j, pos))
		}
	}
}

// addDecodeElem records an array element read at a loop-dependent offset: rows of the element
// record "<Record>[]" relative to the element start, plus a cursor describing start and stride.
func (c *Ctx) addDecodeElem(f *FA, x *bvCtx, t *recTable, fk string, bv BV, cond, pos string) {
	et := c.curTables.table("decode", t.Record+"[]")
	et.Funcs = appendUniq(et.Funcs, t.Funcs...)
	var listStart int64
	haveListStart := false
	base := int64(1) << 40
	for _, b := range bv {
		if b.K == bRef {
			if l := x.leaves[b.Leaf]; l.Kind == "wire" && l.Off.C < base {
				base = l.Off.C
			}
		}
	}
	for j, b := range bv {
		switch b.K {
		case bTop:
			et.addUnresolved(fmt.Sprintf("%s element bit %d has unknown provenance (%s)", fk, j, pos))
		case bRef:
			l := x.leaves[b.Leaf]
			if l.Kind != "wire" {
				et.addUnresolved(fmt.Sprintf("%s element bit %d <- %s (%s)", fk, j, l.Key, pos))
				continue
			}
			et.Bits = append(et.Bits, bitRow{Field: fk + "[]", FBit: j, W: beBit(l.Off.C-base, l.Octets, b.Idx), Cond: cond, Root: l.RootKey + "[]"})
			// stride: coefficient of the induction variable times its step
			stride := "?"
			if len(l.Off.T) == 1 {
				for a, k := range l.Off.T {
					if phi, ok := f.atomDef(a).(*ssa.Phi); ok {
						for _, e := range phi.Edges {
							if bo, ok := e.(*ssa.BinOp); ok && bo.Op == token.ADD && bo.X == ssa.Value(phi) {
								if kc, ok := bo.Y.(*ssa.Const); ok {
									if st, ok := constInt64(kc.Value); ok {
										stride = fmt.Sprint(k * st)
									}
								}
							}
						}
					}
				}
			}
			initLo := fmt.Sprint(base)
			parent := l.RootKey
			// cursor form: the elements are read at the head of a loop-carried slice that is re-sliced by the
			// stride (`for s := b[4:]; len(s) >= 4; s = s[4:]`): start and stride come from the cursor's edges
			if ph, ok := l.Root.(*ssa.Phi); ok && isByteSlice(ph.Type()) {
				for i, e := range ph.Edges {
					root, lo, _, _ := f.relSpan(e)
					if root == ssa.Value(ph) {
						if lo.isConst() {
							stride = fmt.Sprint(lo.C)
						}
						continue
					}
					if _, isParam := root.(*ssa.Parameter); isParam {
						plo := f.pin(lo, f.FactsAt(ph.Block().Preds[i]))
						if plo.isConst() {
							initLo = fmt.Sprint(plo.C + base)
							parent = x.rootKey(root)
							listStart = plo.C + base
							haveListStart = true
						}
					}
				}
			}
			ci := cursorInfo{Root: l.RootKey + "[]", Parent: parent, InitLo: initLo, InitHi: "end", Step: stride}
			dup := false
			for _, o := range et.Cursors {
				if o == ci {
					dup = true
				}
			}
			if !dup {
				et.Cursors = append(et.Cursors, ci)
			}
		}
	}
	if haveListStart {
		base = listStart
	}
	t.Segs = append(t.Segs, segRow{Field: "", Nested: "list<" + t.Record + "[]>", Lo: fmt.Sprint(base), Hi: "end", Open: true, Cond: cond, Pos: pos})
}

// mayBeNilValue: v is the nil constant or a φ one of whose edges may be nil.
func mayBeNilValue(v ssa.Value, depth int) bool {
	if depth > 6 {
		return true
	}
	switch x := v.(type) {
	case *ssa.Const:
		return x.Value == nil
	case *ssa.Phi:
		for _, e := range x.Edges {
			if e != ssa.Value(x) && mayBeNilValue(e, depth+1) {
				return true
			}
		}
	}
	return false
}
