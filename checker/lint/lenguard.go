package lint

import (
	"fmt"
	"sort"

	"ikeverif/checker/xt/ssa"
)

// Length guards of the decoders against the shortest encoding on the domain.
//
// A decoder that tests how many octets are left against a constant and fails otherwise must not refuse an
// encoding of the encodable domain: the smallest remaining length the guard lets through may not exceed the
// length of the shortest in-domain encoding of the record read at that cursor (spec/wire_layout.json,
// "min_octets": the record's fixed part plus whatever the domain requires at least - one data octet for
// KE/ID/AUTH/CERT/CERTREQ, one attribute for CP, one selector for TS, one transform per proposal; a payload
// body may be empty, so the generic header's record is 4 octets). The inclusion rules (R/W tables) do not see
// such a guard: `len(b) <= 4` in front of the chain walker's header reads refuses a last payload without body,
// while every octet that is read is still read from the right place.
//
// Recognised guards: an If with one edge into a failure exit whose condition, on the other edge, is the single
// fact  len(root) - K >= 0  (root a decoder input: the []byte parameter, a loop-carried cursor slice, the element
// at an offset cursor) or  len(param) - offset - K >= 0  (offset a loop-carried integer). The record is the one
// the decode tables attribute to that root in that function; in the chain walker it is the generic header.
func (w *slotWorld) lengthGuardRule(r *Report, rule string) { w.lengthGuardRuleIn(r, rule, nil, 15) }

// lengthGuardRuleIn restricts the rule to one function (the chain walker, for C13) when only != nil.
func (w *slotWorld) lengthGuardRuleIn(r *Report, rule string, only *ssa.Function, floor int) {
	r.Rule(rule, "a decoder's constant test of the remaining input length lets the shortest in-domain encoding of the record pass (min_octets of the reference layout)", floor)
	c := w.c
	dec, _, _ := c.codecFuncs()
	walker := c.Method("message", "IKEPayloadContainer", "Decode")
	seenFn := map[*ssa.Function]bool{}
	for _, fn := range c.Reachable(dec...) {
		if seenFn[fn] || fn.Blocks == nil || (only != nil && fn != only) {
			continue
		}
		seenFn[fn] = true
		// only the first test at a cursor is compared with the record's minimum: a later, stricter one (40 octets
		// once the selector is known to be of the IPv6 kind) is conditional on what was read in between
		firstAt := map[string]*ssa.BasicBlock{}
		fname := c.FuncName(fn)
		f := c.NewFA(fn)
		x := newBVCtx(c, f)
		recordOf := func(rk string) []string {
			var out []string
			for rec, t := range w.st.Dec {
				for _, b := range t.Bits {
					if b.Root == rk && b.Fn == fname {
						out = append(out, rec)
						break
					}
				}
			}
			sort.Strings(out)
			return out
		}
		for _, b := range fn.DomPreorder() {
			if f.Dead[b] {
				continue
			}
			iff, ok := b.Instrs[len(b.Instrs)-1].(*ssa.If)
			if !ok || b.Succs[0] == b.Succs[1] {
				continue
			}
			for i := 0; i < 2; i++ {
				fail, cont := b.Succs[1-i], b.Succs[i]
				if !c.isFailureExitBlock(fail) || c.isFailureExitBlock(cont) {
					continue
				}
				var fs []Fact
				f.condFacts(iff.Cond, i == 0, &fs)
				if len(fs) != 1 || fs[0].NE {
					continue
				}
				L := fs[0].L
				var rootKey, cursorKey string
				okShape := true
				nLen := 0
				for a, k := range L.T {
					if v := f.atoms[a].lenOf; v != nil && k == 1 && isByteSlice(v.Type()) {
						root, lo, _, _ := f.relSpan(v)
						if root != v || !lo.isConst() || lo.C != 0 {
							okShape = false
							break
						}
						switch rv := root.(type) {
						case *ssa.Parameter, *ssa.Phi:
						case *ssa.Slice:
							if !isOffsetCursor(rv) {
								okShape = false
							}
						default:
							okShape = false
						}
						rootKey = x.rootKey(root)
						nLen++
						continue
					}
					// len(param) - offset: the remaining length at an integer offset cursor
					if ph, isPhi := f.atomDef(a).(*ssa.Phi); isPhi && k == -1 && isIntType(ph.Type()) && isLoopHeaderBlock(ph.Block()) {
						cursorKey = "cursor:" + ph.Comment
						continue
					}
					okShape = false
				}
				if cursorKey != "" {
					rootKey = cursorKey
				}
				if !okShape || nLen != 1 || rootKey == "" {
					continue
				}
				if first, seen := firstAt[rootKey]; seen && first != b && first.Dominates(b) {
					continue
				}
				if _, seen := firstAt[rootKey]; !seen {
					firstAt[rootKey] = b
				}
				m := -L.C // the smallest remaining length that passes
				recs := recordOf(rootKey)
				if fn == walker && len(recs) == 0 {
					recs = []string{"message.GenericPayload"}
				}
				what := "length test"
				if cv, isIns := iff.Cond.(ssa.Instruction); isIns {
					what = c.SrcExpr(cv)
				}
				key := fmt.Sprintf("%s: %s", fname, what)
				pos := c.InstrPos(iff)
				checked := false
				for _, rec := range recs {
					spec := w.ws.Records[rec]
					if spec == nil || spec.MinOctets == nil {
						continue
					}
					checked = true
					if m > *spec.MinOctets {
						r.bad(rule, key+" ["+rec+"]", pos, fmt.Sprintf("the decoder refuses an input with fewer than %d octets left at %s, but the shortest encoding of %s on the domain has %d (%s): an in-domain message is rejected", m, rootKey, rec, *spec.MinOctets, spec.Source))
					} else {
						r.ok(rule, key+" ["+rec+"]", pos, fmt.Sprintf("at least %d octets required at %s; the shortest in-domain encoding of %s has %d", m, rootKey, rec, *spec.MinOctets), true)
					}
				}
				_ = checked
			}
		}
	}
}

func isLoopHeaderBlock(b *ssa.BasicBlock) bool {
	for _, p := range b.Preds {
		if b.Dominates(p) {
			return true
		}
	}
	return false
}

// isFailureExitBlock: the block (possibly through plain jumps) ends in a return of a non-nil error.
func (c *Ctx) isFailureExitBlock(b *ssa.BasicBlock) bool {
	for hops := 0; hops < 3 && b != nil; hops++ {
		last := b.Instrs[len(b.Instrs)-1]
		switch t := last.(type) {
		case *ssa.Return:
			ok, _ := c.isErrorReturn(t, nil)
			return ok
		case *ssa.Jump:
			// only blocks that do nothing but build the error
			b = b.Succs[0]
			continue
		}
		return false
	}
	return false
}
