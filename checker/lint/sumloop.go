package lint

import (
	"fmt"
	"go/token"
	"regexp"
	"sort"
	"strings"

	"ikeverif/checker/xt/ssa"
)

// Two-pass encoders: a first loop over a list adds up the octets each element will take, the buffer is made
// with that total, and a second loop over the same list fills it at a cursor that advances by the same amount
// per element:
//
//	total := c; for i := 0; i < len(L); i++ { total += s(L[i]) }
//	buf := make([]byte, total)
//	off := c;   for i := 0; i < len(L); i++ { ...; off += 4 + copy(buf[off+4:], L[i].Value) }
//
// By induction off_i + Σ_{j>=i} s(L[j]) = total, so at iteration i at least s(L[i]) octets are left behind the
// cursor and a copy of at most s(L[i]) - d octets to buf[off+d:] is complete: its result is len(src). fullCopies
// lists the copy calls for which that argument goes through; E1 then reads their result as len(src).
//
// Conditions checked: both loops count i from 0 by 1 up to len of the same list value; each has one step on all
// its back edges; the first loop reaches the make only through its header's exit (no break); both accumulators
// start at the same constant; the steps are the same linear form over the element's fields once the counters
// are identified and every copy result in the second step is read as len(src); the steps are non-negative; the
// function stores into nothing but byte buffers of its own (so the list is the same in both passes).
func (c *Ctx) fullCopies(fn *ssa.Function) map[*ssa.Call]bool {
	if c.fullCopyMemo == nil {
		c.fullCopyMemo = map[*ssa.Function]map[*ssa.Call]bool{}
	}
	if r, ok := c.fullCopyMemo[fn]; ok {
		return r
	}
	c.fullCopyMemo[fn] = nil // while computing: no copy is known to be complete
	res := c.fullCopies0(fn)
	c.fullCopyMemo[fn] = res
	return res
}

func usedCopyCalls(fn *ssa.Function) []*ssa.Call {
	var out []*ssa.Call
	for _, b := range fn.Blocks {
		for _, ins := range b.Instrs {
			call, ok := ins.(*ssa.Call)
			if !ok {
				continue
			}
			if bi, ok := call.Call.Value.(*ssa.Builtin); !ok || bi.Name() != "copy" {
				continue
			}
			if refs := call.Referrers(); refs != nil && len(*refs) > 0 {
				out = append(out, call)
			}
		}
	}
	return out
}

type sumLoop struct {
	li      *loopInfo
	counter ssa.Value
	list    string // canonical name of the list whose length bounds the counter
	acc     *ssa.Phi
	init    int64
	step    LF
}

func (c *Ctx) fullCopies0(fn *ssa.Function) map[*ssa.Call]bool {
	copies := usedCopyCalls(fn)
	if len(copies) == 0 {
		return nil
	}
	// the function writes memory only through byte buffers it made (and the varargs arrays of error messages)
	for _, b := range fn.Blocks {
		for _, ins := range b.Instrs {
			if call, isCall := ins.(*ssa.Call); isCall {
				if _, isBuiltin := call.Call.Value.(*ssa.Builtin); isBuiltin {
					continue
				}
				callee := call.Call.StaticCallee()
				if callee == nil || callee.Pkg == nil {
					return nil
				}
				switch callee.Pkg.Pkg.Path() {
				case "encoding/binary", "github.com/pkg/errors", "errors", "fmt":
				default:
					return nil // a call that might change the list between the passes
				}
				continue
			}
			st, ok := ins.(*ssa.Store)
			if !ok {
				continue
			}
			root := st.Addr
			for {
				switch a := root.(type) {
				case *ssa.IndexAddr:
					root = a.X
					continue
				case *ssa.FieldAddr:
					root = a.X
					continue
				case *ssa.Slice:
					root = a.X
					continue
				}
				break
			}
			switch root.(type) {
			case *ssa.Alloc, *ssa.MakeSlice:
			default:
				return nil
			}
		}
	}
	f := c.NewFA(fn)
	loops := naturalLoops(fn)
	var cands []sumLoop
	for _, li := range loops {
		cands = append(cands, c.sumLoopsOf(f, li)...)
	}
	if len(cands) < 2 {
		return nil
	}
	out := map[*ssa.Call]bool{}
	for _, call := range copies {
		// dst = buf[lo:] with buf = make([]byte, T)
		sl, ok := call.Call.Args[0].(*ssa.Slice)
		if !ok || sl.High != nil || sl.Low == nil {
			continue
		}
		mk, ok := sl.X.(*ssa.MakeSlice)
		if !ok {
			continue
		}
		for _, B := range cands {
			if !B.li.body[call.Block()] {
				continue
			}
			for _, A := range cands {
				if A.li == B.li || ssa.Value(A.acc) != mk.Len || A.list != B.list || A.init != B.init {
					continue
				}
				if !c.exitsOnlyThroughHeader(A.li, mk.Block()) || !A.li.header.Dominates(mk.Block()) || !mk.Block().Dominates(B.li.header) {
					continue
				}
				// the second step with every copy result read as len(src)
				stepB := B.step
				okB := true
				for a, k := range stepB.T {
					def, isCall := f.atomDef(a).(*ssa.Call)
					if !isCall {
						continue
					}
					if bi, ok := def.Call.Value.(*ssa.Builtin); !ok || bi.Name() != "copy" {
						continue
					}
					if def != call {
						okB = false // more than one incomplete-copy unknown: not handled
						break
					}
					stepB = stepB.add(LF{T: map[int]int64{a: 1}}, -k).add(f.SliceLen(def.Call.Args[1]), k)
				}
				if !okB {
					continue
				}
				if lo, _ := f.bounds(A.step, nil); lo < 0 {
					continue
				}
				if canonStep(f, A.step, A.counter) != canonStep(f, stepB, B.counter) {
					continue
				}
				// the copy starts d octets behind the cursor and copies at most step - d octets
				d := f.unwrapOffset(f.LFOf(sl.Low)).add(f.LFOf(B.acc), -1)
				if !d.isConst() || d.C < 0 {
					continue
				}
				room := stepB.add(konst(d.C), -1).add(f.SliceLen(call.Call.Args[1]), -1)
				if lo, _ := f.bounds(room, nil); lo < 0 {
					continue
				}
				out[call] = true
			}
		}
	}
	if len(out) == 0 {
		return nil
	}
	return out
}

var atomNameTok = regexp.MustCompile(`[A-Za-z_][A-Za-z0-9_]*`)

// canonStep renders a step with the loop counter's name replaced, terms ordered by name.
func canonStep(f *FA, l LF, counter ssa.Value) string {
	var terms []string
	for a, k := range l.T {
		name := atomNameTok.ReplaceAllStringFunc(f.atoms[a].name, func(tok string) string {
			if tok == counter.Name() {
				return "$i"
			}
			return tok
		})
		terms = append(terms, fmt.Sprintf("%+d*%s", k, name))
	}
	sort.Strings(terms)
	return fmt.Sprintf("%d %s", l.C, strings.Join(terms, " "))
}

// sumLoopsOf: the accumulators of a counting loop `for i := 0; i < len(L); i++`.
func (c *Ctx) sumLoopsOf(f *FA, li *loopInfo) []sumLoop {
	h := li.header
	iff, ok := h.Instrs[len(h.Instrs)-1].(*ssa.If)
	if !ok {
		return nil
	}
	cmp, ok := iff.Cond.(*ssa.BinOp)
	if !ok || cmp.Op != token.LSS || !li.body[h.Succs[0]] || li.body[h.Succs[1]] {
		return nil
	}
	// the counter: an index φ 0, +1 tested as i < len(L), or the range form (φ from -1, t = φ + 1 tested and used)
	var counter ssa.Value
	var cphi *ssa.Phi
	rangeForm := false
	switch cx := cmp.X.(type) {
	case *ssa.Phi:
		counter, cphi = cx, cx
	case *ssa.BinOp:
		ph, isPhi := cx.X.(*ssa.Phi)
		one, isK := cx.Y.(*ssa.Const)
		if cx.Op != token.ADD || !isPhi || !isK || one.Int64() != 1 || cx.Block() != h {
			return nil
		}
		counter, cphi, rangeForm = cx, ph, true
	default:
		return nil
	}
	if cphi.Block() != h {
		return nil
	}
	lenCall, ok := cmp.Y.(*ssa.Call)
	if !ok {
		return nil
	}
	if bi, ok := lenCall.Call.Value.(*ssa.Builtin); !ok || bi.Name() != "len" {
		return nil
	}
	if yi, isIns := lenCall.Call.Args[0].(ssa.Instruction); isIns && yi.Block() != nil && li.body[yi.Block()] {
		return nil
	}
	list := f.canon(lenCall.Call.Args[0])
	for i, ed := range cphi.Edges {
		if li.body[h.Preds[i]] {
			if rangeForm {
				if ed != counter {
					return nil
				}
				continue
			}
			bo, ok := ed.(*ssa.BinOp)
			if !ok || bo.Op != token.ADD || bo.X != ssa.Value(cphi) {
				return nil
			}
			if k, ok := bo.Y.(*ssa.Const); !ok || k.Int64() != 1 {
				return nil
			}
			continue
		}
		want := int64(0)
		if rangeForm {
			want = -1
		}
		if k, ok := ed.(*ssa.Const); !ok || k.Int64() != want {
			return nil
		}
	}
	var out []sumLoop
	for _, ins := range h.Instrs {
		acc, ok := ins.(*ssa.Phi)
		if !ok {
			break
		}
		if acc == cphi {
			continue
		}
		if _, _, isInt := f.typeRange(acc.Type()); !isInt {
			continue
		}
		var init *int64
		var step LF
		have, good := false, true
		for i, ed := range acc.Edges {
			if li.body[h.Preds[i]] {
				d := f.unwrapOffset(f.LFOf(ed)).add(f.LFOf(acc), -1)
				for a := range d.T {
					if f.atomDef(a) == ssa.Value(acc) {
						good = false
					}
				}
				if have && d.key() != step.key() {
					good = false
				}
				step, have = d, true
				continue
			}
			k, ok := ed.(*ssa.Const)
			if !ok || (init != nil && *init != k.Int64()) {
				good = false
				continue
			}
			v := k.Int64()
			init = &v
		}
		if !good || !have || init == nil {
			continue
		}
		out = append(out, sumLoop{li: li, counter: counter, list: list, acc: acc, init: *init, step: step})
	}
	return out
}

// exitsOnlyThroughHeader: every edge leaving the loop from a block other than its header leads to code from
// which target cannot be reached (an error return), so that target is reached only after the last iteration.
func (c *Ctx) exitsOnlyThroughHeader(li *loopInfo, target *ssa.BasicBlock) bool {
	for b := range li.body {
		if b == li.header {
			continue
		}
		for _, s := range b.Succs {
			if li.body[s] {
				continue
			}
			if s == target || blockReaches(s, target) {
				return false
			}
		}
	}
	return true
}
