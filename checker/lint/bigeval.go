package lint

import (
	"go/constant"
	"math/big"
	"strings"

	"ikeverif/checker/xt/ssa"
)

// evalBig evaluates, by constant propagation over math/big objects, the number a *big.Int operand holds at
// instruction `at` of fn: objects made by new(big.Int) / big.NewInt(k) and written only by SetString(const, base),
// SetInt64 / SetUint64(const), Lsh(x, const), Sub, Add and Mul of such objects, every write dominating the use;
// a package-level *big.Int is followed to its single store in an init function. (The checker computes with the
// constants of the analysed source; no function of the repository is run.)
func (c *Ctx) evalBig(fn *ssa.Function, v ssa.Value, at ssa.Instruction, depth int) (*big.Int, bool) {
	if depth > 8 {
		return nil, false
	}
	// the object v points to
	obj := func(v ssa.Value) ssa.Value {
		for i := 0; i < 8; i++ {
			switch x := v.(type) {
			case *ssa.Extract:
				if call, ok := x.Tuple.(*ssa.Call); ok && x.Index == 0 && isBigMethod(call) && len(call.Call.Args) > 0 {
					v = call.Call.Args[0]
					continue
				}
				return nil
			case *ssa.Call:
				if staticCallTo(x, "math/big.NewInt") != nil {
					return x
				}
				if isBigMethod(x) && len(x.Call.Args) > 0 && x.Call.Signature().Results().Len() == 1 {
					v = x.Call.Args[0]
					continue
				}
				return nil
			case *ssa.Alloc:
				return x
			case *ssa.Global:
				return x
			case *ssa.UnOp:
				if g, ok := x.X.(*ssa.Global); ok {
					return g
				}
				return nil
			default:
				return nil
			}
		}
		return nil
	}
	o := obj(v)
	if o == nil {
		return nil, false
	}
	// a package-level pointer variable: its single store, in an init function
	if g, ok := o.(*ssa.Global); ok {
		if _, isLoad := v.(*ssa.UnOp); isLoad {
			var st *ssa.Store
			var in *ssa.Function
			n := 0
			for _, f2 := range c.ModFuncs {
				for _, b := range f2.Blocks {
					for _, ins := range b.Instrs {
						if s, ok := ins.(*ssa.Store); ok && s.Addr == ssa.Value(g) {
							st, in = s, f2
							n++
						}
					}
				}
			}
			if n != 1 || !isInitFunc(in) {
				return nil, false
			}
			return c.evalBig(in, st.Val, st, depth+1)
		}
		// a package-level big.Int value: written by method calls with the global as receiver, in init only
		fn, at = nil, nil
		for _, f2 := range c.ModFuncs {
			if !isInitFunc(f2) {
				continue
			}
			for _, b := range f2.Blocks {
				for _, ins := range b.Instrs {
					if call, ok := ins.(*ssa.Call); ok && isBigMethod(call) && len(call.Call.Args) > 0 && call.Call.Args[0] == ssa.Value(g) {
						fn = f2
						if ret, ok := b.Instrs[len(b.Instrs)-1].(ssa.Instruction); ok {
							at = ret
						}
					}
				}
			}
		}
		if fn == nil {
			return nil, false
		}
	}
	order := map[ssa.Instruction]int{}
	k := 0
	for _, b := range fn.DomPreorder() {
		for _, ins := range b.Instrs {
			order[ins] = k
			k++
		}
	}
	var val *big.Int
	switch x := o.(type) {
	case *ssa.Alloc:
		val = new(big.Int)
	case *ssa.Global:
		val = new(big.Int)
	case *ssa.Call: // big.NewInt(k)
		kc, ok := x.Call.Args[0].(*ssa.Const)
		if !ok {
			return nil, false
		}
		kv, _ := constInt64(kc.Value)
		val = big.NewInt(kv)
	}
	// the writers of o, in order
	type wr struct {
		call *ssa.Call
		ord  int
	}
	var ws []wr
	for _, b := range fn.Blocks {
		for _, ins := range b.Instrs {
			call, ok := ins.(*ssa.Call)
			if !ok || !isBigMethod(call) || len(call.Call.Args) == 0 || obj(call.Call.Args[0]) != o {
				continue
			}
			res := call.Call.Signature().Results()
			if res.Len() == 0 || !strings.HasSuffix(res.At(0).Type().String(), "big.Int") {
				continue // a reader (Cmp, Bytes, BitLen, ...)
			}
			if at != nil {
				before := order[call] < order[at] && (call.Block() == at.Block() || call.Block().Dominates(at.Block()))
				if !before {
					if ssa.Instruction(call) == at {
						continue
					}
					// a write that can still reach the use (a loop, a branch that does not dominate): give up
					if call.Block() != at.Block() && c.blockReaches(call.Block(), at.Block()) {
						return nil, false
					}
					if call.Block() == at.Block() && inCycle(c, at.Block()) {
						return nil, false
					}
					continue
				}
			}
			ws = append(ws, wr{call, order[call]})
		}
	}
	for i := 0; i < len(ws); i++ {
		for j := i + 1; j < len(ws); j++ {
			if ws[j].ord < ws[i].ord {
				ws[i], ws[j] = ws[j], ws[i]
			}
		}
	}
	arg := func(call *ssa.Call, i int) (*big.Int, bool) {
		a := call.Call.Args[i]
		if obj(a) == o {
			return new(big.Int).Set(val), true
		}
		return c.evalBig(fn, a, call, depth+1)
	}
	for _, w := range ws {
		call := w.call
		switch call.Call.StaticCallee().Name() {
		case "SetString":
			base, ok := call.Call.Args[2].(*ssa.Const)
			if !ok {
				return nil, false
			}
			bv, _ := constInt64(base.Value)
			var s string
			if kc, ok := call.Call.Args[1].(*ssa.Const); ok && kc.Value != nil && kc.Value.Kind() == constant.String {
				s = constant.StringVal(kc.Value)
			} else if rep := staticCallTo(call.Call.Args[1], "strings.Repeat"); rep != nil {
				sk, ok1 := rep.Call.Args[0].(*ssa.Const)
				nk, ok2 := rep.Call.Args[1].(*ssa.Const)
				if !ok1 || !ok2 || sk.Value == nil {
					return nil, false
				}
				cnt, _ := constInt64(nk.Value)
				if cnt < 0 || cnt > 4096 {
					return nil, false
				}
				s = strings.Repeat(constant.StringVal(sk.Value), int(cnt))
			} else {
				return nil, false
			}
			nv, ok := new(big.Int).SetString(s, int(bv))
			if !ok {
				return nil, false
			}
			val = nv
		case "SetInt64", "SetUint64":
			kc, ok := call.Call.Args[1].(*ssa.Const)
			if !ok {
				return nil, false
			}
			kv, _ := constInt64(kc.Value)
			val = big.NewInt(kv)
		case "Lsh":
			x, ok := arg(call, 1)
			nk, ok2 := call.Call.Args[2].(*ssa.Const)
			if !ok || !ok2 {
				return nil, false
			}
			n, _ := constInt64(nk.Value)
			if n < 0 || n > 1<<16 {
				return nil, false
			}
			val = new(big.Int).Lsh(x, uint(n))
		case "Sub", "Add", "Mul":
			x, ok := arg(call, 1)
			y, ok2 := arg(call, 2)
			if !ok || !ok2 {
				return nil, false
			}
			switch call.Call.StaticCallee().Name() {
			case "Sub":
				val = new(big.Int).Sub(x, y)
			case "Add":
				val = new(big.Int).Add(x, y)
			default:
				val = new(big.Int).Mul(x, y)
			}
		case "Set":
			x, ok := arg(call, 1)
			if !ok {
				return nil, false
			}
			val = x
		default:
			return nil, false
		}
	}
	return val, true
}

func isBigMethod(call *ssa.Call) bool {
	cal := call.Call.StaticCallee()
	return cal != nil && strings.HasPrefix(cal.String(), "(*math/big.Int).")
}

func inCycle(c *Ctx, b *ssa.BasicBlock) bool {
	for _, s := range b.Succs {
		if c.blockReaches(s, b) {
			return true
		}
	}
	return false
}
