package lint

import (
	"go/types"
	"strings"

	"ikeverif/checker/xt/ssa"
)

// libraryObjectRule: the keyed objects an SA holds are the standard library's: what a descriptor's Init returns
// is the result of crypto/hmac.New itself, and the block cipher a NewCrypto stores is the result of
// crypto/aes.NewCipher itself. The rules about reuse (Reset before Write, no state in the cipher object, CBC
// mode objects made per call) speak about those objects; an object of a module type in their place - a wrapper
// that caches a Sum buffer, or that answers the library's optional-interface probes (NewCBCEncrypter,
// NewCBCDecrypter, SetIV) - carries state the rules do not see.
func (c *Ctx) libraryObjectRule(r *Report, rule string) {
	r.Rule(rule, "every descriptor Init returns the result of crypto/hmac.New (or nil), and every interface-typed field of the object a NewCrypto returns holds the result of crypto/aes.NewCipher: no module type stands in for a library hash or cipher object", 7)
	origin := func(v ssa.Value) (string, bool) {
		// follow conversions between interfaces and merges to the leaves
		var leaves []ssa.Value
		seen := map[ssa.Value]bool{}
		var walk func(x ssa.Value)
		walk = func(x ssa.Value) {
			if seen[x] {
				return
			}
			seen[x] = true
			switch t := x.(type) {
			case *ssa.ChangeInterface:
				walk(t.X)
			case *ssa.Phi:
				for _, e := range t.Edges {
					walk(e)
				}
			default:
				leaves = append(leaves, x)
			}
		}
		walk(v)
		for _, l := range leaves {
			if isNilConst(l) {
				continue
			}
			var call *ssa.Call
			switch t := l.(type) {
			case *ssa.Call:
				call = t
			case *ssa.Extract:
				call, _ = t.Tuple.(*ssa.Call)
			}
			if call == nil || call.Call.StaticCallee() == nil {
				return l.String() + " (" + l.Type().String() + ")", false
			}
			switch call.Call.StaticCallee().String() {
			case "crypto/hmac.New", "crypto/aes.NewCipher":
			default:
				return "the result of " + call.Call.StaticCallee().String(), false
			}
		}
		return "", true
	}
	// Init of every PRF / integrity descriptor
	for _, pk := range []struct{ rel, iface string }{{"security/prf", "PRFType"}, {"security/integ", "INTEGType"}} {
		nt := c.NamedType(pk.rel, pk.iface)
		if nt == nil {
			r.undecided(rule, "anchor "+pk.rel+"."+pk.iface, "-", "anchor does not resolve")
			continue
		}
		for _, T := range c.Implementers(nt.Underlying().(*types.Interface)) {
			m := c.methodOf(T, "Init")
			if m == nil || len(m.Blocks) == 0 {
				continue
			}
			r.Func(c.FuncName(m))
			bad := ""
			for _, b := range m.Blocks {
				ret, ok := b.Instrs[len(b.Instrs)-1].(*ssa.Return)
				if !ok || len(ret.Results) == 0 {
					continue
				}
				if why, ok := origin(ret.Results[0]); !ok {
					bad = "Init returns " + why + " at " + c.InstrPos(ret) + ", not the result of crypto/hmac.New"
				}
			}
			r.Check(bad == "", rule, c.FuncName(m), c.Pos(m.Pos()), "returns hmac.New(...) or nil", bad)
		}
	}
	// NewCrypto of every encryption descriptor
	nt := c.NamedType("security/encr", "ENCRType")
	if nt == nil {
		r.undecided(rule, "anchor security/encr.ENCRType", "-", "anchor does not resolve")
		return
	}
	for _, T := range c.Implementers(nt.Underlying().(*types.Interface)) {
		m := c.methodOf(T, "NewCrypto")
		if m == nil || len(m.Blocks) == 0 {
			continue
		}
		r.Func(c.FuncName(m))
		bad := ""
		n := 0
		for _, b := range m.Blocks {
			for _, ins := range b.Instrs {
				st, ok := ins.(*ssa.Store)
				if !ok {
					continue
				}
				fa, ok := st.Addr.(*ssa.FieldAddr)
				if !ok || !types.IsInterface(st.Val.Type()) {
					continue
				}
				if !strings.Contains(FieldKey(fa.X.Type(), fa.Field), "security/encr.") {
					continue
				}
				n++
				if why, ok := origin(st.Val); !ok {
					bad = "field " + FieldKey(fa.X.Type(), fa.Field) + " is set to " + why + " at " + c.InstrPos(st) + ", not to the result of crypto/aes.NewCipher"
				}
			}
		}
		if n == 0 {
			bad = "no cipher object is stored in the object NewCrypto builds"
		}
		r.Check(bad == "", rule, c.FuncName(m), c.Pos(m.Pos()), "the block cipher stored is the result of aes.NewCipher", bad)
	}
}
