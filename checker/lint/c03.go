package lint

import (
	"fmt"
	"go/token"
	"go/types"
	"regexp"
	"sort"
	"strings"

	"ikeverif/checker/xt/ssa"
)

// normalised row sets used by C03 / C05 / C12.

type nrow struct {
	Field string
	FBit  int
	W     wbit
	Cond  string
}

type nseg struct {
	Field  string // Struct.Field, or "" for nested lists
	Nested string
	Lo, Hi string
	Cond   string
	Alias  bool
	Pos    string
}

type normTable struct {
	Rec   string
	Bits  map[nrow]bool
	Segs  []nseg
	Lens  []lenSlot
	Ones  map[string]bool // "off.bit|cond" wire bits the encoder sets to 1
	Unres []string
	Funcs []string
}

// wireToField: for the decode table, which field a whole wire group feeds (for translating conditions).
func wireGroupField(t *recTable, off int64, octets int) string {
	// all bits of the group must map to one field, bit i of the group -> bit i of the field
	field := ""
	for i := 0; i < octets*8; i++ {
		w := beBit(off, octets, i)
		found := ""
		for _, r := range t.Bits {
			if r.W == w && r.FBit == i {
				found = r.Field
			}
		}
		if found == "" {
			if i == 0 {
				return ""
			}
			// narrower field (e.g. 15-bit type): accept if the remaining bits map nowhere
			continue
		}
		if field != "" && field != found {
			return ""
		}
		field = found
	}
	return field
}

// normCond rewrites a condition into the common vocabulary.
func normCond(cond string, dec *recTable, spec *specRecord, forSeg bool) string {
	if cond == "" {
		return ""
	}
	var out []string
	for _, p := range strings.Split(cond, " && ") {
		// wire(<root> @o wN) -> field or slot
		if i := strings.Index(p, "wire("); i >= 0 {
			j := strings.Index(p[i:], ")")
			inner := p[i+5 : i+j]
			at := strings.LastIndex(inner, "@")
			rep := "slot(?)"
			if at >= 0 {
				parts := strings.Fields(inner[at+1:])
				if len(parts) == 2 {
					var off int64
					var oc int
					fmt.Sscan(parts[0], &off)
					fmt.Sscan(strings.TrimPrefix(parts[1], "w"), &oc)
					rep = fmt.Sprintf("slot(%d,%d)", off, oc)
					if dec != nil {
						if f := wireGroupField(dec, off, oc); f != "" {
							rep = f
						}
					}
				}
			}
			p = p[:i] + rep + p[i+j+1:]
		}
		if spec != nil {
			for field, expr := range spec.Derived {
				if p == expr {
					p = field
				}
			}
			// a one-bit field: "== 1" is "!= 0" and "!= 1" is "== 0"
			for field, bits := range spec.DomainBits {
				if bits != 1 {
					continue
				}
				for _, rw := range [][2]string{{" == 1", " != 0"}, {" != 1", " == 0"}} {
					if strings.HasSuffix(p, "."+field+rw[0]) {
						p = strings.TrimSuffix(p, rw[0]) + rw[1]
					}
				}
			}
		}
		if strings.HasSuffix(p, " > 0") {
			continue // "only when non-empty" guard: appending / copying nothing is the same as skipping
		}
		out = append(out, p)
	}
	sort.Strings(out)
	return strings.Join(out, " && ")
}

// dropNonEmptyGuard: for a list segment and for the rows of a list's element record, "count != 0" is the
// "only when non-empty" guard in its other spelling (an empty list contributes no octets either way).
func dropNonEmptyGuard(cond string) string {
	var out []string
	for _, p := range strings.Split(cond, " && ") {
		if p == "" || strings.HasSuffix(p, " != 0") {
			continue
		}
		out = append(out, p)
	}
	return strings.Join(out, " && ")
}

func negLit(p string) string {
	switch {
	case strings.Contains(p, " == "):
		return strings.Replace(p, " == ", " != ", 1)
	case strings.Contains(p, " != "):
		return strings.Replace(p, " != ", " == ", 1)
	case strings.HasPrefix(p, "!"):
		return p[1:]
	case p == "#more":
		return "#last"
	case p == "#last":
		return "#more"
	}
	return "!" + p
}

// mergeConds: {A && X, A && !X} -> {A}.
func mergeConds(conds []string) []string {
	set := map[string]bool{}
	for _, c := range conds {
		set[c] = true
	}
	for changed := true; changed; {
		changed = false
		var ks []string
		for k := range set {
			ks = append(ks, k)
		}
		sort.Strings(ks)
		for _, a := range ks {
			if !set[a] {
				continue
			}
			la := strings.Split(a, " && ")
			if a == "" {
				la = nil
			}
			for i, lit := range la {
				rest := append(append([]string(nil), la[:i]...), la[i+1:]...)
				other := append(append([]string(nil), rest...), negLit(lit))
				sort.Strings(other)
				ok := strings.Join(other, " && ")
				if set[ok] {
					delete(set, a)
					delete(set, ok)
					sort.Strings(rest)
					set[strings.Join(rest, " && ")] = true
					changed = true
					break
				}
			}
			if changed {
				break
			}
		}
	}
	var out []string
	for k := range set {
		out = append(out, k)
	}
	sort.Strings(out)
	return out
}

func normalise(t *recTable, dec *recTable, spec *specRecord, lenToSlot map[string]string, cursors func(rec string) (string, bool)) *normTable {
	nt := &normTable{Rec: t.Record, Bits: map[nrow]bool{}, Ones: map[string]bool{}, Unres: t.Unresolved, Funcs: t.Funcs, Lens: t.LenSlots}
	type k struct {
		f string
		j int
		w wbit
	}
	conds := map[k][]string{}
	for _, r := range t.Bits {
		kk := k{r.Field, r.FBit, r.W}
		cd := stripMarkers(normCond(r.Cond, dec, spec, false))
		if strings.HasSuffix(t.Record, "[]") {
			cd = dropNonEmptyGuard(cd)
		}
		conds[kk] = append(conds[kk], cd)
	}
	for kk, cs := range conds {
		for _, c := range mergeConds(cs) {
			nt.Bits[nrow{kk.f, kk.j, kk.w, c}] = true
		}
	}
	type sk struct{ f, n, lo, hi string }
	sconds := map[sk][]string{}
	spos := map[sk]segRow{}
	for _, s := range t.Segs {
		if s.Lo == "list" && cursors != nil {
			if lo, ok := cursors(normNested(s.Nested)); ok {
				s.Lo = lo
			}
		}
		lo, hi := normOffset(s.Lo, lenToSlot), normOffset(s.Hi, lenToSlot)
		if s.Lo == "list" {
			hi = "end"
		}
		key := sk{s.Field, s.Nested, lo, hi}
		cd := normCond(s.Cond, dec, spec, true)
		if strings.HasPrefix(s.Nested, "list<") {
			cd = dropNonEmptyGuard(cd)
		}
		sconds[key] = append(sconds[key], cd)
		spos[key] = s
	}
	for key, cs := range sconds {
		for _, c := range mergeConds(cs) {
			nt.Segs = append(nt.Segs, nseg{Field: key.f, Nested: key.n, Lo: key.lo, Hi: key.hi, Cond: c, Alias: spos[key].Alias, Pos: spos[key].Pos})
		}
	}
	sort.Slice(nt.Segs, func(i, j int) bool {
		a, b := nt.Segs[i], nt.Segs[j]
		if a.Field != b.Field {
			return a.Field < b.Field
		}
		if a.Lo != b.Lo {
			return a.Lo < b.Lo
		}
		return a.Cond < b.Cond
	})
	for _, c := range t.Consts {
		if c.Val == 1 {
			nt.Ones[fmt.Sprintf("%d.%d|%s", c.W.Off, c.W.Bit, normCond(c.Cond, dec, spec, false))] = true
		}
	}
	return nt
}

// lenToSlotMap: from the encoder's length slots, len(Struct.Field) -> slot(off,octets); len(record) too.
func lenToSlotMap(enc *recTable) map[string]string {
	m := map[string]string{}
	if enc == nil {
		return m
	}
	for _, ls := range enc.LenSlots {
		if strings.HasPrefix(ls.Of, "len(") && ls.Of != "len(record)" {
			m[ls.Of] = fmt.Sprintf("slot(%d,%d)", ls.Off, ls.Octets)
		}
	}
	return m
}

type slotWorld struct {
	c    *Ctx
	ws   *wireSpec
	st   *slotTables
	dec  map[string]*normTable
	enc  map[string]*normTable
	recs []string
}

func (c *Ctx) slotWorld(r *Report, prefix string) *slotWorld {
	ws, err := loadWireSpec()
	if err != nil {
		r.undecided(prefix+"spec", "wire_layout.json", "-", "cannot load the reference layout table: "+err.Error())
		return nil
	}
	st := c.BuildSlotTables()
	w := &slotWorld{c: c, ws: ws, st: st, dec: map[string]*normTable{}, enc: map[string]*normTable{}}
	names := map[string]bool{}
	for k := range st.Dec {
		names[k] = true
	}
	for k := range st.Enc {
		names[k] = true
	}
	for k := range ws.Records {
		names[k] = true
	}
	for k := range names {
		w.recs = append(w.recs, k)
	}
	sort.Strings(w.recs)
	for _, rec := range w.recs {
		spec := ws.Records[rec]
		l2s := lenToSlotMap(st.Enc[rec])
		cur := func(nested string) (string, bool) {
			if nt := st.Dec[nested]; nt != nil && len(nt.Cursors) > 0 {
				return nt.Cursors[0].InitLo, true
			}
			return "", false
		}
		if t := st.Dec[rec]; t != nil {
			w.dec[rec] = normalise(t, t, spec, nil, cur)
			r.Func(t.Funcs[0])
		}
		if t := st.Enc[rec]; t != nil {
			w.enc[rec] = normalise(t, st.Dec[rec], spec, l2s, nil)
			for _, f := range t.Funcs {
				r.Func(f)
			}
		}
	}
	return w
}

func rowKey(n nrow) string {
	return fmt.Sprintf("%s bit %d @%d.%d [%s]", n.Field, n.FBit, n.W.Off, n.W.Bit, n.Cond)
}

func fieldOfRow(n nrow) string { return n.Field }

// groupRows renders a set of rows per field as runs for compact obligations.
func rowsByField(m map[nrow]bool) map[string][]nrow {
	out := map[string][]nrow{}
	for r := range m {
		out[r.Field] = append(out[r.Field], r)
	}
	for _, rs := range out {
		sort.Slice(rs, func(i, j int) bool {
			if rs[i].Cond != rs[j].Cond {
				return rs[i].Cond < rs[j].Cond
			}
			return rs[i].FBit < rs[j].FBit
		})
	}
	return out
}

func describeRows(rs []nrow) string {
	var br []bitRow
	for _, r := range rs {
		br = append(br, bitRow{Field: r.Field, FBit: r.FBit, W: r.W, Cond: r.Cond})
	}
	return strings.Join(summarizeBits(br), "; ")
}

// inclusion checks every field's rows of `a` are present in `b`; one obligation per (record, field).
func (w *slotWorld) inclusion(r *Report, rule string, a, b map[string]*normTable, aName, bName string, what string) {
	for _, rec := range w.recs {
		ta, tb := a[rec], b[rec]
		if ta == nil || rec == "message.IKEPayloadContainer" {
			continue // the container level is the chain walker (rule chain / C13)
		}
		byF := rowsByField(ta.Bits)
		var fields []string
		for f := range byF {
			fields = append(fields, f)
		}
		sort.Strings(fields)
		for _, f := range fields {
			rows := byF[f]
			var missing []nrow
			for _, row := range rows {
				if tb == nil || !tb.Bits[row] {
					missing = append(missing, row)
				}
			}
			key := rec + ": " + f
			if len(missing) == 0 {
				r.ok(rule, key, "-", fmt.Sprintf("%d bit(s): %s", len(rows), describeRows(rows)), true)
			} else {
				other := "nothing"
				if tb != nil {
					other = describeRows(rowsByField(tb.Bits)[f])
					if other == "" {
						other = "nothing"
					}
				}
				r.bad(rule, key, "-", fmt.Sprintf("%s has %s, but %s has %s: %s", aName, describeRows(missing), bName, other, what))
			}
		}
		// segments
		for _, s := range ta.Segs {
			if strings.HasPrefix(s.Field, "call:") {
				continue
			}
			key := rec + ": segment " + s.Field + s.Nested
			found := false
			var others []string
			if tb != nil {
				for _, o := range tb.Segs {
					if segSameField(s, o) {
						others = append(others, fmt.Sprintf("[%s : %s] when {%s}", o.Lo, o.Hi, o.Cond))
						if segEqual(s, o) {
							found = true
						}
					}
				}
			}
			desc := fmt.Sprintf("[%s : %s] when {%s}", s.Lo, s.Hi, s.Cond)
			if found {
				r.ok(rule, key+" "+desc, "-", "same octet span on both sides", true)
			} else {
				r.bad(rule, key+" "+desc, s.Pos, fmt.Sprintf("%s places it at %s, %s at %v: %s", aName, desc, bName, others, what))
			}
		}
	}
}

func isListSeg(a nseg) bool {
	return a.Lo == "list" || strings.HasPrefix(a.Nested, "list<") || strings.HasPrefix(a.Nested, "*")
}

func segSameField(a, b nseg) bool {
	if isListSeg(a) || isListSeg(b) {
		return isListSeg(a) && isListSeg(b) && normNested(a.Nested) == normNested(b.Nested)
	}
	return a.Field == b.Field
}

// normNested maps "*message.Transform" / "list<message.Transform>" to "message.Transform".
func normNested(s string) string {
	s = strings.TrimPrefix(s, "*")
	s = strings.TrimPrefix(s, "list<")
	s = strings.TrimSuffix(s, ">")
	return s
}

func segEqual(a, b nseg) bool {
	if !segSameField(a, b) {
		return false
	}
	if isListSeg(a) {
		// nested lists: the start is compared where both sides give one ("4+" = first element at 4)
		la, lb := strings.TrimSuffix(a.Lo, "+"), strings.TrimSuffix(b.Lo, "+")
		if la == "list" || lb == "list" {
			return true
		}
		return strings.Fields(la)[0] == strings.Fields(lb)[0]
	}
	if a.Cond != b.Cond {
		return false
	}
	return a.Lo == b.Lo && (a.Hi == b.Hi || a.Hi == "end" && b.Hi == "end")
}

// RunC03 decides property C03.
func RunC03(c *Ctx, r *Report) {
	prefix := "C03."
	r.Explanation = "Structural necessary conditions of the plain codec round trip, decided on wire-slot tables extracted from the SSA form of every Marshal/Unmarshal pair (bit-provenance vectors for masks/shifts/byte order, linear forms for offsets): W ⊆ R — every field bit the encoder puts on the wire is read back into the same field bit from the same wire bit, every byte-string field is copied back from the span the encoder wrote it to (spans normalised through the encoder's length slots), every field the encoder emits is stored by the decoder; dispatch bijections for the 16 payload types and 5 EAP methods; the chain rule; TSi/TSr and IDi/IDr sibling agreement; EAP-AKA' attribute case sets and token sequences."
	r.TrustedBase = append(r.TrustedBase, "go/types and go/ssa (x/tools v0.29.0)", "the checker's bit-provenance and linear-form engines", "domain restrictions of the properties (attribute types < 2^15, versions <= 15, vendor id < 2^24)")
	r.Assumptions = append(r.Assumptions, "messages lie in the encodable domain of the property (so every guarded narrowing conversion succeeds)")
	r.NotDecided = append(r.NotDecided, "value-level equality for arbitrary field contents", "interaction of several payloads beyond the chain rule", "Delete SPI stride for SPI sizes other than 4 (outside the domain)")
	c.plainCodecRules(r, prefix)
}

// plainCodecRules: the rule set of the plain codec round trip. Claimed by C03 and, under its own prefix, by
// C01: a protected message comes back unchanged only if the header and the inner payload chain survive the
// plain codec (EncodeEncrypt and DecodeDecrypt run Marshal/ParseHeader and the payload codecs inside).
func (c *Ctx) plainCodecRules(r *Report, prefix string) {
	w := c.slotWorld(r, prefix)
	if w == nil {
		return
	}
	r.Rule(prefix+"w-subset-r", "every field bit / byte-string the encoder emits is read back by the decoder from the same wire position into the same field (W ⊆ R)", 60)
	w.inclusion(r, prefix+"w-subset-r", w.enc, w.dec, "the encoder", "the decoder", "a value written there does not come back unchanged")
	w.unresolvedRule(r, prefix+"resolved", true, true)
	w.coverageRule(r, prefix+"coverage")
	// the domain is stated in wire terms (attribute types < 2^15, 16-bit counts and group numbers, ...): a field
	// narrower than its wire slot cannot hold the domain's values - the encoder emits every bit of the slot from the field
	r.Rule(prefix+"w-equals-spec", "encoder layout = RFC layout for every field (offset, width, byte order, mask/shift) and octet string: each field carries the full width of its wire slot", 60)
	w.specCompare(r, prefix+"w-equals-spec", "encode", w.enc)
	// ... and every length slot carries the final length at the slot's full width (a length computed in a narrower
	// type wraps for the largest messages of the domain)
	w.lengthSlotRule(r, prefix+"length-slots")
	// bijections
	c.bijectionRule(r, prefix+"dispatch.ike", c.Method("message", "IKEPayloadContainer", "Decode"), "message", "IKEPayload", "Type", 16)
	c.bijectionRule(r, prefix+"dispatch.eap", c.Method("eap", "EAP", "Unmarshal"), "eap", "EapTypeData", "Type", 5)
	c.akaEmitsAllRule(r, prefix+"aka.emits-every-attribute")
	c.noSilentSkipRule(r, prefix+"decode.no-silent-skip", "eap", "message")
	c.setterAtomicRule(r, prefix+"set.refused-leaves-untouched")
	c.chainRules(r, prefix)
	w.siblingRule(r, prefix+"siblings")
	w.perFunctionRule(r, prefix+"siblings.shared-record")
	w.completeRule(r, prefix+"complete", "ed")
	w.nestedDispatchRule(r, prefix+"nested-dispatch")
	c.valueGuardRule(r, prefix+"value-guards")
	w.lengthGuardRule(r, prefix+"decode.length-guards")
	// decoding is a function of the octets, not of what an earlier call left in the object decoded into
	dscope := c.DecodeScope(r, prefix)
	c.decodeInputOnlyRule(r, prefix+"decode.input-only", dscope)
	c.noTruncateInPlaceRule(r, prefix+"decode.no-truncate-in-place", dscope)
	c.encodeTotality(r, prefix)
	c.akaRules(r, prefix, "roundtrip")
	c.akaPaddingRule(r, prefix)
	// the value a setter keeps is exactly the value given (a buffer kept from an earlier, longer value would put
	// stale octets into the message that is encoded)
	c.akaValueIdentityRule(r, prefix)
	c.elementFreshRule(r, prefix+"decode.element-fresh")
	c.counterNoWrapRule(r, prefix+"codec.counter-no-wrap")
	c.guardedNarrowingRule(r, prefix+"encode.guarded-narrowing")
	c.encodeOwnHeaderRule(r, prefix+"encode-own-header")
	// encoding is a function of the message's value: nothing is written through message-owned slices (a transform
	// list grown in place shows up in every other proposal cut from the same backing array)
	c.encodeNoWriteThroughRule(r, prefix+"encode.no-write-through", c.Reachable(c.encodeRoots(r, prefix)...),
		map[string]bool{"field:message.IKEHeader.NextPayload": true, "field:message.IKEHeader.PayloadBytes": true})
}

// unresolvedRule: the extractor understood every store / write of the codec functions.
func (w *slotWorld) unresolvedRule(r *Report, rule string, dec, enc bool) {
	r.Rule(rule, "every field store of a decoder and every buffer write of an encoder was interpreted by the slot extractor (an uninterpreted one is undecided, hence reported)", 20)
	for _, rec := range w.recs {
		if dec {
			if t := w.dec[rec]; t != nil {
				if len(t.Unres) == 0 {
					r.ok(rule, "decode "+rec, "-", fmt.Sprintf("%d bit rows, %d segments", len(t.Bits), len(t.Segs)), true)
				}
				for _, u := range t.Unres {
					r.undecided(rule, "decode "+rec+": "+u, "-", u)
				}
			}
		}
		if enc {
			if t := w.enc[rec]; t != nil {
				if len(t.Unres) == 0 {
					r.ok(rule, "encode "+rec, "-", fmt.Sprintf("%d bit rows, %d segments, %d length slots", len(t.Bits), len(t.Segs), len(t.Lens)), true)
				}
				for _, u := range t.Unres {
					r.undecided(rule, "encode "+rec+": "+u, "-", u)
				}
			}
		}
	}
}

// coverageRule: every field of every codec struct occurs on both sides (or is explained).
func (w *slotWorld) coverageRule(r *Report, rule string) {
	r.Rule(rule, "every field of every payload struct is emitted by the encoder and stored by the decoder, or is on the explicit list with a reason", 60)
	explained := map[string]string{
		"message.Transform.AttributePresent":                "derived: present iff the transform is longer than 8 octets (spec 'derived'); emitted as presence of the attribute",
		"message.Encrypted.NextPayload":                     "carried in octet 0 of the generic payload header (container level)",
		"message.IKEMessage.IKEHeader":                      "structural",
		"message.IKEMessage.Payloads":                       "structural",
		"message.PayloadEap.EAP":                            "structural (forwards to eap.EAP)",
		"eap.EAP.EapTypeData":                               "structural (dispatch.eap)",
		"message.SecurityAssociation.Proposals":             "list of Proposal records",
		"message.Proposal.EncryptionAlgorithm":              "list of Transform records filed by TransformType",
		"message.Proposal.PseudorandomFunction":             "list of Transform records filed by TransformType",
		"message.Proposal.IntegrityAlgorithm":               "list of Transform records filed by TransformType",
		"message.Proposal.DiffieHellmanGroup":               "list of Transform records filed by TransformType",
		"message.Proposal.ExtendedSequenceNumbers":          "list of Transform records filed by TransformType",
		"message.Configuration.ConfigurationAttribute":      "list of attribute records",
		"message.TrafficSelectorInitiator.TrafficSelectors": "list of selector records",
		"message.TrafficSelectorResponder.TrafficSelectors": "list of selector records",
		"message.Delete.SPIs":                               "list of 4-octet SPIs (element record message.Delete[])",
		"eap.EapAkaPrime.subType":                           "stream style: token engine (aka rules)",
		"eap.EapAkaPrime.reserved":                          "stream style: token engine (aka rules)",
		"eap.EapAkaPrime.attributes":                        "stream style: token engine (aka rules)",
		"eap.EapAkaPrimeAttr.attrType":                      "stream style: token engine (aka rules)",
		"eap.EapAkaPrimeAttr.length":                        "stream style: token engine (aka rules)",
		"eap.EapAkaPrimeAttr.reserved":                      "stream style: token engine (aka rules)",
		"eap.EapAkaPrimeAttr.value":                         "stream style: token engine (aka rules)",
	}
	for _, nt := range w.c.ModuleNamedTypes() {
		st, ok := nt.Underlying().(*types.Struct)
		if !ok {
			continue
		}
		rec := typeKey(nt)
		if !isCodecStructKey(rec) {
			continue
		}
		// only structs reachable as payload/EAP data: those with a table, or explained fields
		_, hasD := w.dec[rec]
		_, hasE := w.enc[rec]
		for i := 0; i < st.NumFields(); i++ {
			fk := rec + "." + st.Field(i).Name()
			if why, ok := explained[fk]; ok {
				r.ok(rule, fk, "-", why, false)
				continue
			}
			if !hasD && !hasE {
				continue
			}
			inD := w.fieldIn(w.dec[rec], fk)
			inE := w.fieldIn(w.enc[rec], fk)
			switch {
			case inD && inE:
				r.ok(rule, fk, "-", "emitted and stored", true)
			case inE:
				r.bad(rule, fk, "-", "the encoder emits this field but the decoder never stores it")
			case inD:
				r.bad(rule, fk, "-", "the decoder stores this field but the encoder never emits it")
			default:
				r.bad(rule, fk, "-", "the field is neither emitted nor stored: it cannot survive a round trip")
			}
		}
	}
}

func (w *slotWorld) fieldIn(t *normTable, fk string) bool {
	if t == nil {
		return false
	}
	for row := range t.Bits {
		if row.Field == fk {
			return true
		}
	}
	for _, s := range t.Segs {
		if s.Field == fk {
			return true
		}
	}
	return false
}

// perFunctionRule: a record encoded (decoded) by several functions gets the same rows from each.
func (w *slotWorld) perFunctionRule(r *Report, rule string) {
	r.Rule(rule, "a record handled by several sibling functions (the selector record of TSi and TSr) gets identical rows from each of them", 2)
	for _, side := range []struct {
		name string
		m    map[string]*recTable
	}{{"decode", w.st.Dec}, {"encode", w.st.Enc}} {
		for _, rec := range w.recs {
			t := side.m[rec]
			if t == nil || len(t.Funcs) < 2 {
				continue
			}
			per := map[string][]string{}
			for _, b := range t.Bits {
				per[b.Fn] = append(per[b.Fn], anonRoots(fmt.Sprintf("%s#%d@%d.%d[%s]", b.Field, b.FBit, b.W.Off, b.W.Bit, b.Cond)))
			}
			for _, sg := range t.Segs {
				per[sg.Fn] = append(per[sg.Fn], anonRoots(fmt.Sprintf("seg %s %s [%s:%s] [%s]", sg.Field, normNested(sg.Nested), sg.Lo, sg.Hi, sg.Cond)))
			}
			var fns []string
			for fn := range per {
				fns = append(fns, fn)
			}
			sort.Strings(fns)
			if len(fns) < 2 {
				continue
			}
			ref := ""
			same := true
			detail := ""
			for i, fn := range fns {
				sort.Strings(per[fn])
				cur := strings.Join(uniqStrings(per[fn]), "; ")
				if i == 0 {
					ref = cur
				} else if cur != ref {
					same = false
					detail = firstDiff(strings.Split(ref, "; "), strings.Split(cur, "; "), fns[0], fn)
				}
			}
			r.Check(same, rule, side.name+" "+rec+" by "+strings.Join(fns, " / "), "-", fmt.Sprintf("%d functions, identical rows", len(fns)), "sibling functions disagree: "+detail)
		}
	}
}

var rootNameRe = regexp.MustCompile(`\b(cursor|param):[A-Za-z0-9_]+`)

// anonRoots drops the source names of cursors and parameters from a row: siblings may name their locals differently.
func anonRoots(s string) string { return rootNameRe.ReplaceAllString(s, "$1") }

func firstDiff(a, b []string, na, nb string) string {
	in := func(x string, l []string) bool {
		for _, y := range l {
			if x == y {
				return true
			}
		}
		return false
	}
	var d []string
	for _, x := range a {
		if !in(x, b) {
			d = append(d, na+" only: "+x)
		}
	}
	for _, x := range b {
		if !in(x, a) {
			d = append(d, nb+" only: "+x)
		}
	}
	if len(d) > 6 {
		d = d[:6]
	}
	return strings.Join(d, " | ")
}

// completeRule: every bit of every integer field (within its domain width) is emitted by the
// encoder and stored by the decoder.
func (w *slotWorld) completeRule(r *Report, rule string, sides string) {
	r.Rule(rule, "every bit of every integer field, up to the field's domain width, occurs in the table (no field bit is silently dropped)", 30)
	domain := w.ws.domainBits()
	width := map[string]int{}
	for _, nt := range w.c.ModuleNamedTypes() {
		st, ok := nt.Underlying().(*types.Struct)
		if !ok {
			continue
		}
		for i := 0; i < st.NumFields(); i++ {
			fk := typeKey(nt) + "." + st.Field(i).Name()
			if n, ok := typeBits(st.Field(i).Type()); ok && n > 1 {
				width[fk] = n
			}
			if sl, ok := st.Field(i).Type().Underlying().(*types.Slice); ok {
				if n, ok := typeBits(sl.Elem()); ok && n > 8 {
					width[fk+"[]"] = n
				}
			}
		}
	}
	check := func(side string, m map[string]*normTable) {
		for _, rec := range w.recs {
			t := m[rec]
			if t == nil {
				continue
			}
			byF := rowsByField(t.Bits)
			var fs []string
			for f := range byF {
				fs = append(fs, f)
			}
			sort.Strings(fs)
			for _, f := range fs {
				n, ok := width[f]
				if !ok {
					continue
				}
				if d, ok := domain[f]; ok && d < n {
					n = d
				}
				have := map[int]bool{}
				for _, row := range byF[f] {
					have[row.FBit] = true
				}
				var miss []int
				for j := 0; j < n; j++ {
					if !have[j] {
						miss = append(miss, j)
					}
				}
				r.Check(len(miss) == 0, rule, side+" "+f, "-", fmt.Sprintf("all %d bits", n), fmt.Sprintf("bits %v of the field never reach the %s side: values using them do not survive", miss, side))
			}
		}
	}
	if strings.Contains(sides, "e") {
		check("encode", w.enc)
	}
	if strings.Contains(sides, "d") {
		check("decode", w.dec)
	}
}

// siblingRule: TSi/TSr and IDi/IDr produce identical tables (up to the record name).
func (w *slotWorld) siblingRule(r *Report, rule string) {
	r.Rule(rule, "sibling payloads (IDi/IDr, TSi/TSr) have identical slot tables on both sides", 4)
	pairs := [][2]string{{"message.IdentificationInitiator", "message.IdentificationResponder"}, {"message.TrafficSelectorInitiator", "message.TrafficSelectorResponder"}}
	for _, p := range pairs {
		for _, side := range []struct {
			name string
			m    map[string]*normTable
		}{{"decode", w.dec}, {"encode", w.enc}} {
			a, b := side.m[p[0]], side.m[p[1]]
			key := side.name + " " + p[0] + " ~ " + p[1]
			if a == nil || b == nil {
				r.bad(rule, key, "-", "one of the siblings has no table")
				continue
			}
			ra := renderTable(a, p[0])
			rb := renderTable(b, p[1])
			r.Check(ra == rb, rule, key, "-", "identical: "+ra, "tables differ: "+ra+" vs "+rb)
		}
	}
}

func renderTable(t *normTable, rec string) string {
	var parts []string
	for row := range t.Bits {
		parts = append(parts, strings.Replace(rowKey(row), rec, "T", -1))
	}
	for _, s := range t.Segs {
		parts = append(parts, strings.Replace(fmt.Sprintf("seg %s%s [%s:%s] {%s}", s.Field, normNested(s.Nested), s.Lo, s.Hi, s.Cond), rec, "T", -1))
	}
	for _, l := range t.Lens {
		parts = append(parts, strings.Replace(fmt.Sprintf("len @%d w%d %s", l.Off, l.Octets, l.Of), rec, "T", -1))
	}
	sort.Strings(parts)
	return strings.Join(parts, "; ")
}

// chainRules: C03 rule 4 / C05 rule 6: generic payload header on both sides.
func (c *Ctx) chainRules(r *Report, prefix string) {
	rule := prefix + "chain"
	r.Rule(rule, "generic payload header: the encoder writes Type() of the following payload (SK's NextPayload / 0 for the last) into octet 0 and the final record length into octets 2-3, never touches octet 1, body at 4; the decoder dispatches the next element on octet 0, takes the body from [4:length] and advances by length", 5)
	dec := c.Method("message", "IKEPayloadContainer", "Decode")
	if dec == nil {
		r.undecided(rule, "anchor", "-", "container Decode does not resolve")
		return
	}
	st := c.BuildSlotTables()
	gp := st.Enc["message.GenericPayload"]
	if gp == nil {
		r.bad(rule, "encode: generic payload header", "-", "no generic-header table could be extracted from container Encode")
		return
	}
	// encoder
	okLen, okNext, okBody, okCrit := false, false, false, true
	for _, ls := range gp.LenSlots {
		if ls.Off == 2 && ls.Octets == 2 && ls.Of == "len(record)" {
			okLen = true
		}
		if ls.Off == 0 && ls.Octets == 1 && strings.Contains(ls.Of, ".Type()") {
			okNext = true
		}
	}
	for _, sg := range gp.Segs {
		if strings.Contains(sg.Field, ".Marshal()") && sg.Lo == "4" {
			okBody = true
		}
	}
	for _, b := range gp.Bits {
		if b.W.Off == 1 {
			okCrit = false
		}
	}
	for _, k := range gp.Consts {
		if k.W.Off == 1 && k.Val == 1 {
			okCrit = false
		}
	}
	r.Check(okLen, rule, "encode: length slot @2 w2 = final record length", "-", "PutUint16(payloadData[2:4], len(payloadData)) after the body was appended", "the payload length field does not carry the final length of header + body")
	r.Check(okNext, rule, "encode: octet 0 = type of the following payload", "-", "next.Type() under 'more' (the 'last' cases are rule C06.chain-next-payload)", "octet 0 is not the following payload's type")
	r.Check(okBody, rule, "encode: body at octet 4", "-", "payload.Marshal() appended after the 4-octet header", "the body is not placed directly after the 4-octet generic header")
	r.Check(okCrit, rule, "encode: critical bit and reserved bits stay zero", "-", "octet 1 is never written on the zeroed header", "the encoder writes octet 1 (critical / reserved bits)")
	// decoder: body = b[4:length], advance b[length:], next = b[0]: reuse C13's structural checks
	f := c.NewFA(dec)
	// the cursor: a loop-carried byte slice that is re-sliced, or b[offset:] with a loop-carried offset
	var cursor *ssa.Phi
	var cursorVal ssa.Value
	var offPhi *ssa.Phi
	for _, li := range naturalLoops(dec) {
		for _, ins := range li.header.Instrs {
			if p, ok := ins.(*ssa.Phi); ok && isByteSlice(p.Type()) {
				cursor = p
				cursorVal = p
			}
		}
	}
	if cursor == nil {
		for _, b := range dec.Blocks {
			for _, ins := range b.Instrs {
				if sl, ok := ins.(*ssa.Slice); ok && isOffsetCursor(sl) {
					cursorVal = sl
					offPhi = sl.Low.(*ssa.Phi)
				}
			}
		}
	}
	okD := cursorVal != nil
	detail := "cursor not found"
	if okD {
		x := newBVCtx(c, f)
		for _, b := range dec.Blocks {
			for _, ins := range b.Instrs {
				call, ok := ins.(*ssa.Call)
				if !ok || !call.Call.IsInvoke() || call.Call.Method.Name() != "Unmarshal" {
					continue
				}
				root, lo, hi, open := f.relSpan(call.Call.Args[0])
				his := c.symOffset(f, x, hi)
				if root != cursorVal || open || !lo.isConst() || lo.C != 4 || normOffset(his, nil) != "0 +1*slot(2,2)" {
					okD = false
					detail = fmt.Sprintf("body span is [%s : %s]", f.Show(lo), his)
				}
			}
		}
		// advance
		if cursor != nil {
			for i, e := range cursor.Edges {
				if cursor.Block().Preds[i].Dominates(cursor.Block()) {
					continue // entry edge
				}
				root, lo, _, open := f.relSpan(e)
				if root != ssa.Value(cursor) {
					continue
				}
				los := normOffset(c.symOffset(f, x, lo), nil)
				if !open || los != "0 +1*slot(2,2)" {
					okD = false
					detail = "cursor advances by " + los
				}
			}
		} else {
			for i, e := range offPhi.Edges {
				if offPhi.Block().Preds[i].Dominates(offPhi.Block()) {
					continue // entry edge
				}
				add, ok := e.(*ssa.BinOp)
				if !ok || add.Op != token.ADD || add.X != ssa.Value(offPhi) {
					okD = false
					detail = "the offset is not advanced by an addition"
					continue
				}
				los := normOffset(c.symOffset(f, x, f.pin(f.LFOf(add.Y), f.FactsAt(offPhi.Block().Preds[i]))), nil)
				if los != "0 +1*slot(2,2)" {
					okD = false
					detail = "offset advances by " + los
				}
			}
		}
	}
	r.Check(okD, rule, "decode: body = b[4:length], advance by length", c.Pos(dec.Pos()), "length = slot(2,2) of the current generic header on both uses", detail)
	// every element of the chain is decoded and kept, except an unsupported one whose critical bit is clear: a way
	// round the loop that does not append to the container lies behind a test of bit 7 of octet 1 (a payload
	// with an empty body - a Nonce or Vendor ID without data - is a payload like any other)
	x := newBVCtx(c, f)
	isCriticalTest := func(cond ssa.Value) bool {
		bo, ok := cond.(*ssa.BinOp)
		if !ok || (bo.Op != token.EQL && bo.Op != token.NEQ) {
			return false
		}
		for _, v := range []ssa.Value{bo.X, bo.Y} {
			if _, isK := v.(*ssa.Const); isK {
				continue
			}
			if _, isInt := typeBits(v.Type()); !isInt {
				continue
			}
			runs, ones, tops := runsOf(x.Eval(v))
			if len(runs) == 1 && len(ones) == 0 && len(tops) == 0 && runs[0].N == 1 && runs[0].SrcLo == 7 {
				l := x.leaves[runs[0].Leaf]
				if l.Kind == "wire" && l.Octets == 1 && l.Off.isConst() && l.Off.C == 1 {
					return true
				}
			}
		}
		return false
	}
	for _, li := range naturalLoops(dec) {
		isWalker := false
		for _, ins := range li.header.Instrs {
			if p, ok := ins.(*ssa.Phi); ok && (ssa.Value(p) == cursorVal || p == offPhi) {
				isWalker = true
			}
		}
		if !isWalker {
			continue
		}
		// blocks that append to the container
		var keeps []*ssa.BasicBlock
		for _, b := range sortedBlocks(li.body) {
			for _, ins := range b.Instrs {
				if st, ok := ins.(*ssa.Store); ok && paramIndex(dec, st.Addr) == 0 {
					if ap := isAppendCall(st.Val); ap != nil {
						keeps = append(keeps, b)
					}
				}
			}
		}
		// barriers: a block that keeps the payload, a block that ends in the test of the critical bit. A way round
		// the loop must cross one of them (paths, not back edges: a loop with a post statement has one back edge
		// for all its ways round)
		barrier := map[*ssa.BasicBlock]bool{}
		for _, k := range keeps {
			barrier[k] = true
		}
		nCrit := 0
		for _, bb := range sortedBlocks(li.body) {
			if iff, ok := bb.Instrs[len(bb.Instrs)-1].(*ssa.If); ok && isCriticalTest(iff.Cond) {
				barrier[bb] = true
				nCrit++
			}
		}
		isBack := map[*ssa.BasicBlock]bool{}
		for _, p := range li.backs {
			isBack[p] = true
		}
		seen := map[*ssa.BasicBlock]bool{}
		var bad *ssa.BasicBlock
		var walk func(bb *ssa.BasicBlock)
		walk = func(bb *ssa.BasicBlock) {
			if seen[bb] || !li.body[bb] || bb == li.header || barrier[bb] || bad != nil {
				return
			}
			seen[bb] = true
			if isBack[bb] {
				bad = bb
				return
			}
			for _, sc := range bb.Succs {
				walk(sc)
			}
		}
		for _, sc := range li.header.Succs {
			walk(sc)
		}
		if bad == nil {
			r.ok(rule, "decode: every way round the loop keeps the payload or tests the critical bit", c.Pos(dec.Pos()), fmt.Sprintf("%d block(s) append to the container, %d test(s) of bit 7 of octet 1; no way round the loop avoids them", len(keeps), nCrit), true)
		} else {
			r.bad(rule, "decode: every way round the loop keeps the payload or tests the critical bit", c.InstrPos(bad.Instrs[len(bad.Instrs)-1]), "a payload is skipped without being decoded on a path that does not test the critical bit: an element of the chain is lost")
		}
	}
}

// stripMarkers removes the #more/#last literals (they qualify constants, not field slots).
func stripMarkers(cond string) string {
	if cond == "" {
		return ""
	}
	var out []string
	for _, p := range strings.Split(cond, " && ") {
		if !strings.HasPrefix(p, "#") {
			out = append(out, p)
		}
	}
	return strings.Join(out, " && ")
}

// nestedDispatchRule: a nested record reached through dynamic dispatch (EAP method data behind
// eap.EAP.EapTypeData) occupies the same octets, under the same conditions, on both sides and in the
// reference layout. The decoder's "the record is longer than the fixed part" test (a comparison of the
// record's own length slot with the segment's start) is the wire form of the encoder's "field is set"
// test and is not a layout condition; any other condition is.
func (w *slotWorld) nestedDispatchRule(r *Report, rule string) {
	r.Rule(rule, "a nested record behind an interface-typed field is emitted and stored over the same octet span under the same conditions (presence apart), as in the reference layout", 1)
	for _, rec := range w.recs {
		dec, enc, spec := w.dec[rec], w.enc[rec], w.ws.Records[rec]
		type side struct {
			seg  *nseg
			cond string
		}
		fields := map[string]*[2]side{}
		get := func(f string) *[2]side {
			if fields[f] == nil {
				fields[f] = &[2]side{}
			}
			return fields[f]
		}
		lenSlots := map[string]bool{}
		if enc != nil {
			for _, l := range enc.Lens {
				if l.Of == "len(record)" {
					lenSlots[fmt.Sprintf("slot(%d,%d)", l.Off, l.Octets)] = true
				}
			}
		}
		if dec != nil {
			for i := range dec.Segs {
				s := &dec.Segs[i]
				if !strings.HasPrefix(s.Field, "call:"+rec+".") {
					continue
				}
				var keep []string
				for _, p := range strings.Split(s.Cond, " && ") {
					if p == "" {
						continue
					}
					parts := strings.Split(p, " != ")
					if len(parts) != 2 {
						parts = strings.Split(p, " > ") // the same test behind a "length >= Lo" guard
					}
					if len(parts) == 2 && lenSlots[parts[0]] && parts[1] == s.Lo {
						continue // the tail [Lo:end] is non-empty
					}
					keep = append(keep, p)
				}
				get(strings.TrimPrefix(s.Field, "call:"))[0] = side{s, strings.Join(keep, " && ")}
			}
		}
		if enc != nil {
			for i := range enc.Segs {
				s := &enc.Segs[i]
				if !strings.HasPrefix(s.Field, "call:"+rec+".") || !strings.HasSuffix(s.Field, ".Marshal()") {
					continue
				}
				get(strings.TrimSuffix(strings.TrimPrefix(s.Field, "call:"), ".Marshal()"))[1] = side{s, s.Cond}
			}
		}
		var names []string
		for f := range fields {
			names = append(names, f)
		}
		sort.Strings(names)
		for _, f := range names {
			d, e := fields[f][0], fields[f][1]
			key := "nested " + f
			switch {
			case d.seg == nil:
				r.bad(rule, key, e.seg.Pos, "the encoder emits the nested record but the decoder does not store one decoded from the input")
				continue
			case e.seg == nil:
				r.bad(rule, key, d.seg.Pos, "the decoder stores the nested record but the encoder does not emit it")
				continue
			}
			var diffs []string
			if d.seg.Lo != e.seg.Lo || d.seg.Hi != e.seg.Hi {
				diffs = append(diffs, fmt.Sprintf("decoder reads [%s : %s], encoder writes [%s : %s]", d.seg.Lo, d.seg.Hi, e.seg.Lo, e.seg.Hi))
			}
			if d.cond != e.cond {
				diffs = append(diffs, fmt.Sprintf("decoder stores it when {%s}, encoder emits it when {%s}", d.cond, e.cond))
			}
			if spec != nil {
				found := false
				for _, ss := range spec.Segments {
					if "call:"+strings.TrimPrefix(f, rec+".") != ss.Field {
						continue
					}
					found = true
					// the reference fixes the span; which packets carry a body at all is decided between the two sides
					if ss.Lo != d.seg.Lo || ss.Hi != d.seg.Hi || ss.Lo != e.seg.Lo || ss.Hi != e.seg.Hi {
						diffs = append(diffs, fmt.Sprintf("reference places it at [%s : %s]", ss.Lo, ss.Hi))
					}
				}
				if !found {
					diffs = append(diffs, "the reference layout has no such nested record")
				}
			}
			r.Check(len(diffs) == 0, rule, key, e.seg.Pos, fmt.Sprintf("[%s : %s] on both sides and in the reference, when {%s} on both sides", e.seg.Lo, e.seg.Hi, e.cond), strings.Join(diffs, "; "))
		}
	}
}
