package lint

import (
	"fmt"
	"go/token"
	"sort"

	"ikeverif/checker/xt/ssa"
)

// akaLengthGuardRule: the EAP-AKA' decoder refuses an attribute because of its length octet only for lengths no
// attribute of that type has on the encodable domain. Per attribute type the setter accepts value sizes
// [lo, hi] (akaSetterCases; the unbounded ones capped by the reference table), which the encoder turns into
// length octets ceil((header + size) / 4); every test of attr.length against a constant that has a failing side
// and that the type's arm of the decoder reaches must let all those length octets pass. (The value-guard rule
// only asks whether the encoder tests the field at all; a decoder that refuses length 1 for AT_KDF_INPUT - an
// empty network name - agrees with an encoder that tests "padding < 0" on that count.)
func (c *Ctx) akaLengthGuardRule(r *Report, prefix string, um *ssa.Function, setCases []akaSetCase) {
	rule := prefix + "aka.decoder-accepts-lengths"
	r.Rule(rule, "every test of the attribute length octet against a constant in the EAP-AKA' decoder lets pass the length octets the encoder produces for the value sizes the setter accepts for that attribute type", 2)
	ws, err := loadWireSpec()
	if err != nil {
		r.undecided(rule, "spec", "-", err.Error())
		return
	}
	names := map[string]string{}
	for _, n := range []string{"AT_RAND", "AT_AUTN", "AT_RES", "AT_MAC", "AT_KDF", "AT_KDF_INPUT", "AT_CHECKCODE"} {
		if k := c.constInt("eap", n); k != nil {
			names[fmt.Sprint(*k)] = n
		}
	}
	type dom struct{ lo, hi int64 }
	words := map[string]dom{}
	for _, s := range setCases {
		hi := s.LenHi
		if m, ok := ws.Aka.MaxValueOctets[names[s.K]]; ok && (hi >= INF || hi > m || hi >= (int64(1)<<40)) {
			hi = m
		}
		if hi >= int64(1)<<40 {
			continue
		}
		hdr := ws.Aka.HeaderOctets
		if names[s.K] == "AT_KDF" {
			hdr = 2
		}
		words[s.K] = dom{(hdr + s.LenLo + 3) / 4, (hdr + hi + 3) / 4}
	}
	loops := naturalLoops(um)
	if len(loops) != 1 {
		r.undecided(rule, "loop", c.Pos(um.Pos()), "attribute loop not found")
		return
	}
	li := loops[0]
	f := c.NewFA(um)
	// the arm of each type: blocks reachable from the true successor of attrType == K inside the loop
	type arm struct {
		k    string
		body *ssa.BasicBlock
	}
	var arms []arm
	var firstTest *ssa.BasicBlock
	for _, b := range sortedBlocks(li.body) {
		iff, ok := b.Instrs[len(b.Instrs)-1].(*ssa.If)
		if !ok {
			continue
		}
		cond, ok := iff.Cond.(*ssa.BinOp)
		if !ok || cond.Op != token.EQL {
			continue
		}
		k, ok := cond.Y.(*ssa.Const)
		if !ok || k.Value == nil {
			continue
		}
		if _, fld, isF := fieldLoad(cond.X); isF && fld == "attrType" {
			arms = append(arms, arm{k.Value.ExactString(), b.Succs[0]})
			if firstTest == nil || b.Dominates(firstTest) {
				firstTest = b
			}
		}
	}
	reach := func(from *ssa.BasicBlock) map[*ssa.BasicBlock]bool {
		seen := map[*ssa.BasicBlock]bool{}
		st := []*ssa.BasicBlock{from}
		for len(st) > 0 {
			x := st[len(st)-1]
			st = st[:len(st)-1]
			if seen[x] || !li.body[x] || x == li.header {
				continue
			}
			seen[x] = true
			st = append(st, x.Succs...)
		}
		return seen
	}
	armReach := map[string]map[*ssa.BasicBlock]bool{}
	for _, a := range arms {
		if armReach[a.k] == nil {
			armReach[a.k] = map[*ssa.BasicBlock]bool{}
		}
		for b := range reach(a.body) {
			armReach[a.k][b] = true
		}
	}
	var ks []string
	for k := range words {
		ks = append(ks, k)
	}
	sort.Strings(ks)
	n := 0
	for _, b := range sortedBlocks(li.body) {
		iff, ok := b.Instrs[len(b.Instrs)-1].(*ssa.If)
		if !ok || b.Succs[0] == b.Succs[1] {
			continue
		}
		for i := 0; i < 2; i++ {
			if !c.onlyErrorExit(b.Succs[1-i]) || c.onlyErrorExit(b.Succs[i]) {
				continue
			}
			var fs []Fact
			f.condFacts(iff.Cond, i == 0, &fs)
			if len(fs) == 0 {
				continue
			}
			// all facts over the single atom "attr.length"
			okShape := true
			for _, ft := range fs {
				if len(ft.L.T) != 1 {
					okShape = false
				}
				for a := range ft.L.T {
					d := f.atomDef(a)
					if d == nil {
						okShape = false
						continue
					}
					if _, fld, isF := fieldLoad(d); !isF || fld != "length" {
						okShape = false
					}
				}
			}
			if !okShape {
				continue
			}
			what := "length test"
			if cv, isIns := iff.Cond.(ssa.Instruction); isIns {
				what = c.SrcExpr(cv)
			}
			for _, k := range ks {
				// the test applies to type k when k's arm reaches it, or when it sits in front of the dispatch
				applies := armReach[k][b] || (firstTest != nil && b.Dominates(firstTest) && b != firstTest)
				if !applies {
					continue
				}
				d := words[k]
				n++
				bad := int64(-1)
				for L := d.lo; L <= d.hi && bad < 0; L++ {
					for _, ft := range fs {
						var v int64 = ft.L.C
						for _, coef := range ft.L.T {
							v += coef * L
						}
						if (ft.NE && v == 0) || (!ft.NE && v < 0) {
							bad = L
						}
					}
				}
				key := fmt.Sprintf("%s: %s", names[k], what)
				if bad >= 0 {
					r.bad(rule, key, c.InstrPos(iff), fmt.Sprintf("the decoder refuses %s with length octet %d, which the encoder produces for a value the setter accepts (length octets %d..%d on the domain)", names[k], bad, d.lo, d.hi))
				} else {
					r.ok(rule, key, c.InstrPos(iff), fmt.Sprintf("passes every length octet of the domain (%d..%d)", d.lo, d.hi), true)
				}
			}
		}
	}
	if n == 0 {
		r.undecided(rule, "no length test found", c.Pos(um.Pos()), "the decoder has no test of the attribute length octet against a constant (expected at least the ones of the fixed-size attributes)")
	}
}
