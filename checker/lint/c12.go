package lint

import (
	"fmt"
	"go/token"
	"go/types"
	"strings"

	"ikeverif/checker/xt/ssa"
)

// RunC12 decides property C12.
func RunC12(c *Ctx, r *Report) {
	prefix := "C12."
	r.Explanation = "Structural necessary conditions of decode/encode stability on the wire-slot tables: R ⊆ W — the decoder stores no field bit and no octet string that the encoder does not emit from that very field at that very wire position (so nothing the decoder keeps is lost or moved by re-encoding); no decode-only fields; every field bit within the domain width is emitted; octets the decoder consumes without storing are exactly the regions the encoder regenerates (reserved zeros, markers, lengths: rule constants/length of C05, referenced); EAP-AKA' token sequences align and only zero padding is dropped."
	r.TrustedBase = append(r.TrustedBase, "go/types and go/ssa (x/tools v0.29.0)", "the checker's bit-provenance and linear-form engines")
	r.Assumptions = append(r.Assumptions, "encoding is deterministic (C20)")
	r.NotDecided = append(r.NotDecided, "the fixed-point claim for arbitrary accepted inputs whose lengths/counts are inconsistent (e.g. a Delete payload whose SPI count differs from the SPIs present: the encoder then refuses)", "byte identity for canonical datagrams follows from R ⊆ W, W ⊆ R (C03) and W = spec (C05) for fixed-offset parts only")
	w := c.slotWorld(r, prefix)
	if w == nil {
		return
	}
	r.Rule(prefix+"r-subset-w", "every field bit / octet string the decoder stores is emitted by the encoder from the same field at the same wire position (R ⊆ W)", 60)
	w.inclusion(r, prefix+"r-subset-w", w.dec, w.enc, "the decoder", "the encoder", "re-encoding the decoded message does not reproduce it")
	w.unresolvedRule(r, prefix+"resolved", true, true)
	w.coverageRule(r, prefix+"no-decode-only-fields")
	w.completeRule(r, prefix+"complete", "e")
	w.perFunctionRule(r, prefix+"siblings.shared-record")
	r.Rule(prefix+"canonical-identity", "W ⊆ R: what the encoder writes is what the decoder reads back, so that re-encoding a canonical datagram is byte-identical (together with R ⊆ W and the regenerated constants/lengths)", 60)
	w.inclusion(r, prefix+"canonical-identity", w.enc, w.dec, "the encoder", "the decoder", "re-encoding a canonical datagram would not be byte-identical")
	// canonical datagrams come from an independent encoder: every wire bit the reference layout gives to a field
	// is kept by the decoder at full width (a field type narrower than its wire slot drops the upper bits on decode
	// and re-encodes zeros there; the encoder and decoder of this library still agree with each other)
	r.Rule(prefix+"r-equals-spec", "decoder layout = RFC layout for every field and octet string: no bit of a wire field is dropped, no reserved bit reaches a field", 60)
	w.specCompare(r, prefix+"r-equals-spec", "decode", w.dec)
	w.lengthSlotRule(r, prefix+"length-slots")
	w.listStrideAgreement(r, prefix+"list-stride-agreement")
	w.nestedDispatchRule(r, prefix+"nested-dispatch")
	c.akaRules(r, prefix, "stability")
	c.akaPaddingRule(r, prefix)
	c.akaEmitsAllRule(r, prefix+"aka.emits-every-attribute")
	// the type a payload is re-announced under is the type it was dispatched from
	c.bijectionRule(r, prefix+"dispatch.ike", c.Method("message", "IKEPayloadContainer", "Decode"), "message", "IKEPayload", "Type", 16)
	c.bijectionRule(r, prefix+"dispatch.eap", c.Method("eap", "EAP", "Unmarshal"), "eap", "EapTypeData", "Type", 5)
	c.noSilentSkipRule(r, prefix+"decode.no-silent-skip", "eap", "message")
	c.encodeOwnHeaderRule(r, prefix+"encode-own-header")
	c.elementFreshRule(r, prefix+"decode.element-fresh")
	c.counterNoWrapRule(r, prefix+"codec.counter-no-wrap")
	c.guardedNarrowingRule(r, prefix+"encode.guarded-narrowing")
	c.akaOrderRule(r, prefix+"aka.order")
	// decoding is a function of the octets, not of what an earlier call left in the object decoded into
	dscope := c.DecodeScope(r, prefix)
	c.decodeInputOnlyRule(r, prefix+"decode.input-only", dscope)
	c.noTruncateInPlaceRule(r, prefix+"decode.no-truncate-in-place", dscope)
}

// RunC14 decides property C14.
func RunC14(c *Ctx, r *Report) {
	prefix := "C14."
	r.Explanation = "EAP framing on wire-slot tables and token sequences: for the EAP header and the Identity / Notification / Nak / Expanded method bodies W ⊆ R, R ⊆ W and both equal the RFC 3748 layout (length slot = final packet length, 24-bit vendor id on both sides, type octet constants); Success/Failure are exactly the 4-octet header on both sides; EAP-AKA': setter size guards equal the reference (RAND/AUTN/MAC 16, KDF 2, RES 4..16 octets, bit length = 8*len), attribute case sets agree, token sequences agree per case, the encoder emits zero padding up to the declared length, Marshal iterates the attribute map through the collect-then-sort idiom (identical bytes on repeated encoding) and GetAttr's map range is order-insensitive."
	r.TrustedBase = append(r.TrustedBase, "go/types and go/ssa (x/tools v0.29.0)", "the checker's bit-provenance, linear-form and token engines", "spec/wire_layout.json (RFC 3748 4-5)")
	r.NotDecided = append(r.NotDecided, "the words/bits arithmetic relating the attribute length octet to the value length (modular, value-level)", "'the value read back is exactly the value set' beyond: the setter copies the value unpadded and GetValue returns that field")
	w := c.slotWorld(r, prefix)
	if w == nil {
		return
	}
	eapOnly := func(m map[string]*normTable) map[string]*normTable {
		out := map[string]*normTable{}
		for k, v := range m {
			if strings.HasPrefix(k, "eap.") {
				out[k] = v
			}
		}
		return out
	}
	we := &slotWorld{c: w.c, ws: &wireSpec{Records: map[string]*specRecord{}}, st: w.st, dec: eapOnly(w.dec), enc: eapOnly(w.enc)}
	for k, v := range w.ws.Records {
		if strings.HasPrefix(k, "eap.") {
			we.ws.Records[k] = v
			we.recs = append(we.recs, k)
		}
	}
	sortStrings(we.recs)
	r.Rule(prefix+"eap.w-subset-r", "EAP records: W ⊆ R", 5)
	we.inclusion(r, prefix+"eap.w-subset-r", we.enc, we.dec, "the encoder", "the decoder", "a value written there does not come back unchanged")
	r.Rule(prefix+"eap.w-equals-spec", "EAP records: encoder layout = RFC 3748 layout", 5)
	we.specCompare(r, prefix+"eap.w-equals-spec", "encode", we.enc)
	r.Rule(prefix+"eap.r-equals-spec", "EAP records: decoder layout = RFC 3748 layout", 5)
	we.specCompare(r, prefix+"eap.r-equals-spec", "decode", we.dec)
	we.nestedDispatchRule(r, prefix+"eap.nested-dispatch")
	c.akaEmitsAllRule(r, prefix+"aka.emits-every-attribute")
	c.bijectionRule(r, prefix+"dispatch.eap", c.Method("eap", "EAP", "Unmarshal"), "eap", "EapTypeData", "Type", 5)
	ruleA := prefix + "eap.values-copied"
	r.Rule(ruleA, "every octet string an EAP decoder stores is a copy of the input octets, not a sub-slice of the input (a value read back later is the value decoded, whatever happens to the receive buffer)", 4)
	for _, rec := range we.recs {
		t := w.st.Dec[rec]
		if t == nil {
			continue
		}
		for _, sg := range t.Segs {
			if sg.Field == "" || strings.HasPrefix(sg.Field, "call:") {
				continue
			}
			r.Check(!sg.Alias, ruleA, rec+": "+sg.Field, sg.Pos, "copied (append / copy)", "the field is a sub-slice of the input buffer")
		}
	}
	c.valueGuardRule(r, prefix+"value-guards")
	c.noSilentSkipRule(r, prefix+"decode.no-silent-skip", "eap")
	c.lostReceiverStoreRule(r, prefix+"set.receiver-by-pointer", "eap")
	c.setterAtomicRule(r, prefix+"set.refused-leaves-untouched")
	c.assignedNumbersRule(r, prefix+"assigned-numbers", "eap")
	// decoding is a function of the octets, not of what an earlier call left in the object decoded into
	{
		dscope := c.DecodeScope(r, prefix)
		c.decodeInputOnlyRule(r, prefix+"decode.input-only", dscope)
		c.noTruncateInPlaceRule(r, prefix+"decode.no-truncate-in-place", dscope)
	}
	// length slot and constants
	ruleL := prefix + "eap.length-and-type"
	r.Rule(ruleL, "the EAP length field carries the final packet length; each method body starts with its type octet constant (1, 2, 3, 254)", 5)
	if t := we.enc["eap.EAP"]; t != nil {
		ok := false
		for _, ls := range t.Lens {
			if ls.Off == 2 && ls.Octets == 2 && ls.Of == "len(record)" {
				ok = true
			}
		}
		r.Check(ok, ruleL, "eap.EAP length @2 w2 = len(packet)", "-", "written after the method data was appended", "the EAP length field is not the final packet length")
	}
	for _, rec := range we.recs {
		spec := we.ws.Records[rec]
		t := we.enc[rec]
		if t == nil || len(spec.Constants) == 0 {
			continue
		}
		want := map[string]bool{}
		for _, k := range spec.Constants {
			for i := 0; i < k.Octets*8; i++ {
				if (k.Value>>uint(i))&1 == 1 {
					wb := beBit(k.Off, k.Octets, i)
					want[fmt.Sprintf("%d.%d|", wb.Off, wb.Bit)] = true
				}
			}
		}
		same := len(want) == len(t.Ones)
		for k := range want {
			if !t.Ones[k] {
				same = false
			}
		}
		r.Check(same, ruleL, rec+" type octet", "-", fmt.Sprintf("constant %d", spec.Constants[0].Value), "the type octet written is not the RFC 3748 constant")
	}
	// decoders check the type octet
	for _, spec := range []struct{ typ, konst string }{{"EapIdentity", "EapTypeIdentity"}, {"EapNotification", "EapTypeNotification"}, {"EapNak", "EapTypeNak"}} {
		fn := c.Method("eap", spec.typ, "Unmarshal")
		k := c.constInt("eap", spec.konst)
		if fn == nil || k == nil {
			continue
		}
		okChk := false
		for _, b := range fn.Blocks {
			for _, ins := range b.Instrs {
				if v, ok := ins.(ssa.Value); ok {
					if bs, idx, isEl := isElemLoad(v); isEl && idx == 0 && paramIndex(fn, bs) == 1 {
						if c.constCheckedOf(v, 0) == fmt.Sprint(*k) {
							okChk = true
						}
					}
				}
			}
		}
		r.Check(okChk, ruleL, "eap."+spec.typ+" decoder checks its type octet", c.Pos(fn.Pos()), "octet 0 != "+fmt.Sprint(*k)+" is an error", "the decoder accepts a method body with a foreign type octet")
	}
	// Success / Failure
	c.eapSuccessFailureRule(r, prefix)
	// AKA'
	c.akaRules(r, prefix, "full")
	c.akaOrderRule(r, prefix+"aka.order")
	c.akaValueIdentityRule(r, prefix)
	c.akaPaddingRule(r, prefix)
}

// akaPaddingRule: C14 rule (also a necessary condition of C12: what the decoder skipped as padding is regenerated).
func (c *Ctx) akaPaddingRule(r *Report, prefix string) {
	// encoder pads to the declared length
	ruleP := prefix + "aka.padding"
	r.Rule(ruleP, "Marshal pads every attribute with zero octets up to 4*length: padding = 4*length - header - len(value), negative is an error", 1)
	if ma := c.Method("eap", "EapAkaPrime", "Marshal"); ma != nil {
		f := c.NewFA(ma)
		okP := false
		for _, b := range ma.Blocks {
			for _, ins := range b.Instrs {
				// the fill octets: a fresh zero slice handed to binary.Write or appended to the output
				mk, ok := ins.(*ssa.MakeSlice)
				if !ok || !isByteSlice(mk.Type()) {
					continue
				}
				emitted := false
				for _, ref := range *mk.Referrers() {
					switch u := ref.(type) {
					case *ssa.MakeInterface:
						for _, r2 := range *u.Referrers() {
							if call, ok := r2.(*ssa.Call); ok && staticCallTo(call, "encoding/binary.Write") != nil {
								emitted = true
							}
						}
					case *ssa.Call:
						// appended to the output under construction, not onto a field of the message
						if ap := isAppendCall(u); ap != nil && ap.Call.Args[1] == ssa.Value(mk) {
							if _, isField := fieldKeyOfLoad(ap.Call.Args[0]); !isField {
								emitted = true
							}
						}
						// written to the output buffer directly: buffer.Write(make([]byte, n))
						if g := u.Call.StaticCallee(); g != nil && g.String() == "(*bytes.Buffer).Write" && len(u.Call.Args) == 2 && u.Call.Args[1] == ssa.Value(mk) {
							emitted = true
						}
					}
				}
				if !emitted {
					continue
				}
				// len = 4*int(length) - hdr - len(value)
				l := f.LFOf(mk.Len)
				hasLen4, hasVal := false, false
				for a, k := range l.T {
					d := f.atomDef(a)
					if k == 4 && d != nil {
						if _, fld, ok := fieldLoad(d); ok && fld == "length" {
							hasLen4 = true
						}
					}
					if k == -1 && f.fieldOfLenAtom(a) != "" && strings.HasSuffix(f.fieldOfLenAtom(a), ".value") {
						hasVal = true
					}
				}
				// no stores into the padding buffer: zeros
				clean := true
				for _, ref := range *mk.Referrers() {
					if _, ok := ref.(*ssa.IndexAddr); ok {
						clean = false
					}
				}
				if hasLen4 && hasVal && clean {
					okP = true
				}
			}
		}
		// or: a loop that appends one zero octet per round, count = 4*length - header - len(value)
		if !okP {
			for _, li := range naturalLoops(ma) {
				iff, ok := li.header.Instrs[len(li.header.Instrs)-1].(*ssa.If)
				if !ok {
					continue
				}
				cond, ok := iff.Cond.(*ssa.BinOp)
				if !ok || (cond.Op != token.LSS && cond.Op != token.GTR) {
					continue
				}
				ph, ok := cond.X.(*ssa.Phi)
				if !ok || ph.Block() != li.header {
					continue
				}
				zeroStart, stepOne := false, false
				var countLF *LF
				if cond.Op == token.GTR {
					// counting down: for ; n > 0; n-- with n = the number of fill octets
					if k, isK := cond.Y.(*ssa.Const); !isK || k.Value == nil || k.Value.ExactString() != "0" {
						continue
					}
					for i, e := range ph.Edges {
						if li.body[li.header.Preds[i]] {
							if bo, ok := e.(*ssa.BinOp); ok && bo.Op == token.SUB && bo.X == ssa.Value(ph) {
								if k, ok := bo.Y.(*ssa.Const); ok && k.Value != nil && k.Value.ExactString() == "1" {
									stepOne = true
								}
							}
							continue
						}
						l0 := f.LFOf(e)
						countLF = &l0
						zeroStart = true
					}
				}
				for _, e := range ph.Edges {
					if cond.Op == token.GTR {
						break
					}
					if k, ok := e.(*ssa.Const); ok {
						if kv, _ := constInt64(k.Value); kv == 0 {
							zeroStart = true
						}
					} else if bo, ok := e.(*ssa.BinOp); ok && bo.Op == token.ADD && bo.X == ssa.Value(ph) {
						if k, ok := bo.Y.(*ssa.Const); ok {
							if kv, _ := constInt64(k.Value); kv == 1 {
								stepOne = true
							}
						}
					}
				}
				zeros := 0
				other := false
				for b := range li.body {
					for _, ins := range b.Instrs {
						call, ok := ins.(*ssa.Call)
						if !ok {
							continue
						}
						ap := isAppendCall(call)
						if ap == nil {
							if _, isB := call.Call.Value.(*ssa.Builtin); !isB {
								other = true
							}
							continue
						}
						if parts, ok := c.concatOf(f, ap, nil, 0); ok && len(parts) >= 1 {
							last := parts[len(parts)-1]
							if k, isK := last.Val.(*ssa.Const); last.Kind == "byte" && isK && k.Value != nil && k.Value.ExactString() == "0" {
								zeros++
								continue
							}
						}
						other = true
					}
				}
				if !zeroStart || !stepOne || zeros != 1 || other {
					continue
				}
				l := f.LFOf(cond.Y)
				if countLF != nil {
					l = *countLF
				}
				hasLen4, hasVal := false, false
				for a, k := range l.T {
					d := f.atomDef(a)
					if k == 4 && d != nil {
						if _, fld, ok := fieldLoad(d); ok && fld == "length" {
							hasLen4 = true
						}
					}
					if k == -1 && f.fieldOfLenAtom(a) != "" && strings.HasSuffix(f.fieldOfLenAtom(a), ".value") {
						hasVal = true
					}
				}
				if hasLen4 && hasVal {
					okP = true
				}
			}
		}
		// or: a zeroed buffer of the final size filled at a cursor that moves by 4*length per attribute; what the
		// writes (laid back to back from the cursor on, see the token rule) leave untouched up to there is the fill
		if !okP {
			var buf *ssa.MakeSlice
			for _, b := range ma.Blocks {
				if ret, ok := b.Instrs[len(b.Instrs)-1].(*ssa.Return); ok && len(ret.Results) >= 1 {
					if mk, ok := ret.Results[0].(*ssa.MakeSlice); ok && isByteSlice(mk.Type()) && mk.Len == mk.Cap {
						buf = mk
					}
				}
			}
			if buf != nil {
				for _, li := range naturalLoops(ma) {
					for _, ins := range li.header.Instrs {
						ph, ok := ins.(*ssa.Phi)
						if !ok {
							break
						}
						if !isIntType(ph.Type()) {
							continue
						}
						// the cursor indexes the buffer
						used := false
						for _, b := range sortedBlocks(li.body) {
							for _, i2 := range b.Instrs {
								var pos ssa.Value
								switch x := i2.(type) {
								case *ssa.IndexAddr:
									if x.X == ssa.Value(buf) {
										pos = x.Index
									}
								case *ssa.Slice:
									if x.X == ssa.Value(buf) {
										pos = x.Low
									}
								}
								if pos != nil {
									if _, has := f.unwrapOffset(f.LFOf(pos)).T[f.phiAtom(ph)]; has {
										used = true
									}
								}
							}
						}
						if !used {
							continue
						}
						all := true
						n := 0
						for i, e := range ph.Edges {
							if !li.body[li.header.Preds[i]] {
								continue
							}
							n++
							step := f.unwrapOffset(f.LFOf(e)).add(f.LFOf(ph), -1)
							okStep := len(step.T) == 1 && step.C == 0
							for a, k := range step.T {
								d := f.atomDef(a)
								_, fld, isF := fieldLoad(d)
								if k != 4 || d == nil || !isF || fld != "length" {
									okStep = false
								}
							}
							if !okStep {
								all = false
							}
						}
						if all && n > 0 {
							okP = true
						}
					}
				}
			}
		}
		// negative padding is an error
		negErr := false
		// in whatever spelling: some test whose passing side says 4*length - ... - len(value) >= 0 and whose other
		// side only fails
		for _, b := range ma.Blocks {
			iff, ok := b.Instrs[len(b.Instrs)-1].(*ssa.If)
			if !ok || b.Succs[0] == b.Succs[1] {
				continue
			}
			for i := 0; i < 2; i++ {
				if !c.onlyErrorExit(b.Succs[1-i]) {
					continue
				}
				var fs []Fact
				f.condFacts(iff.Cond, i == 0, &fs)
				for _, ft := range fs {
					if ft.NE {
						continue
					}
					hasLen4, hasVal := false, false
					for a, k := range ft.L.T {
						if d := f.atomDef(a); k == 4 && d != nil {
							if _, fld, ok := fieldLoad(d); ok && fld == "length" {
								hasLen4 = true
							}
						}
						if k == -1 && f.fieldOfLenAtom(a) != "" && strings.HasSuffix(f.fieldOfLenAtom(a), ".value") {
							hasVal = true
						}
					}
					if hasLen4 && hasVal {
						negErr = true
					}
				}
			}
		}
		for _, b := range ma.Blocks {
			if iff, ok := b.Instrs[len(b.Instrs)-1].(*ssa.If); ok {
				if cond, ok := iff.Cond.(*ssa.BinOp); ok && cond.Op == token.LSS {
					if k, ok := cond.Y.(*ssa.Const); ok {
						if kv, _ := constInt64(k.Value); kv == 0 && c.onlyErrorExit(b.Succs[0]) {
							negErr = true
						}
					}
				}
			}
		}
		r.Check(okP && negErr, ruleP, "(*eap.EapAkaPrime).Marshal", c.Pos(ma.Pos()), "binary.Write(make([]byte, 4*length - header - len(value))); a negative count is an error", "attributes are not padded with zeros to the length they declare")
	}
}

func sortStrings(a []string) {
	for i := 1; i < len(a); i++ {
		for j := i; j > 0 && a[j] < a[j-1]; j-- {
			a[j], a[j-1] = a[j-1], a[j]
		}
	}
}

// eapSuccessFailureRule: C14 rule 2.
func (c *Ctx) eapSuccessFailureRule(r *Report, prefix string) {
	rule := prefix + "eap.success-failure"
	r.Rule(rule, "a packet without method data is exactly the 4-octet header: the encoder appends method data only when it is present; the decoder returns successfully when length = 4 before touching octet 4", 2)
	ma := c.Method("eap", "EAP", "Marshal")
	um := c.Method("eap", "EAP", "Unmarshal")
	if ma == nil || um == nil {
		r.undecided(rule, "anchors", "-", "EAP Marshal/Unmarshal do not resolve")
		return
	}
	// encoder: the invoke of EapTypeData.Marshal is dominated by EapTypeData != nil
	okE := false
	for _, b := range ma.Blocks {
		for _, ins := range b.Instrs {
			call, ok := ins.(*ssa.Call)
			if !ok || !call.Call.IsInvoke() || call.Call.Method.Name() != "Marshal" {
				continue
			}
			for x := b; x != nil; x = x.Idom() {
				if len(x.Preds) != 1 {
					continue
				}
				p := x.Preds[0]
				if iff, ok := p.Instrs[len(p.Instrs)-1].(*ssa.If); ok && p.Succs[0] == x {
					if cond, ok := iff.Cond.(*ssa.BinOp); ok && cond.Op == token.NEQ && isNilConst(cond.Y) {
						if _, fld, ok := fieldLoad(cond.X); ok && fld == "EapTypeData" {
							okE = true
						}
					}
				}
			}
		}
	}
	r.Check(okE, rule, "(*eap.EAP).Marshal: method data only when present", c.Pos(ma.Pos()), "guarded by EapTypeData != nil; otherwise the packet is the 4-octet header", "method data is appended unconditionally")
	// decoder: success return on length == 4 dominating no load of b[4]
	f := c.NewFA(um)
	okD := false
	for _, b := range um.Blocks {
		iff, ok := b.Instrs[len(b.Instrs)-1].(*ssa.If)
		if !ok {
			continue
		}
		cond, ok := iff.Cond.(*ssa.BinOp)
		if !ok || cond.Op != token.EQL {
			continue
		}
		lenSide, kSide := cond.X, cond.Y
		if _, isK := lenSide.(*ssa.Const); isK {
			lenSide, kSide = kSide, lenSide
		}
		k, ok := kSide.(*ssa.Const)
		if !ok {
			continue
		}
		if kv, _ := constInt64(k.Value); kv != 4 {
			continue
		}
		// the compared value must be the length slot: Uint16(b[2:4]), or the same two octets joined by shifts
		for {
			cv, ok := lenSide.(*ssa.Convert)
			if !ok {
				break
			}
			from, ok1 := typeBits(cv.X.Type())
			to, ok2 := typeBits(cv.Type())
			if !ok1 || !ok2 || from > to || !isUnsignedType(cv.X.Type()) {
				break // only value-preserving widenings are looked through
			}
			lenSide = cv.X
		}
		x := newBVCtx(c, f)
		id, isW := x.wireLeafOf(lenSide)
		if !isW {
			id, isW = x.wireGroupOf(lenSide)
		}
		if !isW {
			// len(b) itself, where the dominating tests have made it equal to the length slot
			if lc, isCall := lenSide.(*ssa.Call); isCall {
				if bi, isB := lc.Call.Value.(*ssa.Builtin); isB && bi.Name() == "len" && paramIndex(um, lc.Call.Args[0]) == 1 {
					for _, bb := range um.Blocks {
						for _, ins := range bb.Instrs {
							v, isV := ins.(ssa.Value)
							if !isV || !dominatesInstr(ins, iff) {
								continue
							}
							id2, ok2 := x.wireLeafOf(v)
							if !ok2 {
								id2, ok2 = x.wireGroupOf(v)
							}
							if ok2 && x.leaves[id2].Off.isConst() && x.leaves[id2].Off.C == 2 && x.leaves[id2].Octets == 2 && paramIndex(um, x.leaves[id2].Root) == 1 {
								if f.EqualAt(f.SliceLen(lc.Call.Args[0]), f.LFOf(v), b) {
									id, isW = id2, true
								}
							}
						}
					}
				}
			}
		}
		if !isW || !x.leaves[id].Off.isConst() || x.leaves[id].Off.C != 2 || x.leaves[id].Octets != 2 || paramIndex(um, x.leaves[id].Root) != 1 {
			continue
		}
		if ret, ok := b.Succs[0].Instrs[len(b.Succs[0].Instrs)-1].(*ssa.Return); ok && isNilConst(ret.Results[0]) {
			// every load of octet 4 and beyond (directly or through a re-slicing of b) is in blocks dominated by
			// the other successor
			all := true
			for _, bb := range um.Blocks {
				for _, ins := range bb.Instrs {
					v, ok := ins.(ssa.Value)
					if !ok {
						continue
					}
					bs, idx, isEl := isElemLoadAny(v)
					if !isEl || !isByteSlice(bs.Type()) {
						continue
					}
					root, lo, _, _ := f.relSpan(bs)
					if paramIndex(um, root) != 1 {
						continue
					}
					if _, hi := f.bounds(lo.add(f.LFOf(idx), 1), nil); hi >= 4 && !b.Succs[1].Dominates(bb) {
						all = false
					}
				}
			}
			okD = all
		}
	}
	r.Check(okD, rule, "(*eap.EAP).Unmarshal: length 4 returns before octet 4 is read", c.Pos(um.Pos()), "if length == 4 { return nil } dominates the method dispatch", "a 4-octet packet is not accepted as Success/Failure before the method type is read")
}

// akaOrderRule: C14 rule 5/6 (also used by C12: repeated encodings must agree).
func (c *Ctx) akaOrderRule(r *Report, ruleO string) {
	r.Rule(ruleO, "every range over the EAP-AKA' attribute map is order-insensitive: Marshal iterates sorted keys (collect-then-sort), GetAttr returns on a unique key match", 2)
	for _, fn := range c.ModFuncs {
		root := fn
		for root.Parent() != nil {
			root = root.Parent()
		}
		if root.Pkg == nil || root.Pkg.Pkg.Path() != ModulePath+"/eap" {
			continue
		}
		for _, b := range fn.Blocks {
			for _, ins := range b.Instrs {
				rg, ok := ins.(*ssa.Range)
				if !ok {
					continue
				}
				if _, isMap := rg.X.Type().Underlying().(*types.Map); !isMap {
					continue
				}
				why, ok2 := c.mapRangeOrderInsensitive(fn, rg)
				r.Check(ok2, ruleO, c.FuncName(fn)+": "+c.SrcExpr(ins), c.InstrPos(ins), why, "map iteration order can influence the result: "+why)
			}
		}
	}
	// Marshal uses the sorted keys
	if ma := c.Method("eap", "EapAkaPrime", "Marshal"); ma != nil {
		gk := c.Method("eap", "EapAkaPrime", "getAttrsKeys")
		okS := false
		if gk == nil {
			// the key collection was folded into Marshal: the attributes are looked up by keys read from a
			// slice that went through a sort call before the look-up (the range over the map that fills the
			// slice is covered by the order-insensitivity check above)
			for _, b := range ma.Blocks {
				for _, ins := range b.Instrs {
					lk, ok := ins.(*ssa.Lookup)
					if !ok {
						continue
					}
					if _, fld, isF := fieldLoad(lk.X); !isF || fld != "attributes" {
						continue
					}
					u, ok := lk.Index.(*ssa.UnOp)
					if !ok {
						continue
					}
					ia, ok := u.X.(*ssa.IndexAddr)
					if !ok {
						continue
					}
					for _, b2 := range ma.Blocks {
						for _, i2 := range b2.Instrs {
							call, ok := i2.(*ssa.Call)
							if !ok {
								continue
							}
							cal := call.Call.StaticCallee()
							if cal == nil || !(strings.HasPrefix(cal.String(), "sort.") || strings.HasPrefix(cal.String(), "slices.Sort")) {
								continue
							}
							arg := call.Call.Args[0]
							if mi, ok := arg.(*ssa.MakeInterface); ok {
								arg = mi.X
							}
							same := arg == ia.X
							if !same {
								// two loads of one local cell (a slice variable captured by the sort closure)
								la, ok1 := arg.(*ssa.UnOp)
								lb, ok2 := ia.X.(*ssa.UnOp)
								if ok1 && ok2 && la.Op == token.MUL && lb.Op == token.MUL && la.X == lb.X {
									if al, ok := la.X.(*ssa.Alloc); ok {
										same = true
										for _, ref := range *al.Referrers() {
											// no store to the cell can execute after the sort
											if st, ok := ref.(*ssa.Store); ok && st.Addr == ssa.Value(al) {
												if st.Block() == call.Block() {
													if instrIndex(st) > instrIndex(call) {
														same = false
													}
												} else if blockReaches(call.Block(), st.Block()) {
													same = false
												}
											}
										}
									}
								}
							}
							if same && dominatesInstr(call, lk) {
								okS = true
							}
						}
					}
				}
			}
			r.Check(okS, ruleO, "(*eap.EapAkaPrime).Marshal iterates the sorted keys", c.Pos(ma.Pos()), "attributes are looked up by the elements of a slice sorted beforehand", "Marshal does not iterate a sorted key list")
			return
		}
		if gk != nil {
			for _, call := range c.callsTo(ma, gk) {
				// the loop ranges over the result
				for _, ref := range *call.Referrers() {
					switch ref.(type) {
					case *ssa.Call, *ssa.IndexAddr, *ssa.Range:
						okS = true
					}
				}
			}
		}
		// and never ranges over the map itself
		for _, b := range ma.Blocks {
			for _, ins := range b.Instrs {
				if rg, ok := ins.(*ssa.Range); ok {
					if _, isMap := rg.X.Type().Underlying().(*types.Map); isMap {
						okS = false
					}
				}
			}
		}
		r.Check(okS, ruleO, "(*eap.EapAkaPrime).Marshal iterates getAttrsKeys()", c.Pos(ma.Pos()), "attributes are emitted in ascending type order", "Marshal does not iterate the sorted key list")
	}
}

// encodeOwnHeaderRule: IKEMessage.Encode serialises the message's own header object (the receiver's
// IKEHeader field), not a header rebuilt from some of its fields: every field the header codec handles
// (versions, all flag bits) then comes from the message.
func (c *Ctx) encodeOwnHeaderRule(r *Report, rule string) {
	r.Rule(rule, "IKEMessage.Encode calls IKEHeader.Marshal on the header stored in the message (m.IKEHeader)", 1)
	enc := c.Method("message", "IKEMessage", "Encode")
	hm := c.Method("message", "IKEHeader", "Marshal")
	if enc == nil || hm == nil {
		r.undecided(rule, "anchors", "-", "IKEMessage.Encode / IKEHeader.Marshal do not resolve")
		return
	}
	calls := c.callsTo(enc, hm)
	ok := len(calls) >= 1
	detail := fmt.Sprintf("%d call(s) of IKEHeader.Marshal", len(calls))
	for _, call := range calls {
		base, fld, isF := fieldLoad(call.Call.Args[0])
		if !isF || fld != "IKEHeader" || paramIndex(enc, base) != 0 {
			ok = false
			detail = "the header that is marshalled is not the message's IKEHeader field"
		}
	}
	r.Check(ok, rule, "(*message.IKEMessage).Encode", c.Pos(enc.Pos()), "m.IKEHeader.Marshal()", detail)
}

// akaEmitsAllRule: the key list Marshal iterates is the key set of the attribute map: getAttrsKeys ranges
// over the map and appends every key unconditionally (so an attribute the decoder kept - of any type - is
// emitted again), and Marshal looks each key up in that same map.
func (c *Ctx) akaEmitsAllRule(r *Report, rule string) {
	r.Rule(rule, "getAttrsKeys collects every key of the attribute map (one range over the map, the append is not conditional), and Marshal emits the attribute of every collected key", 2)
	gk := c.Method("eap", "EapAkaPrime", "getAttrsKeys")
	ma := c.Method("eap", "EapAkaPrime", "Marshal")
	if gk == nil && ma != nil {
		gk = ma // the key collection was folded into Marshal: its collecting loop is looked for there
	}
	if gk == nil || ma == nil {
		r.undecided(rule, "anchors", "-", "getAttrsKeys / Marshal do not resolve")
		return
	}
	nRange, okAll, why := 0, true, ""
	for _, b := range gk.Blocks {
		for _, ins := range b.Instrs {
			rg, ok := ins.(*ssa.Range)
			if !ok {
				continue
			}
			if _, fld, isF := fieldLoad(rg.X); !isF || fld != "attributes" {
				continue
			}
			nRange++
			// the loop body: from the ok-edge of Next to the back edge, no further branching
			var loop *loopInfo
			for _, li := range naturalLoops(gk) {
				for _, r2 := range *rg.Referrers() {
					if n, ok := r2.(*ssa.Next); ok && li.body[n.Block()] {
						loop = li
					}
				}
			}
			if loop == nil {
				okAll, why = false, "cannot find the loop of the range"
				continue
			}
			nIf, nAppend := 0, 0
			for bb := range loop.body {
				if _, isIf := bb.Instrs[len(bb.Instrs)-1].(*ssa.If); isIf {
					nIf++
				}
				for _, i2 := range bb.Instrs {
					if call, ok := i2.(*ssa.Call); ok {
						if bi, ok := call.Call.Value.(*ssa.Builtin); ok && bi.Name() == "append" {
							nAppend++
						}
					}
					// keys[next] = key; next++ into a slice made with one slot per key
					if st, ok := i2.(*ssa.Store); ok {
						if a := indexedCollect(loop, st); a != nil && madeWithLenOf(a, rg.X) {
							nAppend++
						}
					}
				}
			}
			if nIf != 1 || nAppend != 1 {
				okAll, why = false, fmt.Sprintf("the collecting loop has %d branches and %d appends (expected the loop test and one append)", nIf, nAppend)
			}
		}
	}
	if nRange == 0 {
		// no range at all: the key space (one octet) walked upwards, every key that is present appended
		if why2, ok := c.walksKeySpace(gk); ok {
			r.ok(rule, "(*eap.EapAkaPrime).getAttrsKeys", c.Pos(gk.Pos()), why2, true)
			nRange, okAll = -1, true
		} else {
			why = why2
		}
	}
	if nRange >= 0 {
		r.Check(nRange == 1 && okAll, rule, "(*eap.EapAkaPrime).getAttrsKeys", c.Pos(gk.Pos()), "one range over eapAkaPrime.attributes, every key appended", fmt.Sprintf("%d range(s) over the attribute map; %s", nRange, why))
	}
	// Marshal: lookup in the same map by the iterated key
	okL := false
	for _, b := range ma.Blocks {
		for _, ins := range b.Instrs {
			if lk, ok := ins.(*ssa.Lookup); ok {
				if _, fld, isF := fieldLoad(lk.X); isF && fld == "attributes" {
					okL = true
				}
			}
		}
	}
	r.Check(okL, rule, "(*eap.EapAkaPrime).Marshal looks the keys up in the attribute map", c.Pos(ma.Pos()), "attributes[key]", "Marshal does not read the attributes of the collected keys from the map")
}

// walksKeySpace: fn has a loop whose counter runs from 0 by 1 over every value of the map's key type (an
// unsigned 8-bit type: 0..255), looks the counter (converted to the key type) up in the attribute map with the
// comma-ok form and appends it on the ok edge, with no other branch in the loop.
func (c *Ctx) walksKeySpace(fn *ssa.Function) (string, bool) {
	for _, li := range naturalLoops(fn) {
		h := li.header
		iff, ok := h.Instrs[len(h.Instrs)-1].(*ssa.If)
		if !ok {
			continue
		}
		cmp, ok := iff.Cond.(*ssa.BinOp)
		if !ok || !li.body[h.Succs[0]] || li.body[h.Succs[1]] {
			continue
		}
		ctr, ok := cmp.X.(*ssa.Phi)
		if !ok || ctr.Block() != h {
			continue
		}
		k, ok := cmp.Y.(*ssa.Const)
		if !ok || k.Value == nil {
			continue
		}
		// counter 0, +1
		good := true
		for i, e := range ctr.Edges {
			if li.body[h.Preds[i]] {
				bo, ok := e.(*ssa.BinOp)
				if !ok || bo.Op != token.ADD || bo.X != ssa.Value(ctr) {
					good = false
					break
				}
				if one, ok := bo.Y.(*ssa.Const); !ok || one.Value == nil || one.Value.ExactString() != "1" {
					good = false
				}
				continue
			}
			if z, ok := e.(*ssa.Const); !ok || z.Value == nil || z.Value.ExactString() != "0" {
				good = false
			}
		}
		if !good {
			continue
		}
		// the look-up
		var lk *ssa.Lookup
		nIf := 0
		for _, b := range sortedBlocks(li.body) {
			if _, isIf := b.Instrs[len(b.Instrs)-1].(*ssa.If); isIf {
				nIf++
			}
			for _, ins := range b.Instrs {
				if x, ok := ins.(*ssa.Lookup); ok && x.CommaOk {
					if _, fld, isF := fieldLoad(x.X); isF && fld == "attributes" {
						lk = x
					}
				}
			}
		}
		if lk == nil {
			continue
		}
		mt := lk.X.Type().Underlying().(*types.Map)
		kb, isBasic := mt.Key().Underlying().(*types.Basic)
		if !isBasic || kb.Kind() != types.Uint8 {
			return "the key type of the attribute map is not an octet: its values cannot be enumerated by a loop", false
		}
		// the bound covers 0..255: ctr <= 255 or ctr < 256, counter wider than the key
		if _, _, isInt := c.NewFA(fn).typeRange(ctr.Type()); !isInt {
			continue
		}
		if cb, ok := ctr.Type().Underlying().(*types.Basic); !ok || cb.Kind() == types.Uint8 || cb.Kind() == types.Int8 {
			continue
		}
		bound := k.Value.ExactString()
		if !(cmp.Op == token.LEQ && bound == "255") && !(cmp.Op == token.LSS && bound == "256") {
			return fmt.Sprintf("the walk over the key space stops at %s %s, not after 255", cmp.Op, bound), false
		}
		cv, ok := lk.Index.(*ssa.Convert)
		if !ok || cv.X != ssa.Value(ctr) {
			return "the key looked up is not the loop counter converted to the key type", false
		}
		// the ok edge appends that key; nothing else branches
		var okEx *ssa.Extract
		for _, ref := range *lk.Referrers() {
			if ex, isEx := ref.(*ssa.Extract); isEx && ex.Index == 1 {
				okEx = ex
			}
		}
		if okEx == nil || nIf != 2 {
			return fmt.Sprintf("the walk has %d branches (expected the loop test and the presence test)", nIf), false
		}
		var okIf *ssa.If
		for _, ref := range *okEx.Referrers() {
			if i2, isIf := ref.(*ssa.If); isIf && i2.Cond == ssa.Value(okEx) {
				okIf = i2
			}
		}
		if okIf == nil {
			return "the presence flag of the look-up is not what the walk branches on", false
		}
		then := okIf.Block().Succs[0]
		appended := false
		for _, ins := range then.Instrs {
			call, isCall := ins.(*ssa.Call)
			if !isCall {
				continue
			}
			if bi, isB := call.Call.Value.(*ssa.Builtin); !isB || bi.Name() != "append" {
				continue
			}
			if sl, isSl := call.Call.Args[1].(*ssa.Slice); isSl {
				if al, isAl := sl.X.(*ssa.Alloc); isAl {
					for _, ref := range *al.Referrers() {
						if ia, isIA := ref.(*ssa.IndexAddr); isIA {
							for _, r2 := range *ia.Referrers() {
								if st, isSt := r2.(*ssa.Store); isSt && st.Val == ssa.Value(cv) {
									appended = true
								}
							}
						}
					}
				}
			}
		}
		if !appended {
			return "a key that is present is not appended", false
		}
		return "the key space 0..255 is walked upwards and every key present in eapAkaPrime.attributes is appended", true
	}
	return "no range over the attribute map and no walk over its key space", false
}

// madeWithLenOf: every value stored into the slice variable a is make([]T, len(m)) for the ranged map m (the same
// field load class), so that the k-th key has slot k and no slot is left over.
func madeWithLenOf(a *ssa.Alloc, m ssa.Value) bool {
	_, fld, isF := fieldLoad(m)
	n := 0
	for _, ref := range *a.Referrers() {
		st, ok := ref.(*ssa.Store)
		if !ok || st.Addr != ssa.Value(a) {
			continue
		}
		n++
		mk, ok := st.Val.(*ssa.MakeSlice)
		if !ok {
			return false
		}
		call, ok := mk.Len.(*ssa.Call)
		if !ok {
			return false
		}
		bi, ok := call.Call.Value.(*ssa.Builtin)
		if !ok || bi.Name() != "len" {
			return false
		}
		_, f2, isF2 := fieldLoad(call.Call.Args[0])
		if !isF || !isF2 || f2 != fld {
			return false
		}
	}
	return n == 1
}

// akaValueIdentityRule: the setter owns a copy of exactly the given octets and the getter returns that field.
func (c *Ctx) akaValueIdentityRule(r *Report, prefix string) {
	ruleV := prefix + "aka.value-identity"
	r.Rule(ruleV, "setAttr stores a fresh copy of exactly the given octets (no padding) and GetValue returns that field", 2)
	if sa := c.Method("eap", "EapAkaPrimeAttr", "setAttr"); sa != nil {
		f := c.NewFA(sa)
		var valParam *ssa.Parameter
		for _, p := range sa.Params {
			if isByteSlice(p.Type()) {
				valParam = p
			}
		}
		n, okAll := 0, true
		for _, b := range sa.Blocks {
			for _, ins := range b.Instrs {
				st, ok := ins.(*ssa.Store)
				if !ok {
					continue
				}
				fa, ok := st.Addr.(*ssa.FieldAddr)
				if !ok || !strings.HasSuffix(FieldKey(fa.X.Type(), fa.Field), ".value") {
					continue
				}
				n++
				// append(<empty fresh slice>, value...): nil, or make([]byte, 0[, n]) - the same private copy
				if ap := isAppendCall(st.Val); ap != nil && len(ap.Call.Args) == 2 && valParam != nil && ap.Call.Args[1] == ssa.Value(valParam) {
					base := ap.Call.Args[0]
					empty := isNilConst(base)
					if mk0, ok := base.(*ssa.MakeSlice); ok {
						if l := f.LFOf(mk0.Len); l.isConst() && l.C == 0 {
							empty = true
						}
					}
					if empty {
						continue
					}
				}
				mk, isMk := st.Val.(*ssa.MakeSlice)
				if !isMk || valParam == nil || f.pin(f.LFOf(mk.Len), f.FactsAt(b)).key() != f.pin(f.SliceLen(valParam), f.FactsAt(b)).key() {
					okAll = false
					continue
				}
				cp := false
				for _, cc := range copiesInto(mk) {
					if cc.Call.Args[1] == ssa.Value(valParam) {
						cp = true
					}
				}
				// copy(attr.value, value) through a reload of the field just stored
				for _, i2 := range b.Instrs[instrIndex(st)+1:] {
					if cc, ok := i2.(*ssa.Call); ok {
						if bi, ok := cc.Call.Value.(*ssa.Builtin); ok && bi.Name() == "copy" && cc.Call.Args[1] == ssa.Value(valParam) {
							if base, fld, ok := fieldLoad(cc.Call.Args[0]); ok && fld == "value" && base == fa.X {
								cp = true
							}
						}
					}
				}
				if !cp {
					okAll = false
				}
			}
		}
		r.Check(okAll && n > 0, ruleV, "(*eap.EapAkaPrimeAttr).setAttr", c.Pos(sa.Pos()), fmt.Sprintf("%d store(s) of make(len(value)) + copy(value)", n), "some case stores a value that is not an exact copy of the argument (e.g. padded)")
	}
	if gv := c.Method("eap", "EapAkaPrimeAttr", "GetValue"); gv != nil {
		ok := false
		for _, b := range gv.Blocks {
			if ret, isR := b.Instrs[len(b.Instrs)-1].(*ssa.Return); isR {
				_, fld, isF := fieldLoad(ret.Results[0])
				ok = isF && fld == "value"
			}
		}
		r.Check(ok, ruleV, "(*eap.EapAkaPrimeAttr).GetValue", c.Pos(gv.Pos()), "returns the value field", "GetValue does not return the stored value")
	}
}

// blockReaches: b is reachable from a by at least one edge.
func blockReaches(a, b *ssa.BasicBlock) bool {
	seen := map[*ssa.BasicBlock]bool{}
	st := append([]*ssa.BasicBlock(nil), a.Succs...)
	for len(st) > 0 {
		x := st[len(st)-1]
		st = st[:len(st)-1]
		if seen[x] {
			continue
		}
		seen[x] = true
		if x == b {
			return true
		}
		st = append(st, x.Succs...)
	}
	return false
}
