package lint

import (
	"fmt"
	"go/types"

	"ikeverif/checker/xt/ssa"
)

// RunC15 decides property C15.
func RunC15(c *Ctx, r *Report) {
	prefix := "C15."
	r.Explanation = "Shape of CalcEapAkaPrimeAtMAC: AT_MAC is set to 16 zero octets (whatever it held before) on the success edge that dominates the marshalling of the whole EAP packet; the HMAC is a fresh HMAC-SHA-256 keyed with the key parameter, written once with that encoding, and the result is Sum(nil)[:16]; the type assertion is guarded. Receive path: the MAC of a decoded packet is necessarily computed over a re-serialisation, because no field retains the received octets; whether that equals the transmitted octets is decided structurally (order-preserving container? reserved octets retained?)."
	r.TrustedBase = append(r.TrustedBase, "go/types and go/ssa (x/tools v0.29.0)", "the E2 prover (type assertion / slice bounds)")
	r.Assumptions = append(r.Assumptions, "crypto/hmac and crypto/sha256 are correct")
	r.NotDecided = append(r.NotDecided, "HMAC values; 'a different value if any octet of the packet or the key differs' (HMAC collision resistance)")
	fn := c.Method("eap", "EAP", "CalcEapAkaPrimeAtMAC")
	marshal := c.Method("eap", "EAP", "Marshal")
	initMAC := c.Method("eap", "EapAkaPrime", "initMAC")
	setAttr := c.Method("eap", "EapAkaPrime", "SetAttr")
	if fn == nil || marshal == nil || initMAC == nil || setAttr == nil {
		r.undecided(prefix+"anchor", "CalcEapAkaPrimeAtMAC / Marshal / initMAC / SetAttr", "-", "anchor does not resolve")
		return
	}
	c.macTotality(r, prefix)
	// the receiver computes the code over the packet it decoded: what it decoded is a function of the received
	// octets, not of attributes an earlier packet left in a reused object
	c.decodeInputOnlyRule(r, prefix+"decode.input-only", c.DecodeScope(r, prefix))
	// the receiver recomputes the code over a re-serialisation of the decoded packet: whatever the decoder
	// keeps must be emitted again, token by token and padded to the declared length
	c.akaRules(r, prefix, "stability")
	c.akaPaddingRule(r, prefix)
	c.akaEmitsAllRule(r, prefix+"aka.emits-every-attribute")
	c.akaKeepsAllRule(r, prefix+"aka.decode-keeps-every-attribute")
	c.akaValueIdentityRule(r, prefix)
	r.Func(c.FuncName(fn))
	r.Func(c.FuncName(initMAC))
	f := c.NewFA(fn)
	rule := prefix + "mac-shape"
	r.Rule(rule, "CalcEapAkaPrimeAtMAC = HMAC-SHA-256(key, Marshal(whole EAP packet with AT_MAC = Zero(16)))[:16]", 6)
	ic := c.callsTo(fn, initMAC)
	mc := c.callsTo(fn, marshal)
	if len(ic) != 1 || len(mc) != 1 {
		r.bad(rule, "one initMAC and one Marshal call", c.Pos(fn.Pos()), fmt.Sprintf("initMAC calls %d, Marshal calls %d", len(ic), len(mc)))
		return
	}
	// 1. initMAC ok dominates Marshal, on the asserted EAP-AKA' object of this packet
	okInit := onNilErrEdge(errResult(ic[0]), mc[0].Block())
	recvObj := ic[0].Call.Args[0]
	if ex, ok := recvObj.(*ssa.Extract); ok && ex.Index == 0 {
		recvObj = ex.Tuple // the checked form: p, ok := eap.EapTypeData.(*EapAkaPrime)
	}
	if ta, ok := recvObj.(*ssa.TypeAssert); ok {
		if base, fld, ok := fieldLoad(ta.X); !ok || fld != "EapTypeData" || paramIndex(fn, base) != 0 {
			okInit = false
		}
	} else {
		okInit = false
	}
	r.Check(okInit, rule, "AT_MAC is reset before the packet is marshalled", c.InstrPos(ic[0]), "initMAC() on this packet's EAP-AKA' data succeeded on every path to Marshal", "the packet can be marshalled without AT_MAC having been reset on it")
	// initMAC: SetAttr(AT_MAC, make([]byte, 16))
	okZero := false
	atMac := c.constInt("eap", "AT_MAC")
	for _, call := range c.callsTo(initMAC, setAttr) {
		k, ok := call.Call.Args[1].(*ssa.Const)
		kv := int64(-1)
		if ok {
			kv, _ = constInt64(k.Value)
		}
		fi := c.NewFA(initMAC)
		v := call.Call.Args[2]
		if atMac != nil && kv == *atMac && freshRoot(v) && len(copiesInto(v)) == 0 {
			if l := fi.SliceLen(v); l.isConst() && l.C == 16 {
				// no stores into the zero buffer
				clean := true
				for _, ref := range *v.Referrers() {
					if _, ok := ref.(*ssa.IndexAddr); ok {
						clean = false
					}
				}
				okZero = clean && paramIndex(initMAC, call.Call.Args[0]) == 0
			}
		}
		// result returned
		for _, b := range initMAC.Blocks {
			if ret, ok := b.Instrs[len(b.Instrs)-1].(*ssa.Return); ok && ret.Results[0] != ssa.Value(call) {
				okZero = false
			}
		}
	}
	r.Check(okZero, rule, "initMAC sets AT_MAC to 16 zero octets", c.Pos(initMAC.Pos()), "SetAttr(AT_MAC, make([]byte, 16)) and its error is returned", "initMAC does not set AT_MAC to a fresh all-zero 16-octet value")
	// 2. input = Marshal of the receiver (whole packet)
	r.Check(paramIndex(fn, mc[0].Call.Args[0]) == 0, rule, "the MAC covers the whole EAP packet", c.InstrPos(mc[0]), "eap.Marshal() of the packet itself (header, type, subtype, all attributes)", "the bytes MAC'd are not the marshalling of the whole EAP packet")
	// 3. hmac.New(sha256.New, key)
	var hm *ssa.Call
	for _, b := range fn.Blocks {
		for _, ins := range b.Instrs {
			if call := staticCallTo(valueOf(ins), "crypto/hmac.New"); call != nil {
				hm = call
			}
		}
	}
	if hm == nil {
		r.bad(rule, "HMAC-SHA-256 under the key parameter", c.Pos(fn.Pos()), "no hmac.New")
		return
	}
	g, _ := hm.Call.Args[0].(*ssa.Function)
	r.Check(g != nil && g.String() == "crypto/sha256.New" && paramIndex(fn, hm.Call.Args[1]) == 1, rule, "HMAC-SHA-256 under the key parameter", c.InstrPos(hm), "hmac.New(sha256.New, key)", "the MAC is not HMAC-SHA-256 keyed with the key parameter")
	// Write(eapBytes) once, Sum(nil)[:16]
	var write, sum *ssa.Call
	nW := 0
	for _, ref := range *hm.Referrers() {
		if call, ok := ref.(*ssa.Call); ok && call.Call.IsInvoke() && call.Call.Value == ssa.Value(hm) {
			switch call.Call.Method.Name() {
			case "Write":
				write = call
				nW++
			case "Sum":
				sum = call
			}
		}
	}
	okW := write != nil && nW == 1 && write.Call.Args[0] == resultN(mc[0], 0) && onNilErrEdge(errResult(mc[0]), write.Block())
	r.Check(okW, rule, "exactly the marshalled packet is written into the HMAC", c.Pos(fn.Pos()), "one Write of Marshal()'s result on its nil-error edge", "the HMAC input is not exactly the marshalled packet")
	okS := false
	if sum != nil && c.allSumNil(sum, map[ssa.Value]bool{}) && write != nil && dominatesInstr(write, sum) {
		for _, b := range fn.Blocks {
			if ret, ok := b.Instrs[len(b.Instrs)-1].(*ssa.Return); ok && isNilConst(ret.Results[1]) {
				root, lo, hi, open := f.relSpan(ret.Results[0])
				okS = root == ssa.Value(sum) && !open && lo.isConst() && lo.C == 0 && hi.isConst() && hi.C == 16
			}
		}
	}
	r.Check(okS, rule, "result = first 16 octets of the HMAC", c.Pos(fn.Pos()), "Sum(nil)[:16]", "the result is not Sum(nil)[:16]")
	// 5. guarded assertion / bounds: E2 on the function
	e := &E2{C: c, R: r, Prefix: prefix + "nocrash."}
	e.Run([]*ssa.Function{fn})
	r.Floors[prefix+"nocrash.assert.type"] = 0 // a checked assertion has no obligation

	// 6. receive path
	rule6 := prefix + "receive-path-octets"
	r.Rule(rule6, "the MAC of a received packet is computed over the octets that were received: either the decoder retains them, or re-serialisation reproduces them (attribute order retained)", 1)
	ak := c.NamedType("eap", "EapAkaPrime")
	if ak == nil {
		r.undecided(rule6, "anchor eap.EapAkaPrime", "-", "anchor does not resolve")
		return
	}
	st := ak.Underlying().(*types.Struct)
	retainsRaw := false
	orderErasing := ""
	for i := 0; i < st.NumFields(); i++ {
		fld := st.Field(i)
		if isByteSlice(fld.Type()) {
			// a raw-octets field stored by Unmarshal from its parameter and read by CalcEapAkaPrimeAtMAC
			retainsRaw = true
		}
		if _, isMap := fld.Type().Underlying().(*types.Map); isMap {
			orderErasing = fld.Name()
		}
	}
	if retainsRaw {
		r.ok(rule6, "eap.EapAkaPrime retains the received octets", "-", "a raw-octets field exists", true)
	} else if orderErasing != "" {
		r.bad(rule6, "CalcEapAkaPrimeAtMAC: input = re-serialisation over order-erasing container", c.Pos(fn.Pos()), "EapAkaPrime."+orderErasing+" is a map and Marshal emits attributes in ascending type order: the attribute order of a received packet is not retained, so AT_MAC of a received packet whose attributes are not in the encoder's canonical order is computed over different octets than the sender's")
	} else {
		r.ok(rule6, "attribute container preserves order", "-", "no map-typed attribute container", true)
	}
	// Not checked: reserved octets of AT_RAND/AT_AUTN/AT_MAC and padding octets are read and
	// dropped by the decoder; a well-formed sender sets them to zero (RFC 4187), which is what the
	// re-serialisation emits, so this is inside the property's domain only for malformed packets.
}

// akaKeepsAllRule: the receiver computes the code over a re-serialisation of what it decoded, so the decoder
// must keep every attribute it consumes: on every way round the attribute loop the attribute just read is
// entered into the attribute map. A path that goes on to the next attribute without storing the current one
// (an attribute that is "silently ignored") makes the recomputed code differ from the transmitted one.
func (c *Ctx) akaKeepsAllRule(r *Report, rule string) {
	r.Rule(rule, "EAP-AKA' decoder: every path from the head of the attribute loop back to it passes through the store of the attribute just read into the attribute map (no attribute is consumed and dropped)", 1)
	um := c.Method("eap", "EapAkaPrime", "Unmarshal")
	if um == nil {
		r.undecided(rule, "eap.(*EapAkaPrime).Unmarshal", "-", "anchor does not resolve")
		return
	}
	loops := naturalLoops(um)
	var li *loopInfo
	var target *ssa.BasicBlock
	for _, l := range loops {
		for _, b := range sortedBlocks(l.body) {
			for _, ins := range b.Instrs {
				if _, ok := ins.(*ssa.MapUpdate); ok && (li == nil || len(l.body) < len(li.body)) {
					li, target = l, b
				}
			}
		}
	}
	if li == nil {
		r.undecided(rule, c.FuncName(um), c.Pos(um.Pos()), "no attribute loop with a map update found")
		return
	}
	for _, bk := range li.backs {
		key := fmt.Sprintf("%s: back edge from block %d", c.FuncName(um), bk.Index)
		pos := c.InstrPos(bk.Instrs[len(bk.Instrs)-1])
		if target == bk || target.Dominates(bk) {
			r.ok(rule, key, pos, "dominated by the map update at "+c.InstrPos(target.Instrs[0]), true)
		} else {
			r.bad(rule, key, pos, "the loop can go on to the next attribute without having stored the current one (map update at "+c.InstrPos(target.Instrs[0])+" is not on this path)")
		}
	}
}
