#!/bin/sh
# qv.sh <variant dir or patch file> [property ids...]: apply a patch to a scratch worktree of /repo (outside /repo
# and /verif, removed afterwards) and run the checks of the listed properties (default: all 20) on it.
set -u
P="$1"; shift
[ -d "$P" ] && P="$P/patch.diff"
P=$(readlink -f "$P")
PROPS="${*:-C01 C02 C03 C04 C05 C06 C07 C08 C09 C10 C11 C12 C13 C14 C15 C16 C17 C18 C19 C20}"
WT=$(mktemp -d /root/scratch/qv.XXXXXX)
rmdir "$WT"
git -C /repo worktree add -q --detach "$WT" HEAD || exit 2
( cd "$WT" && git apply "$P" ) || { git -C /repo worktree remove --force "$WT"; echo "patch does not apply"; exit 2; }
cd "$(dirname "$0")/.."
for p in $PROPS; do
  "${IKELINT_BIN:-./bin/ikelint}" -repo "$WT" -prop "$p" -no-evidence -known known_findings.json 2>&1 | grep -v '^KNOWN-FINDING\|^VIOLATION\|^\s*rule: ' | awk -v n="${QV_LINES:-40}" 'NR<=n'
done
git -C /repo worktree remove --force "$WT"
