#!/usr/bin/env python3
"""Regenerates /verif/MANIFEST.json from the table below (kept valid at all times)."""
import json, os, sys
HERE = os.path.dirname(os.path.dirname(os.path.abspath(__file__)))
props = [json.loads(l)['id'] for l in open(os.path.join(HERE, 'properties.jsonl'))]

TB = "Trusted: go/types+go/ssa (x/tools v0.29.0), this checker's analyses, frozen tables of external callees, type-based alias classes (no unsafe/reflect, checked by C18), closed-world assumptions listed in the evidence."

CHECKS = {
 "C01": dict(cat="other",
   text="Decides structural necessary conditions of the protected round trip, not the value-level equality: sender role r and receiver role not-r use the same cipher/MAC objects and these follow the RFC 7296 2.14 table; each SA object is keyed with its own key through the SA's own descriptor; plain fallbacks are taken exactly without key / without leading SK; both header arms hand msg[28:] and the header's next-payload to the chain walker; the inner chain is linked through Encrypted.NextPayload and exactly L checksum octets are appended and stripped. Breaking any of these breaks the round trip; AES/HMAC inversion and the plain codec are other properties. A protect that fails while encoding or encrypting the inner payloads leaves the message's payload list as it was (Reset / BuildEncrypted only on the nil-error edges of Payloads.Encode and encryptPayload), and Decrypt has no failure exit for any legal pad length (last octet p with p + 1 <= length of the decrypted blocks).",
   ref="DESIGN.md 4 C01",
   note=TB,
   tech="static analysis: role-to-key tables from branch structure, dominance, linear-form comparison of slice bounds, call-chain argument tracing"),
 "C02": dict(cat="other",
   text="Decides the structural conditions that make tamper rejection follow from HMAC security: verify-before-decrypt by dominance on the nil-error edge, who-may-call chain for the cipher, whole-slice comparison of exactly L received vs L computed octets on the equal edge only, MAC input = datagram[0 : len-L] traced through three call levels, peer-direction keys, error discipline of every failing step, and a panic-freedom proof (E2) of the unprotect path. Does not decide HMAC strength.",
   ref="DESIGN.md 4 C02",
   note=TB + " HMAC is a secure MAC; hmac.Equal compares whole slices.",
   tech="static analysis: must-pass-through / dominance, who-may-call, slice-span linear forms, error-discipline paths, E2 bounds prover"),
 "C03": dict(cat="other",
   text="Decides structural necessary conditions of the plain round trip on wire-slot tables from SSA (bit-provenance vectors for masks/shifts/byte order, linear forms for offsets, flow-insensitive buffer families on the encode side, token sequences for the stream-style EAP-AKA' codec): W subset-of R for every field bit and octet string of 27 records (spans normalised through the encoder's length slots), every field bit within the domain width emitted and stored, every field covered on both sides, dispatch bijections (16 payload types, 5 EAP methods), the generic-header chain rule, sibling agreement (IDi/IDr, TSi/TSr incl. the shared selector record per function), EAP-AKA' case sets and per-case token sequences. Value-level equality for arbitrary contents is not decided. An object a decoder allocates for a list element inside a loop is collected on every path of the iteration that does not fail, unless a comparison of decoded data with a constant (a type code that is not filed) leaves it out (decode.element-kept). No loop counter of a narrow integer type in the codec functions can be stepped past the end of its type under its loop guard (codec.counter-no-wrap: a list of 255 elements is walked 255 times), and a length an encoder narrows behind a 'does it fit' guard is provably within the width under that guard (encode.guarded-narrowing).",
   ref="DESIGN.md 3.6, 4 C03",
   note=TB + " Domain restrictions of the property (attribute types < 2^15, versions <= 15, vendor id < 2^24).",
   tech="static analysis: wire-slot table extraction (bit provenance over SSA) and encoder/decoder table comparison"),
 "C04": dict(cat="proof",
   text="Every index, slice (against len, not cap), make, type assertion, division, map update, nil-merging dereference, external-callee precondition and loop in the functions reachable from the decode entry points is an obligation; all are discharged by a sound (incomplete) wrap-aware linear-arithmetic prover over dominating guards and by five loop-variant templates. Proof of the enumerated obligation classes, not of the standard library.",
   ref="DESIGN.md 3.3, 4 C04",
   note=TB + " Entry contracts: non-nil receivers, header parsed from the same bytes, IKESAKey nil or fully populated; Iv/Padding never assigned by non-test code.",
   tech="static analysis: SSA dataflow with wrap-aware linear forms, dominator facts, loop-variant templates"),
 "C05": dict(cat="other",
   text="Compares the encoder's and the decoder's wire-slot tables (extracted from SSA) with a reference layout transcribed independently from RFC 7296 section 3 / RFC 3748: W = spec and R = spec for every fixed-offset field (offset, width, byte order, mask), octet-string positions, length/count slots (carrying the final length), constants and 2/3/0 markers; reserved regions and the critical bit written and read by nobody; chain rule; transforms filed by type only. Symmetric encoder+decoder deviations, invisible to a round trip, are caught here. 'An independent parser recovers the fields' is replaced by table equality (necessary; sufficient for fixed-offset fields). No loop counter of a narrow integer type in the codec functions can be stepped past the end of its type under its loop guard (codec.counter-no-wrap: a list of 255 elements is walked 255 times), and a length an encoder narrows behind a 'does it fit' guard is provably within the width under that guard (encode.guarded-narrowing).",
   ref="DESIGN.md 3.6, 4 C05",
   note=TB + " spec/wire_layout.json is hand-transcribed from the RFCs (independent of the code, not of the author).",
   tech="static analysis: wire-slot table extraction and comparison with an RFC reference table"),
 "C06": dict(cat="other",
   text="Decides the dataflow shape of protection, not byte-level interoperability: inner encoding of the original payload list -> encryptPayload -> placeholder of exactly L octets -> Reset + BuildEncrypted dominate the Encode whose result minus L octets is MAC'd -> MAC copied into the tail of the very payload the final Encode serialises -> nothing else changes afterwards; SK next-payload rule and the container's trailing-SK rule; sender-direction keys; Encrypt = IV|CBC(padded) with per-call random IV; PKCS7 pad count in [1,16] with pad length p-1; Decrypt strips last+1 and inspects no other pad octet (any legal padding accepted). The payload list is replaced only after inner encoding and encryption have succeeded (protect.message-intact-on-failure), and Decrypt accepts every legal pad length 0..255, not only the minimal one (decrypt-accepts-legal-padding, a totality rule on IV | n >= 1 blocks).",
   ref="DESIGN.md 4 C06",
   note=TB + " crypto/aes, crypto/cipher, crypto/hmac correct; plain encoding deterministic (C20).",
   tech="static analysis: dominance/ordering rules, slice-span linear forms, structural shape matching, effect scan after the MAC'd encoding"),
 "C07": dict(cat="other",
   text="Decides structural necessary conditions, not key values: the slice chain of GenerateKeyForIKESA is normalised into an offset table over P/A/E (key lengths of the SA's own PRF/integrity/encryption descriptors) and compared with RFC 7296 2.14 (order d,ai,ar,ei,er,pi,pr; total 3P+2A+2E); SKEYSEED argument roles; the seed concat list Ni|Nr|SPIi|SPIr by an ordered walk; the prf+ loop structure (Reset, T(n-1)|S|n, counter from 1, chaining block, truncation); registry lengths/hash/guards vs the RFC table; objects keyed with their own keys; NewIKESAKey argument order. No function reachable from the derivation stores to package-level state or writes through memory reachable from it (derive.no-shared-state): the keys are a function of the arguments whatever ran before or runs at the same time.",
   ref="DESIGN.md 4 C07",
   note=TB + " HMAC of the standard library is correct; RFC table transcribed by hand.",
   tech="static analysis: slice-chain normalisation with linear forms, structural matching of the prf+ loop, constant evaluation of registries"),
 "C08": dict(cat="other",
   text="Decides structural necessary conditions: KEYMAT requested as 2(E+A) with A=0 exactly when no integrity transform is negotiated, slices ei/ai/er/ar at the RFC 7296 2.17 offsets, copied out of the stream, prf+ keyed with the IKE SA's SK_d object and seeded with the nonce, prf+ structure as in C07, and hash typestate (Reset before every Write) for every derivation on the long-lived object. No function reachable from the derivation, including the PRF descriptors' Init that makes the long-lived SK_d object, stores to package-level state (derive.no-shared-state).",
   ref="DESIGN.md 4 C08",
   note=TB,
   tech="static analysis: slice-chain normalisation with linear forms, phi/guard matching, hash typestate dataflow"),
 "C09": dict(cat="other",
   text="Decides structural necessary conditions: prime constants (exact go/types values) equal the primes the checker derives from the RFC 2409/3526 formula with pi from a Machin series; generator 2; init wiring of constant -> descriptor -> IANA group number; both methods of both groups have the shape Zero(L-len(x))||x with x = Exp(base, secret, own modulus).Bytes(); exponent source crypto/rand.Int(rand.Reader, 2^2048-1) with error discipline and the > 2^128-1 edge; bounds set once in init; one secret feeds public value and shared key. Modular exponentiation and agreement of two parties are theorems about math/big, not decided.",
   ref="DESIGN.md 3.7, 4 C09",
   note=TB + " math/big is correct; Exp result < modulus.",
   tech="static analysis: exact constant comparison against checker-derived reference values, structural shape matching on SSA, error-discipline paths"),
 "C10": dict(cat="other",
   text="Decides structural necessary conditions: panic-freedom proof (E2) of every IKECrypto.Decrypt for all inputs; Encrypt's production arm shape (IV = first block of a fresh 16+len(padded) buffer, filled per call by io.ReadFull(crypto/rand.Reader) with the error checked, that block handed to NewCBCEncrypter, CryptBlocks into out[16:], whole buffer returned); no cipher method writes its receiver or package state; NewCrypto guards len(key) == descriptor key length, registered lengths {16,24,32}; PKCS7: pad count in [1,16] by interval proof with the block size bound at every call site, last octet p-1, padded length multiple of 16 (remainder identity); Decrypt strips last+1 and inspects no other pad octet. decrypt(encrypt(x)) = x and the exact size law are not decided. Decrypt is total on genuine inputs: no failure exit is reachable for IV | n >= 1 whole blocks whose last decrypted octet p satisfies p + 1 <= 16 n (decrypt-accepts-legal-padding).",
   ref="DESIGN.md 4 C10",
   note=TB + " crypto/aes and crypto/cipher implement AES-CBC correctly; Iv/Padding test-injection fields never assigned by non-test code.",
   tech="static analysis: E2 bounds prover, structural shape matching on SSA with closed-world dead-branch elimination, interval and remainder reasoning"),
 "C11": dict(cat="other",
   text="Exhaustive over the finite registries (13 algorithms, 18 descriptors, 11 stringifiers): each descriptor's methods are evaluated by constant propagation and compared with an RFC reference table (identifier, key-length attribute, key/output length, hash, key-length guard); closure (stringifier of the descriptor's own id on its own attribute returns its own name) and no-foreign-mapping (every name-returning path pins the attribute to that name's values; identifier matches) are decided on the decision trees of the stringifiers; Decode/ToTransform shapes and the nil-descriptor guards of the SA constructors are structural rules. The wire round trip of the transform itself is C03/C05.",
   ref="DESIGN.md 3.7, 4 C11",
   note=TB + " Reference table transcribed from RFC 7296/3602/2403/2404/4868 and IANA; registries immutable after init (C18).",
   tech="static analysis: constant propagation over registry initialisers and descriptor methods, decision-tree enumeration, dominance rules"),
 "C12": dict(cat="other",
   text="Decides structural necessary conditions of decode/encode stability on the wire-slot tables: R subset-of W (nothing the decoder keeps is dropped or moved by re-encoding), no decode-only fields, every field bit emitted, W subset-of R for byte identity of canonical datagrams, length slots final, EAP-AKA' token alignment (only zero padding dropped) and sorted attribute iteration. The fixed-point claim for inputs with inconsistent counts is not decided. Every list element the decoder allocates is collected unless a comparison with a constant leaves it out (decode.element-kept): no element of an accepted datagram is dropped depending on what was decoded before. No loop counter of a narrow integer type in the codec functions can be stepped past the end of its type under its loop guard (codec.counter-no-wrap: a list of 255 elements is walked 255 times), and a length an encoder narrows behind a 'does it fit' guard is provably within the width under that guard (encode.guarded-narrowing).",
   ref="DESIGN.md 3.6, 4 C12",
   note=TB,
   tech="static analysis: wire-slot table extraction and decoder/encoder table comparison, token-sequence comparison"),
 "C13": dict(cat="other",
   text="Decides the control structure that makes skipping sound: case constants and Type() methods of the 16 implementers are inverse bijections; the default arm continues exactly when bit 7 of octet 1 is clear (branch condition evaluated for all 256 octet values), with next-type/cursor updates structurally equal to the normal path and no append; the other edge returns a fresh error; the flags octet reaches no other branch and no payload decoder; progress and bounds of the walker by the E2 prover. Equality of decoded messages follows because the loop carries no other state; it is not separately derived.",
   ref="DESIGN.md 4 C13",
   note=TB,
   tech="static analysis: CFG/φ structure rules, dispatch-table extraction, finite-domain evaluation of a one-octet test, structural expression equality"),
 "C14": dict(cat="other",
   text="EAP framing: for the EAP header and Identity/Notification/Nak/Expanded bodies W subset-of R and both = RFC 3748 layout (final packet length, 24-bit vendor id, type octet constants checked by the decoders); Success/Failure are the bare 4-octet header on both sides; EAP-AKA': setter size guards by interval analysis along each case's storing path (RAND/AUTN/MAC 16, KDF 2, RES 4..16, bit length = 8*len), case sets, per-case token sequences, zero padding to the declared length, collect-then-sort iteration, setter stores an exact copy and GetValue returns it. The words/bits arithmetic is not decided.",
   ref="DESIGN.md 3.6, 4 C14",
   note=TB,
   tech="static analysis: wire-slot tables, token-sequence extraction along success paths, interval analysis of guards, idiom recognition for map iteration"),
 "C15": dict(cat="other",
   text="Decides the shape of CalcEapAkaPrimeAtMAC (AT_MAC zeroed on the success edge dominating Marshal of the whole packet, fresh HMAC-SHA-256 under the key parameter, one Write of that encoding, Sum(nil)[:16], guarded type assertion by the E2 prover) and, for the receive path, whether re-serialisation can reproduce the received octets: the attribute container is a map emitted in sorted order, so attribute order is lost - reported as KNOWN-FINDING D15 (genuine, design-level). HMAC values are not decided.",
   ref="DESIGN.md 4 C15, 5 D15",
   note=TB + " crypto/hmac and crypto/sha256 correct.",
   tech="static analysis: structural shape matching on SSA, dominance on nil-error edges, type-structure rule for order-erasing containers"),
 "C16": dict(cat="other",
   text="Decides the shape and constants of EapAkaPrimePRF against RFC 5448/9048: key concat IK'|CK', S = \"EAP-AKA'\"|Identity (exact string constant), a fresh HMAC-SHA-256 per round, data = T(n-1)|S|byte(n) with T(0) empty and n from 1 (buffer construction by make/copy/index-store matched structurally), >= 7 rounds, five result slices at the prescribed offsets in the prescribed order, empty-key guard dominating every HMAC and returning an error without keys. HMAC values are not decided.",
   ref="DESIGN.md 4 C16",
   note=TB,
   tech="static analysis: structural matching of the PRF' loop on SSA, slice-chain normalisation, dominating-fact proofs"),
 "C17": dict(cat="proof",
   text="Proof of a sufficient structural condition: (1) hash.Hash typestate by forward dataflow over every module function using a hash (Write only on a fresh object or after Reset with no Sum in between); (2) every IKECrypto method is receiver-pure (transitive mod-set, alias analysis for element writes); (3) IKESAKey fields are stored only by GenerateKeyForIKESA/NewIKESAKey and protect/unprotect/child-derivation mod-sets contain no SA field. Hence no operation leaves state that a later one reads.",
   ref="DESIGN.md 3.5, 4 C17",
   note=TB + " hash.Hash contract (Reset restores the keyed state, Sum does not change state); AES block cipher is stateless.",
   tech="static analysis: typestate dataflow, mod-sets / who-may-write over the resolved call graph"),
 "C18": dict(cat="proof",
   text="Proof of a sufficient structural condition for interference freedom: package-level state is written only in init (direct stores plus an alias analysis with all 17 globals as sources, covering writes through derived pointers, map updates and external writers such as big.Int methods); global-reachable pointers escape only as immutable descriptors; no go/chan/sync/atomic/unsafe/reflect anywhere; decoders never write their input slices; the only external mutable global touched is crypto/rand.Reader.",
   ref="DESIGN.md 3.4, 4 C18",
   note=TB + " crypto/rand.Reader is concurrency-safe by contract; data-race freedom inside the standard library is not analysed.",
   tech="static analysis: global-write / escape analysis (interprocedural alias analysis over SSA), import and instruction scan"),
 "C19": dict(cat="other",
   text="Compares every Build* method with a reference table (field <- argument by position, slices copied, exactly one append to the container's current content, nothing else stored, element returned iff documented); NewHeader/NewMessage field and flag assignments with the accessors evaluated over all 256 flag values; the 3GPP helpers' layouts (vendor 10415 / type 3 / message ids / spare / BE16 NAS length / PDU; 5G_QOS_INFO element order and DCSI/DSCPI bits; notify type constants) through the encode-side buffer tables; and proves every narrowing length conversion lossless from its dominating guard. net.ParseIP is not analysed. What the builders append is observed through its encoding: a length narrowed behind a 'does it fit' guard in the encoders is provably within the width under that guard (encode.guarded-narrowing).",
   ref="DESIGN.md 4 C19",
   note=TB + " spec/builders.json written from the builders' documented meaning and TS 24.502.",
   tech="static analysis: field<-parameter table extraction on SSA, buffer-family tables, finite-domain evaluation of flag accessors, interval proofs for narrowing conversions"),
 "C20": dict(cat="proof",
   text="Proof of a sufficient structural condition: an interprocedural alias analysis (type-keyed heap abstraction) shows no decoded field or API result aliases a decoder's input slice except the documented IKEHeader.PayloadBytes; over the encode scope nothing is written through message-owned memory, the field mod-set is header bookkeeping only, returned buffers are fresh, no random/time/map-order dependence is reachable; encryptMsg's transitive mod-set is the payload list, header bookkeeping and the fresh Encrypted payload.",
   ref="DESIGN.md 3.4, 4 C20",
   note=TB,
   tech="static analysis: interprocedural alias/effect analysis over SSA, mod-sets, determinism idiom recognition"),
}

# rules added during the seeded-variant rounds (DESIGN.md 8.3, 8.7)
EXTRA = {
 "C01": " Also: totality on the domain (no failure exit of EncodeEncrypt/encryptMsg/DecodeDecrypt/decryptMsg is reachable for a fully keyed SA, an encodable message and a genuine datagram; length tests refuted by linear arithmetic over the SK body shape IV|>=1 block|checksum) and Reset-before-Write typestate of calculateIntegrity. The plain-codec rule set of C03 is included under C01.codec.* (header and inner chain pass through the plain codec on both ends), and so are the PKCS#7 padding rules and the AES-CBC Encrypt / Decrypt shape rules of C06 / C10 (the protected round trip runs through them). Without SA keys the same entry points are total on the plain domain (any message of the encodable domain, the empty payload list - a 28-octet datagram - included, with or without a pre-parsed header).",
 "C03": " Also: nested records behind an interface field occupy the same span under the same conditions on both sides; the decoder rejects on the value of a message field only where the encoder refuses that value too or the field is structural (value-guard agreement); AKA' words-to-octets scaling evaluated without wrap-around for the domain. Every pointer a decoder collects in a loop points to an object allocated in the same iteration (decoded list elements are distinct objects). A decoder's constant test of the remaining input length lets the shortest in-domain encoding of the record at that cursor pass (min_octets of the reference layout). A way round the chain walker's loop that does not keep the decoded payload lies behind the test of the critical bit (a payload with an empty body is decoded like any other). The EAP-AKA' decoder's constant tests of the attribute length octet let pass the length octets the encoder produces for the value sizes the setter accepts, per attribute type. Decoding is a function of the octets: no branch of a decode method is decided by a field of the object decoded into that the same call has not stored first, and no list is re-sliced into itself.",
 "C05": " Also: nested-dispatch span vs the reference; AKA' words-to-octets scaling without wrap-around. Record stride: a decoder walking a list advances by exactly the element's extent in the reference layout on every path round the loop; the encoder emits no octets that are neither field nor nested record; EAP-AKA' decoder and setter cases are classified by the meaning they give octets 2-3 (bit count / octet count / reserved) and compared with a per-type reference table. The header's next-payload octet is recomputed from the payload list on every path before it is encoded (0 for an empty list).",
 "C06": " Also: totality on the domain of the protect/unprotect path (an empty inner payload list and every legal length are accepted).",
 "C07": " Also: totality on the domain: every failure exit of GenerateKeyForIKESA / NewIKESAKey (through PrfPlus and NewCrypto) is unreachable for nonces and secrets of 1..512 octets and a complete registered suite. DH public values / shared secrets have the fixed-length left-padded shape SKEYSEED is computed from (dh-secret-shape).",
 "C08": " Also: totality on the domain: every failure exit of GenerateKeyForChildSA is unreachable for any nonce (including empty), with or without integrity.",
 "C11": " Also: every registry lookup in the SA constructors is controlled only by nil tests and list lengths, never by the content of the transform being looked up. ToProposal is a function of the SA's current descriptors (no SA field or package variable written, only the *Info fields read).",
 "C12": " Also: nested-dispatch conditions agree on both sides; the AKA' encoder pads to the declared attribute length. Every pointer a decoder collects in a loop points to an object allocated in the same iteration. EAP-AKA' reference classes (meaning of octets 2-3 per attribute type) for canonical datagrams of an independent encoder. Decoding is a function of the octets (no branch on state an earlier call left in the object decoded into; no list re-sliced into itself).",
 "C14": " Also: the setter accepts every value size of the domain (RAND/AUTN/MAC 16, KDF 2, RES 4..16, KDF_INPUT 0..300, CHECKCODE 0/20/32: no error exit reachable, by linear arithmetic per instance); nested-dispatch; value-guard agreement; words-to-octets scaling. EAP-AKA' reference classes: octets 2-3 are a bit count exactly for AT_RES / AT_KDF_INPUT, zero for the reserved types, on the decoder and the setter side.",
 "C15": " Also: totality on the domain: no failure exit of CalcEapAkaPrimeAtMAC (through initMAC/SetAttr/setAttr with a 16-octet value) is reachable for any subtype, attribute subset and key. EAP-AKA' reference classes (which attribute types carry a bit count in octets 2-3) on the decoder and setter side, so that packets of an independent encoder are read as sent. The decoder stores every attribute it consumes (map update dominates every back edge of the attribute loop); the setter keeps a copy of the value. What the receiver decoded is a function of the received octets, not of attributes an earlier packet left in a reused object.",
 "C18": " Also: the reader argument of io.ReadFull counts as written (stateful readers), and an interface method implemented outside the module invoked on a global-derived object is reported unless the callee is in the frozen read-only table. Key derivation and Diffie-Hellman never write through, copy into or append onto memory derived from a []byte parameter (also after it was kept in the SA object).",
 "C19": " Also: a builder passes memory it did not allocate to no module function with a non-empty mod-set (the container is only extended). Arguments that fit are accepted: no failure exit of BuildEAP5GNAS / BuildNotify5G_QOS_INFO is reachable for a NAS PDU of 1..65535 octets / a QFI list of 0..250 entries with any flags. A builder extends its container on every path to a normal return and on no path to an error return.",
 "C20": " Also: header bookkeeping fields are stored on every path before they are read (no value left by an earlier Decode/Encode reaches the output). Protect builds the new payload list from nil (no append into the old list's storage).",
 "C02": " The crash-freedom proof covers every function reachable from DecodeDecrypt (header parser, outer chain walker and every payload decoder run before the checksum is verified). A datagram that ends behind a header announcing an Encrypted payload is refused (no success return of DecodeDecrypt reachable with an empty payload list and NextPayload = SK). Every derivation rebuilds the keyed objects that verify and decrypt (each binding store lies on every path to the successful return).",
 "C09": " Also: nothing outside init writes memory reachable from the package-level group descriptors (alias analysis; math/big receivers count as written).",
 "C16": " Also: totality on the domain: no failure exit of EapAkaPrimePRF is reachable for IK', CK' of 1..64 octets and an identity of 0..255 octets (the test of the derived stream's length is decided by the round count of the shape rule).",
 "C13": " Also: no error exit on the decode path depends on a payload type code (forward dependence from header octet 16, octet 0 of the generic header, the walker's first-type argument and the NextPayload fields). The walker's test of the remaining length lets a bare 4-octet generic header pass (an unsupported payload with an empty body, also as the last one). Whether a chain is accepted does not depend on what an earlier decode left in the message object.",
}
# rules added in round 14 (declarations the anchored functions depend on)
R14 = {
 "C01": " The keyed objects are the library's own (descriptor Init returns the result of hmac.New, NewCrypto stores the result of aes.NewCipher); every object the payload dispatch allocates is new and empty; payload type codes equal RFC 7296 3.2.",
 "C02": " The descriptor a received integrity transform resolves to is the registered one with the RFC's output length (C11's registry rules for security/integ).",
 "C03": " Every object the payload / EAP dispatch allocates for Unmarshal is new and empty (no defaults, no shared template); payload and EAP method type codes equal the RFC numbers; a decoder that stores a piece of its input under a guard returns success on the other side only where the piece is empty; the AKA' encoder emits every attribute of the map.",
 "C04": " The outcome is a function of the octets: every object a dispatch arm allocates for Unmarshal is new and empty, directly or as every return of a module constructor.",
 "C05": " Assigned numbers: every exported protocol-number constant of the message and eap packages (about 190: payload, exchange, transform, notify, ID, certificate, configuration, traffic-selector types, flag bits, EAP codes / types / AKA' subtypes and attribute types, EAP-5G and 3GPP numbers) equals a frozen table transcribed from RFC 7296, the IANA registries, RFC 4187/5448 and TS 24.502; each dispatched payload / EAP method type carries its RFC code; dispatch allocates new empty objects.",
 "C06": " The algorithms applied are the negotiated ones: C11's registry rules (closure, no foreign mapping, decode shape, reference lengths) for security/integ and security/encr.",
 "C10": " 'Every key of the negotiated size': C11's registry rules for security/encr (each registered name has its own descriptor with its own key length; a received key-length attribute resolves to exactly that name); the block cipher NewCrypto stores is the result of aes.NewCipher itself.",
 "C12": " The type a payload is re-announced under is the type it was dispatched from (dispatch bijection with RFC codes, new empty objects); no piece of the input is skipped silently.",
 "C13": " Each supported payload type carries the code RFC 7296 3.2 assigns (so the set of 'unsupported' codes is the RFC's complement); dispatch allocates new empty objects.",
 "C14": " EAP method type codes, EAP codes, AKA' subtypes and attribute type numbers equal their registry values; the EAP method dispatch is a bijection onto new empty objects; Identity / Notification / Nak decoders skip storing the type-data only when there is none.",
 "C17": " The objects an SA keeps are the library's own: every descriptor Init returns the result of crypto/hmac.New (or nil) and the block cipher of the object NewCrypto builds is the result of crypto/aes.NewCipher - no module type stands in for them (a wrapper could cache a Sum buffer or answer the library's NewCBCEncrypter / SetIV probes and so carry state between messages).",
}
# rules added in round 15 (types and package environment)
R15 = {
 "C02": " No String / Error / Format method of a module type hands its receiver back to fmt at its own type (a recursion through the library that the call graph does not show, reached from the pre-checksum error messages).",
 "C03": " Each field carries the full width of its wire slot (encoder layout = RFC layout), since the property's domain is stated in wire terms.",
 "C04": " No String / Error / Format method of a module type re-enters itself through fmt.",
 "C09": " Inside the init functions of security/dh a math/big method that writes its receiver is applied only to a number made on the spot (a second init cannot overwrite a registered prime).",
 "C11": " The typed-nil rule follows the returns of a module callee (a Decode function returning a concrete pointer).",
 "C12": " Decoder layout = RFC layout for every field: no bit of a wire field is dropped on decode (a field narrower than its slot re-encodes zeros there).",
 "C14": " No method of the eap package with a struct value receiver assigns to a field of it (a setter on a copy).",
}
# rules added in round 16 (failure paths), run under every property over that property's own code
R16 = " Failure reporting in the code this property's rules analyse and everything it calls: no pkg/errors wrapper is applied to an error that is nil at that point; the error of every call to a module function is tested and its failing edge does not rejoin the success path; after io.ReadFull a success return is reachable only behind a test that the read was complete."
R16X = {
 "C03": " A refused SetAttr leaves the attribute map untouched.",
 "C14": " A refused SetAttr leaves the attribute map untouched.",
}
THOROUGH = " Thorough tier: additionally replays every seeded faulty variant of this property (seeded/<id>-*) on a scratch copy of the current tree and requires it to be reported (exit 2 'SENSITIVITY-LOST' otherwise)"
BCE = "; and cross-checks the prover's site enumeration against the compiler's unproven bounds checks (-d=ssa/check_bce)"

REASON_WIP = "check under construction in this build round (static rules designed in DESIGN.md section 4, not yet registered)"
NA = {}

def main():
    checks = []
    for pid in props:
        if pid not in CHECKS:
            continue
        c = CHECKS[pid]
        checks.append({
            "property_id": pid,
            "quick_cmd": f"./run.sh {pid} quick",
            "thorough_cmd": f"./run.sh {pid} thorough",
            "evidence_file": f"evidence/{pid}.json",
            "replay_cmd_template": "./bin/ikelint -explain {path}",
            "engine": "ikelint",
            "level_claimed": {"category": c["cat"], "text": c["text"] + EXTRA.get(pid, "") + R14.get(pid, "") + R15.get(pid, "") + R16 + R16X.get(pid, ""), "design_ref": c["ref"] + ", 8"},
            "level_note": c["note"] + THOROUGH + (BCE if pid in ("C02", "C04", "C10") else "") + ".",
            "technique": c["tech"],
        })
    m = {
        "version": 1,
        "setup_cmd": "cd checker && GOFLAGS=-mod=mod GOPROXY=off GOSUMDB=off GOTOOLCHAIN=local GOWORK=off go build -o ../bin/ikelint ./cmd/ikelint",
        "hooks": {"guard": "verif", "enable": "none needed: the analysis reads the unmodified source of /repo (no hooks, no instrumentation)",
                  "baseline_off_cmd": "cd /repo && go test -vet=off -count=1 ./...", "source_commits": [], "add_only": True},
        "engines": [{"name": "ikelint", "path": "checker/", "serves_properties": sorted(CHECKS),
                     "kind_free_text": "repository-specific static analyser over go/types + go/ssa (x/tools v0.29.0): wrap-aware linear-form bounds prover, effect/alias analysis, ordering/typestate rules, wire-slot tables, registry/constant tables"}],
        "checks": checks,
        "not_applicable": [{"property_id": p, "reason": NA.get(p, REASON_WIP)} for p in props if p not in CHECKS],
        "notes": "Static-analysis family only; nothing executes code of /repo (the thorough tier runs the Go compiler with a diagnostic flag and re-runs the analyser on scratch copies). run.sh first self-tests the engines on /verif/fixtures (exit 2 on failure). known_findings.json: fixed entries for the 16 repaired defects D1-D13 and D16-D18, 1 known entry (C15, D15). See DESIGN.md, in particular section 8 (as built).",
    }
    json.dump(m, open(os.path.join(HERE, 'MANIFEST.json'), 'w'), indent=1)
    print("claimed:", sorted(CHECKS))

if __name__ == '__main__':
    main()
