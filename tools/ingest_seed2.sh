#!/bin/sh
# ingest_seed2.sh <property id> <a|b> <name>: copy a round-2 sub-agent deliverable from
# /tmp/seed2/<id>/_out/<a|b>/ into /verif/seeded/<name>/ and evaluate it (tools/seed_meta.py).
set -eu
ID="$1"; V="$2"; NAME="$3"; SRC="${SEED_BASE:-/tmp/seed2}/$ID/_out/$V"; DST="/verif/seeded/$NAME"
mkdir -p "$DST"
cp "$SRC/patch.diff" "$DST/patch.diff"
[ -f "$SRC/NOTES.md" ] && cp "$SRC/NOTES.md" "$DST/NOTES.md"
DEMO=$(ls "$SRC"/*_test.go | head -1)
cp "$DEMO" "$DST/$(basename "$DEMO")"
tr -d ' \n' < "$SRC/DEMO_PATH.txt" > "$DST/demo.path"
python3 /verif/tools/seed_meta.py "$DST"
