#!/usr/bin/env python3
"""Re-evaluate every behaviour-preserving variant under /verif/neutral (4 at a time) and print a compact
summary: silent, or the rules that raise a (false) alarm."""
import concurrent.futures, json, os, re, subprocess, sys
V = os.path.dirname(os.path.dirname(os.path.abspath(__file__)))

def one(d):
    out = subprocess.run([sys.executable, os.path.join(V, "tools", "neutral_eval.py"), d], capture_output=True, text=True).stdout
    open(os.path.join(d, "eval.json"), "w").write(out)
    ev = json.loads(out)
    rules = {}
    for pid, v in ev.get("alarms", {}).items():
        ks = [f for f in v["findings"] if f.startswith(("VIOLATED", "UNDECIDED"))]
        for f, dt in zip(ks, v["detail"] + [""] * len(ks)):
            m = re.match(r"(VIOLATED|UNDECIDED) (\S+) at", f)
            rules.setdefault(m.group(2), dt[:160])
    return os.path.basename(d), ev, rules

def main():
    root = os.path.join(V, "neutral")
    dirs = sorted(os.path.join(root, x) for x in os.listdir(root) if os.path.isdir(os.path.join(root, x)))
    sel = sys.argv[1:]
    if sel:
        dirs = [d for d in dirs if os.path.basename(d) in sel]
    n_sil = 0
    with concurrent.futures.ThreadPoolExecutor(max_workers=4) as ex:
        for name, ev, rules in ex.map(one, dirs):
            ok = all(ev.get(k) for k in ("patch_applies", "builds", "suite_passes"))
            if not rules:
                n_sil += 1
                print(f"{name:18s} {'valid' if ok else 'INVALID'} silent")
            else:
                print(f"{name:18s} {'valid' if ok else 'INVALID'} ALARM")
                for r, d in sorted(rules.items()):
                    print(f"      {r}: {d}")
    print(f"{n_sil}/{len(dirs)} silent")

main()
