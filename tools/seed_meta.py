#!/usr/bin/env python3
"""Re-evaluate seeded variants and (re)write their meta.json.

usage: seed_meta.py [<seeded dir> ...]      (default: every directory under /verif/seeded)

For each variant this runs tools/seed_eval.py (scratch worktree of /repo, removed afterwards) and writes
meta.json: which property the change breaks, what it needs to manifest (from the author's NOTES.md),
what was run and what came out, and which checks (rule ids) report it.
"""
import concurrent.futures, json, os, re, subprocess, sys

VERIF = os.path.dirname(os.path.dirname(os.path.abspath(__file__)))


def needs(notes):
    if not os.path.exists(notes):
        return ""
    txt = open(notes).read()
    m = re.search(r"^#+\s*What (?:is|it) (?:needed|takes|needs)[^\n]*\n(.*?)(?=^#+\s|\Z)", txt, re.S | re.M | re.I)
    if not m:
        return ""
    return re.sub(r"\s+", " ", m.group(1)).strip()[:900]


def one(d):
    d = os.path.abspath(d)
    name = os.path.basename(d)
    out = subprocess.run([sys.executable, os.path.join(VERIF, "tools", "seed_eval.py"), d], capture_output=True, text=True).stdout
    ev = json.loads(out)
    json.dump(ev, open(os.path.join(d, "eval.json"), "w"), indent=1)
    caught = {}
    for pid, v in ev.get("caught_by", {}).items():
        rules = []
        for line in v["findings"]:
            m = re.match(r"(VIOLATED|UNDECIDED) (\S+) at", line)
            if m and m.group(2) not in rules:
                rules.append(m.group(2))
        caught[pid] = rules
    demo = open(os.path.join(d, "demo.path")).read().strip() if os.path.exists(os.path.join(d, "demo.path")) else None
    valid = all(ev.get(k) for k in ("patch_applies", "builds", "suite_passes_with_patch", "demo_without_patch_passes", "demo_with_patch_fails"))
    meta = {
        "name": name,
        "breaks_property": name.split("-")[0],
        "author": (open(os.path.join(d, "AUTHOR.txt")).read().strip() if os.path.exists(os.path.join(d, "AUTHOR.txt")) else "fresh sub-agent given only the property text and a scratch worktree of /repo"),
        "needs_to_manifest": needs(os.path.join(d, "NOTES.md")),
        "demonstration": {"file": [f for f in os.listdir(d) if f.endswith("_test.go")], "placed_at": demo},
        "what_i_ran": [
            "git worktree add --detach <scratch> HEAD (of /repo); removed afterwards",
            "demo test alone on the unchanged tree: go test -vet=off -count=1 <pkg>  -> must pass",
            "git apply patch.diff; go build ./...; go test -vet=off -count=1 ./... (suite without the demo) -> must pass",
            "demo test with the patch -> must fail",
            "bin/ikelint -repo <scratch> -prop <each of C01..C20> -no-evidence  -> checks with exit 1 are listed under caught_by",
        ],
        "confirmed": {k: ev.get(k) for k in ("patch_applies", "builds", "suite_passes_with_patch", "demo_without_patch_passes", "demo_with_patch_fails")},
        "valid_seed": valid,
        "caught_by": caught,
        "caught_by_own_property": name.split("-")[0] in caught,
    }
    json.dump(meta, open(os.path.join(d, "meta.json"), "w"), indent=1)
    return name, valid, caught


def main():
    dirs = sys.argv[1:]
    if not dirs:
        root = os.path.join(VERIF, "seeded")
        dirs = sorted(os.path.join(root, x) for x in os.listdir(root) if os.path.isdir(os.path.join(root, x)))
    with concurrent.futures.ThreadPoolExecutor(max_workers=4) as ex:
        for name, valid, caught in ex.map(one, dirs):
            print(f"{name:45s} valid={valid} caught_by={ {k: v[:3] for k, v in caught.items()} }")


if __name__ == "__main__":
    main()
