#!/usr/bin/env python3
"""Evaluate a behaviour-preserving variant against every check: any check that exits non-zero is a
false-alarm candidate (to be triaged by reading the patch).

usage: neutral_eval.py <dir with patch.diff [, sanity test, demo.path]>
Runs in a scratch git worktree of /repo under a temp dir (removed afterwards). Prints JSON.
"""
import json, os, shutil, subprocess, sys, tempfile

ENV = dict(os.environ, GOFLAGS="-mod=mod", GOPROXY="off", GOSUMDB="off", GOTOOLCHAIN="local", GOWORK="off")
VERIF = os.path.dirname(os.path.dirname(os.path.abspath(__file__)))


def run(cmd, cwd, timeout=900):
    p = subprocess.run(cmd, cwd=cwd, env=ENV, capture_output=True, text=True, timeout=timeout)
    return p.returncode, p.stdout + p.stderr


def main():
    d = os.path.abspath(sys.argv[1])
    tmp = tempfile.mkdtemp(prefix="neuteval-")
    wt = os.path.join(tmp, "wt")
    res = {"dir": d}
    try:
        run(["git", "-C", "/repo", "worktree", "add", "-q", "--detach", wt, "HEAD"], "/")
        rc, out = run(["git", "apply", os.path.join(d, "patch.diff")], wt)
        res["patch_applies"] = rc == 0
        if rc != 0:
            res["error"] = out
            print(json.dumps(res, indent=1)); return
        rc, out = run(["go", "build", "./..."], wt)
        res["builds"] = rc == 0
        rc, out = run(["go", "test", "-vet=off", "-count=1", "./..."], wt)
        res["suite_passes"] = rc == 0
        dp = os.path.join(d, "demo.path")
        tests = [f for f in os.listdir(d) if f.endswith("_test.go")]
        if os.path.exists(dp) and tests:
            rel = open(dp).read().strip()
            os.makedirs(os.path.dirname(os.path.join(wt, rel)) or wt, exist_ok=True)
            shutil.copy(os.path.join(d, tests[0]), os.path.join(wt, rel))
            pkg = "./" + os.path.dirname(rel) if os.path.dirname(rel) else "."
            rc, out = run(["go", "test", "-vet=off", "-count=1", pkg], wt)
            res["sanity_test_passes"] = rc == 0
            os.remove(os.path.join(wt, rel))
        alarms = {}
        man = json.load(open(os.path.join(VERIF, "MANIFEST.json")))
        for chk in man["checks"]:
            pid = chk["property_id"]
            rc, out = run([os.environ.get("IKELINT_BIN", os.path.join(VERIF, "bin", "ikelint")), "-repo", wt, "-prop", pid, "-no-evidence", "-known", os.path.join(VERIF, "known_findings.json")], VERIF)
            if rc != 0:
                lines = [l.strip() for l in out.splitlines() if l.strip().startswith(("VIOLATED", "UNDECIDED", "key:", "CANNOT"))]
                # keep the detail line following each key line
                detail = []
                ls = out.splitlines()
                for i, l in enumerate(ls):
                    if l.strip().startswith("key:") and i + 1 < len(ls):
                        detail.append(ls[i + 1].strip()[:300])
                alarms[pid] = {"exit": rc, "findings": lines[:16], "detail": detail[:8]}
        res["alarms"] = alarms
    finally:
        subprocess.run(["git", "-C", "/repo", "worktree", "remove", "--force", wt], capture_output=True)
        shutil.rmtree(tmp, ignore_errors=True)
    print(json.dumps(res, indent=1))


if __name__ == "__main__":
    main()
