#!/bin/sh
# qv_all.sh <glob under neutral/ or seeded/> : run all 20 checks on each matching variant (8 in parallel),
# print one line per variant with the properties that raise an alarm.
cd "$(dirname "$0")/.."
ls -d $1 | xargs -P 8 -I{} sh -c 'out=$(QV_LINES=400 tools/qv.sh {} 2>&1); bad=$(echo "$out" | grep "violations=" | grep -v "violations=0" | cut -d" " -f1 | tr "\n" " "); rules=$(echo "$out" | grep -o "\(VIOLATED\|UNDECIDED\) [^ ]*" | sort -u | cut -d" " -f2 | tr "\n" " "); echo "$(basename {}): ${bad:-silent} :: $rules"' | sort
