#!/usr/bin/env python3
"""Re-run only the 20 checks (not the build / test suite / sanity test, which do not depend on the checker) on
every behaviour-preserving variant and refresh the "alarms" part of neutral/<name>/eval.json; 8 variants at a time.
usage: neutral_fast.py [name ...]"""
import concurrent.futures, json, os, shutil, subprocess, sys, tempfile
V = os.path.dirname(os.path.dirname(os.path.abspath(__file__)))
MAN = json.load(open(os.path.join(V, "MANIFEST.json")))

def one(d):
    tmp = tempfile.mkdtemp(prefix="nfast-", dir="/root/scratch")
    wt = os.path.join(tmp, "wt")
    alarms = {}
    try:
        subprocess.run(["git", "-C", "/repo", "worktree", "add", "-q", "--detach", wt, "HEAD"], check=True, capture_output=True)
        p = subprocess.run(["git", "apply", os.path.join(d, "patch.diff")], cwd=wt, capture_output=True, text=True)
        if p.returncode != 0:
            return os.path.basename(d), None
        only = os.environ.get("NF_PROPS", "").split()
        if only:
            # refresh the named properties only; keep what was recorded for the others
            ev0 = os.path.join(d, "eval.json")
            if os.path.exists(ev0):
                alarms = {k: v for k, v in json.load(open(ev0)).get("alarms", {}).items() if k not in only}
        for chk in MAN["checks"]:
            pid = chk["property_id"]
            if only and pid not in only:
                continue
            r = subprocess.run([os.path.join(V, "bin", "ikelint"), "-repo", wt, "-prop", pid, "-no-evidence", "-known", os.path.join(V, "known_findings.json")], cwd=V, capture_output=True, text=True)
            out = r.stdout + r.stderr
            if r.returncode != 0:
                lines = [l.strip() for l in out.splitlines() if l.strip().startswith(("VIOLATED", "UNDECIDED", "key:", "CANNOT"))]
                detail = []
                ls = out.splitlines()
                for i, l in enumerate(ls):
                    if l.strip().startswith("key:") and i + 1 < len(ls):
                        detail.append(ls[i + 1].strip()[:300])
                alarms[pid] = {"exit": r.returncode, "findings": lines[:16], "detail": detail[:8]}
    finally:
        subprocess.run(["git", "-C", "/repo", "worktree", "remove", "--force", wt], capture_output=True)
        shutil.rmtree(tmp, ignore_errors=True)
    ev = os.path.join(d, "eval.json")
    e = json.load(open(ev)) if os.path.exists(ev) else {"dir": d}
    e["alarms"] = alarms
    json.dump(e, open(ev, "w"), indent=1)
    return os.path.basename(d), sorted(alarms)

def main():
    root = os.path.join(V, "neutral")
    names = sys.argv[1:] or sorted(os.listdir(root))
    dirs = [os.path.join(root, n) for n in names if os.path.isdir(os.path.join(root, n))]
    sil = 0
    with concurrent.futures.ThreadPoolExecutor(max_workers=8) as ex:
        for name, al in ex.map(one, dirs):
            if al is None:
                print(name, "PATCH DOES NOT APPLY")
            elif al:
                print(name, "ALARM", al)
            else:
                sil += 1
    print(f"{sil}/{len(dirs)} silent")

main()
