#!/bin/sh
# build_dev.sh: build the checker as bin/ikelint.dev (use with IKELINT_BIN=bin/ikelint.dev tools/qv.sh ...) while
# a long evaluation keeps using bin/ikelint
cd "$(dirname "$0")/../checker" && GOFLAGS=-mod=mod GOPROXY=off GOSUMDB=off GOTOOLCHAIN=local GOWORK=off go build -o ../bin/ikelint.dev ./cmd/ikelint
