#!/bin/sh
# seed_regress.sh [glob]: every seeded variant must be reported by the check of its own property (8 in parallel).
cd "$(dirname "$0")/.."
ls -d ${1:-seeded/*} | xargs -P 8 -I{} sh -c 'n=$(basename {}); p=${n%%-*}; out=$(QV_LINES=400 tools/qv.sh {} $p 2>&1 | grep "violations="); case "$out" in *"violations=0"*|"") echo "MISSED $n :: $out";; *) echo "caught $n";; esac' | sort > /root/scratch/seed_regress.txt
grep -c '^caught' /root/scratch/seed_regress.txt; grep '^MISSED' /root/scratch/seed_regress.txt
