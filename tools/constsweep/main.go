// constsweep: enumerate single-constant mutations of the repository's non-test sources (an explicit integer
// literal in a const declaration changed by one; an iota block shifted by one from some line on) and apply one
// of them in place. Used by tools/const_sweep.sh to find constants whose value no rule looks at.
//
//	constsweep -list <dir>        print "<index>\t<file>:<line>\t<name>\t<what>" per mutation
//	constsweep -apply N <dir>     apply mutation N to the files under <dir>
package main

import (
	"flag"
	"fmt"
	"go/ast"
	"go/parser"
	"go/token"
	"os"
	"path/filepath"
	"sort"
	"strconv"
	"strings"
)

type mut struct {
	file       string
	line       int
	name, what string
	off, end   int // byte range to replace
	repl       string
}

func main() {
	list := flag.Bool("list", false, "")
	apply := flag.Int("apply", -1, "")
	flag.Parse()
	dir := flag.Arg(0)
	var files []string
	filepath.Walk(dir, func(p string, info os.FileInfo, err error) error {
		if err != nil {
			return nil
		}
		if info.IsDir() && (strings.HasPrefix(info.Name(), ".") || info.Name() == "_out" || info.Name() == "testdata") && p != dir {
			return filepath.SkipDir
		}
		if strings.HasSuffix(p, ".go") && !strings.HasSuffix(p, "_test.go") {
			files = append(files, p)
		}
		return nil
	})
	sort.Strings(files)
	var muts []mut
	for _, fp := range files {
		fset := token.NewFileSet()
		src, _ := os.ReadFile(fp)
		f, err := parser.ParseFile(fset, fp, src, 0)
		if err != nil {
			continue
		}
		for _, d := range f.Decls {
			gd, ok := d.(*ast.GenDecl)
			if !ok || gd.Tok != token.CONST {
				continue
			}
			usesIota := false
			for i, sp := range gd.Specs {
				vs := sp.(*ast.ValueSpec)
				for j, v := range vs.Values {
					ast.Inspect(v, func(n ast.Node) bool {
						if id, ok := n.(*ast.Ident); ok && id.Name == "iota" {
							usesIota = true
						}
						return true
					})
					lit, ok := v.(*ast.BasicLit)
					if !ok || lit.Kind != token.INT || j >= len(vs.Names) {
						continue
					}
					val, err := strconv.ParseInt(lit.Value, 0, 64)
					if err != nil {
						continue
					}
					nv := val + 1
					repl := strconv.FormatInt(nv, 10)
					if strings.HasPrefix(lit.Value, "0x") || strings.HasPrefix(lit.Value, "0X") {
						repl = fmt.Sprintf("0x%x", nv)
					}
					muts = append(muts, mut{fp, fset.Position(lit.Pos()).Line, vs.Names[j].Name, lit.Value + " -> " + repl,
						fset.Position(lit.Pos()).Offset, fset.Position(lit.End()).Offset, repl})
				}
				// an implicit-repetition line of an iota block: shift it and what follows by one
				if usesIota && i > 0 && len(vs.Values) == 0 && len(vs.Names) == 1 {
					off := fset.Position(vs.Pos()).Offset
					muts = append(muts, mut{fp, fset.Position(vs.Pos()).Line, vs.Names[0].Name, "iota block shifted by one from here on", off, off, "_\n\t"})
				}
			}
		}
	}
	if *list {
		for i, m := range muts {
			rel, _ := filepath.Rel(dir, m.file)
			fmt.Printf("%d\t%s:%d\t%s\t%s\n", i, rel, m.line, m.name, m.what)
		}
		return
	}
	if *apply >= 0 && *apply < len(muts) {
		m := muts[*apply]
		src, _ := os.ReadFile(m.file)
		out := string(src[:m.off]) + m.repl + string(src[m.end:])
		os.WriteFile(m.file, []byte(out), 0o644)
		rel, _ := filepath.Rel(dir, m.file)
		fmt.Printf("%s:%d %s %s\n", rel, m.line, m.name, m.what)
		return
	}
	os.Exit(2)
}
