module constsweep

go 1.21
