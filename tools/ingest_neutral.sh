#!/bin/sh
# ingest_neutral.sh <property id> <a|b|c|d> <name>: copy a behaviour-preserving variant from
# /tmp/neut/<id>/_out/<x>/ into /verif/neutral/<name>/ and evaluate it against every check.
set -eu
ID="$1"; V="$2"; NAME="$3"; SRC="${NEUT_BASE:-/tmp/neut}/$ID/_out/$V"; DST="/verif/neutral/$NAME"
mkdir -p "$DST"
cp "$SRC/patch.diff" "$DST/patch.diff"
[ -f "$SRC/NOTES.md" ] && cp "$SRC/NOTES.md" "$DST/NOTES.md"
DEMO=$(ls "$SRC"/*_test.go 2>/dev/null | head -1 || true)
if [ -n "$DEMO" ] && [ -f "$SRC/DEMO_PATH.txt" ]; then
  cp "$DEMO" "$DST/$(basename "$DEMO")"
  tr -d ' \n' < "$SRC/DEMO_PATH.txt" > "$DST/demo.path"
fi
python3 /verif/tools/neutral_eval.py "$DST" > "$DST/eval.json"
python3 - "$DST/eval.json" <<'P'
import json,sys
d=json.load(open(sys.argv[1]))
print(d['dir'].split('/')[-1], {k:d.get(k) for k in ('patch_applies','builds','suite_passes','sanity_test_passes')}, 'ALARMS:' if d.get('alarms') else 'silent', list(d.get('alarms',{}).keys()))
for p,v in d.get('alarms',{}).items():
    for f,dt in zip([x for x in v['findings'] if x.startswith(('VIOLATED','UNDECIDED'))], v['detail']):
        print('    ',f[:110],'|',dt[:220])
P
