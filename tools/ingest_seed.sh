#!/bin/sh
# ingest_seed.sh <property id> <name>: copy a sub-agent's deliverables from /tmp/seed/<id>/_out into
# /verif/seeded/<name>/ and evaluate them (tools/seed_eval.py).
set -eu
ID="$1"; NAME="$2"; SRC="/tmp/seed/$ID"; DST="/verif/seeded/$NAME"
mkdir -p "$DST"
cp "$SRC/_out/patch.diff" "$DST/patch.diff"
[ -f "$SRC/_out/NOTES.md" ] && cp "$SRC/_out/NOTES.md" "$DST/NOTES.md"
# the demo test: the untracked *_test.go in the worktree
DEMO=$(cd "$SRC" && git status --porcelain --untracked-files=all | awk '$1=="??" && $2 ~ /_test\.go$/ && $2 !~ /^_out/ {print $2}' | head -1)
if [ -n "$DEMO" ]; then
  cp "$SRC/$DEMO" "$DST/$(basename "$DEMO")"
  echo "$DEMO" > "$DST/demo.path"
fi
python3 /verif/tools/seed_eval.py "$DST" > "$DST/eval.json"
cat "$DST/eval.json"
