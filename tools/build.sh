#!/bin/sh
# build.sh: build the checker to a temporary name and rename it into place (checks that are running keep their binary)
cd "$(dirname "$0")/../checker" && GOFLAGS=-mod=mod GOPROXY=off GOSUMDB=off GOTOOLCHAIN=local GOWORK=off go build -o ../bin/ikelint.new ./cmd/ikelint && mv ../bin/ikelint.new ../bin/ikelint
