#!/bin/sh
# const_sweep.sh: every single-constant mutation of /repo's non-test sources (tools/constsweep) that still builds
# is shown to the 20 checks; prints one line per mutation: which properties report it, or SILENT plus whether the
# repository's own tests notice. A constant no check and no test looks at is a hole (or a constant nothing of
# the 20 properties depends on - to be judged by reading). Output: /root/scratch/const_sweep.txt
cd "$(dirname "$0")/.."
export GOFLAGS=-mod=mod GOPROXY=off GOSUMDB=off GOTOOLCHAIN=local GOWORK=off
BIN="${IKELINT_BIN:-bin/ikelint}"
mkdir -p /root/scratch
(cd tools/constsweep && go build -o /root/scratch/constsweep .) || exit 2
N=$(/root/scratch/constsweep -list /repo | wc -l)
seq 0 $((N-1)) | xargs -P 8 -I{} sh -c '
  wt=/root/scratch/cs-{}
  git -C /repo worktree add -q --detach $wt HEAD 2>/dev/null || exit 0
  what=$(/root/scratch/constsweep -apply {} $wt)
  if (cd $wt && go build ./... >/dev/null 2>&1); then
    hit=""
    for p in 01 02 03 04 05 06 07 08 09 10 11 12 13 14 15 16 17 18 19 20; do
      '"$BIN"' -repo $wt -prop C$p -no-evidence -known known_findings.json >/dev/null 2>&1 || hit="$hit C$p"
    done
    if [ -z "$hit" ]; then
      if (cd $wt && go test -vet=off -count=1 ./... >/dev/null 2>&1); then t="tests-pass"; else t="tests-fail"; fi
      echo "{} $what :: SILENT $t"
    else
      echo "{} $what ::$hit"
    fi
  else
    echo "{} $what :: does-not-build"
  fi
  git -C /repo worktree remove --force $wt; rm -rf $wt
' | sort -n > /root/scratch/const_sweep.txt
git -C /repo worktree prune
grep -c . /root/scratch/const_sweep.txt
