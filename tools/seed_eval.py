#!/usr/bin/env python3
"""Evaluate a seeded faulty variant against the checks.

usage: seed_eval.py <dir with patch.diff, demo test, demo.path> [--keep]

Steps (all in a scratch git worktree of /repo under a temp dir outside /repo and /verif, removed afterwards):
 1. patch applies, `go build ./...` ok, the existing test suite passes with the patch;
 2. the demonstration test fails with the patch and passes without it;
 3. every registered check is run against the patched tree (ikelint -repo <scratch> -no-evidence);
    the checks that exit 1 are the ones that catch the change.
Prints a JSON summary on stdout.
"""
import json, os, shutil, subprocess, sys, tempfile

ENV = dict(os.environ, GOFLAGS="-mod=mod", GOPROXY="off", GOSUMDB="off", GOTOOLCHAIN="local", GOWORK="off")
VERIF = os.path.dirname(os.path.dirname(os.path.abspath(__file__)))


def run(cmd, cwd, timeout=600):
    p = subprocess.run(cmd, cwd=cwd, env=ENV, shell=isinstance(cmd, str), capture_output=True, text=True, timeout=timeout)
    return p.returncode, (p.stdout + p.stderr)


def main():
    d = os.path.abspath(sys.argv[1])
    patch = os.path.join(d, "patch.diff")
    demo_path_file = os.path.join(d, "demo.path")
    demo_rel = open(demo_path_file).read().strip() if os.path.exists(demo_path_file) else None
    demo_src = None
    for f in sorted(os.listdir(d)):
        if f.endswith("_test.go"):
            demo_src = os.path.join(d, f)
    tmp = tempfile.mkdtemp(prefix="seedeval-")
    wt = os.path.join(tmp, "wt")
    res = {"dir": d}
    try:
        rc, out = run(["git", "-C", "/repo", "worktree", "add", "-q", "--detach", wt, "HEAD"], "/")
        if rc != 0:
            res["error"] = "worktree: " + out
            print(json.dumps(res, indent=1)); return
        # demo without the patch
        if demo_src and demo_rel:
            os.makedirs(os.path.dirname(os.path.join(wt, demo_rel)), exist_ok=True)
            shutil.copy(demo_src, os.path.join(wt, demo_rel))
            pkg = "./" + os.path.dirname(demo_rel) if os.path.dirname(demo_rel) else "."
            rc, out = run(["go", "test", "-vet=off", "-count=1", pkg], wt)
            res["demo_without_patch_passes"] = rc == 0
            if rc != 0:
                res["demo_without_patch_output"] = out[-1500:]
            os.remove(os.path.join(wt, demo_rel))
        rc, out = run(["git", "apply", patch], wt)
        res["patch_applies"] = rc == 0
        if rc != 0:
            res["error"] = out
            print(json.dumps(res, indent=1)); return
        rc, out = run(["go", "build", "./..."], wt)
        res["builds"] = rc == 0
        rc, out = run(["go", "test", "-vet=off", "-count=1", "./..."], wt)
        res["suite_passes_with_patch"] = rc == 0
        if rc != 0:
            res["suite_output"] = out[-1500:]
        if demo_src and demo_rel:
            shutil.copy(demo_src, os.path.join(wt, demo_rel))
            pkg = "./" + os.path.dirname(demo_rel) if os.path.dirname(demo_rel) else "."
            rc, out = run(["go", "test", "-vet=off", "-count=1", pkg], wt)
            res["demo_with_patch_fails"] = rc != 0
            res["demo_with_patch_tail"] = out[-600:]
            os.remove(os.path.join(wt, demo_rel))
        # checks
        man = json.load(open(os.path.join(VERIF, "MANIFEST.json")))
        caught = {}
        for chk in man["checks"]:
            pid = chk["property_id"]
            rc, out = run([os.environ.get("IKELINT_BIN", os.path.join(VERIF, "bin", "ikelint")), "-repo", wt, "-prop", pid, "-no-evidence", "-known", os.path.join(VERIF, "known_findings.json")], VERIF)
            if rc != 0:
                lines = [l.strip() for l in out.splitlines() if l.strip().startswith(("VIOLATED", "UNDECIDED", "key:", "CANNOT"))]
                caught[pid] = {"exit": rc, "findings": lines[:12]}
        res["caught_by"] = caught
    finally:
        subprocess.run(["git", "-C", "/repo", "worktree", "remove", "--force", wt], capture_output=True)
        shutil.rmtree(tmp, ignore_errors=True)
    print(json.dumps(res, indent=1))


if __name__ == "__main__":
    main()
