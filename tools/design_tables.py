#!/usr/bin/env python3
"""Regenerate the generated appendices of DESIGN.md (between the BEGIN/END GENERATED markers):
 A. rules per property, from evidence/*.json (rule id, floor, instances on the current tree, statement)
 B. seeded variants and the checks that report them, from seeded/*/meta.json
"""
import json, os, re, glob
V = os.path.dirname(os.path.dirname(os.path.abspath(__file__)))

def rules():
    out = ["### A. Rules as built (generated from evidence/*.json)", ""]
    for p in sorted(glob.glob(os.path.join(V, "evidence", "C*.json"))):
        d = json.load(open(p))
        cov = d["coverage"]
        out.append(f"**{d['property_id']}** — level `{d['level']}`, {cov['obligations']} obligations ({cov['distinct_nontrivial']} non-trivial), {len(cov['functions_analysed'])} functions")
        out.append("")
        out.append("| rule | floor | instances | statement |")
        out.append("|---|---|---|---|")
        for rid in sorted(cov["rules"]):
            r = cov["rules"][rid]
            st = r["statement"].replace("|", "\\|")
            if len(st) > 260:
                st = st[:257] + "..."
            out.append(f"| `{rid}` | {r['floor']} | {r['instances']} | {st} |")
        out.append("")
    return out

def seeds():
    out = ["### B. Seeded variants and the checks that report them (generated from seeded/*/meta.json)", "",
           "| variant | breaks | needs to manifest (short) | reported by (rules) |", "|---|---|---|---|"]
    for p in sorted(glob.glob(os.path.join(V, "seeded", "*", "meta.json"))):
        m = json.load(open(p))
        if not m.get("valid_seed"):
            continue
        need = re.sub(r"\s+", " ", m.get("needs_to_manifest", ""))[:170].replace("|", "\\|")
        by = "; ".join(f"{k}: " + ", ".join(f"`{x}`" for x in v) for k, v in sorted(m["caught_by"].items())) or "**nothing**"
        out.append(f"| {m['name']} | {m['breaks_property']} | {need} | {by} |")
    out.append("")
    return out

def main():
    path = os.path.join(V, "DESIGN.md")
    s = open(path).read()
    gen = "\n".join(rules() + seeds())
    b, e = "<!-- BEGIN GENERATED -->", "<!-- END GENERATED -->"
    if b in s:
        s = s[: s.index(b) + len(b)] + "\n" + gen + "\n" + s[s.index(e):]
    else:
        s += f"\n{b}\n{gen}\n{e}\n"
    open(path, "w").write(s)

main()
