#!/usr/bin/env python3
"""Record, per behaviour-preserving variant, which checks still raise a (false) alarm on it.

Reads neutral/<name>/eval.json (written by tools/neutral_all.py) and writes neutral/<name>/meta.json with
"expected_alarms": [property ids] and the rule ids, or removes meta.json when the variant is silent. The thorough
tier lists and skips a variant for the properties named there (a documented limitation, DESIGN.md 8.8); every
other variant of a property must be silent.
"""
import json, os, re, sys
V = os.path.dirname(os.path.dirname(os.path.abspath(__file__)))
root = os.path.join(V, "neutral")
n_sil = n_al = 0
for name in sorted(os.listdir(root)):
    d = os.path.join(root, name)
    ev = os.path.join(d, "eval.json")
    if not os.path.isdir(d) or not os.path.exists(ev):
        continue
    e = json.load(open(ev))
    alarms = e.get("alarms", {})
    meta = os.path.join(d, "meta.json")
    if not alarms:
        n_sil += 1
        if os.path.exists(meta):
            os.remove(meta)
        continue
    n_al += 1
    rules = {}
    for pid, v in alarms.items():
        rs = []
        for f in v["findings"]:
            m = re.match(r"(VIOLATED|UNDECIDED) (\S+) at", f)
            if m and m.group(2) not in rs:
                rs.append(m.group(2))
        rules[pid] = rs
    json.dump({"name": name, "expected_alarms": sorted(alarms), "rules": rules,
               "note": "behaviour-preserving restructuring outside the idioms the rules recognise; reported as a known limitation (DESIGN.md 8.8)"},
              open(meta, "w"), indent=1)
print(f"{n_sil} silent, {n_al} with expected alarms")
