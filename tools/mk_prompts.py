#!/usr/bin/env python3
"""Prepare a round of sub-agent work: scratch worktrees of /repo and one prompt file per property.

usage: mk_prompts.py seed    <base dir> <flavour: unusual|coordinated|disguised|feature|subtle|modern|perf|edge|history|cooperating|stdlib|regress|decl|mixed> [Cxx ...]
       mk_prompts.py neutral <base dir> <flavour: small|medium|large|modern|perf> [Cxx ...]

Each sub-agent gets ONLY the text of one property (from properties.jsonl) and its own scratch git worktree
<base>/<Cxx> of /repo; nothing from /verif. Its deliverables land in <base>/<Cxx>/_out/ and are ingested with
tools/ingest_seed2.sh (SEED_BASE=<base>) or tools/ingest_neutral.sh (NEUT_BASE=<base>). The worktrees are removed
afterwards with `git -C /repo worktree remove --force <dir>`.
"""
import json, os, subprocess, sys

HEAD = '''You work ONLY inside the scratch git worktree @BASE@/@ID@ (a checkout of the Go library github.com/free5gc/ike: IKEv2 message codec, EAP/EAP-AKA' payloads, IKE/Child SA key derivation). Do not touch /repo, /verif or any other directory, do not read anything under /verif, never use `git stash`, `git checkout` of other branches, or `git worktree` commands (other worktrees of the same repository are in use by other people; to undo your change use `git diff > p.diff; git apply -R p.diff`).

Every shell call must start with: export GOFLAGS=-mod=mod GOPROXY=off GOSUMDB=off GOTOOLCHAIN=local
(the sandbox is offline). The existing test suite is run with: go test -vet=off -count=1 ./...

Here is one semantic property that users of this library rely on (JSON; "anchors" point at the code it lives in):

@PROP@
'''

SEED = '''You are helping to evaluate a verification effort by playing the role of a developer who introduces a subtle regression. ''' + HEAD + '''
Your task: produce TWO independent, realistic changes to the library's non-test source (call them A and B), each of which BREAKS the property above.
@FLAVOUR@
Each change on its own must
  1. BREAK the property for some input / configuration / history inside the property's quantifier,
  2. still compile (go build ./...) and keep the ENTIRE existing test suite passing (go test -vet=off -count=1 ./...),
  3. look like something a maintainer could plausibly commit (a refactoring, optimisation, "fix", clean-up or feature), not an obvious sabotage, and be small to moderate (a few lines to ~40 lines),
  4. need something specific to manifest (a particular input shape, configuration, or sequence), so that ordinary usage and the existing tests do not show it.

For each change also write a demonstration: a new Go test file (name it zz_demo_a_test.go / zz_demo_b_test.go, in the package where it is most natural) that FAILS with the change applied and PASSES on the unchanged tree. The demo must not modify existing files.

Work one change at a time: make change A, verify (build, whole suite passes without your demo test, demo fails with it; then undo the change with git apply -R and confirm the demo passes on the unchanged tree), save the deliverables, undo the change completely, then do the same for B starting from the unchanged tree.

Deliverables, in @BASE@/@ID@/_out/ (create it):
  a/patch.diff   - `git diff` of the library change A only (no test files), relative to the unchanged tree
  a/zz_demo_a_test.go - the demo test;  a/DEMO_PATH.txt - the repo-relative path where it has to be placed (e.g. message/zz_demo_a_test.go)
  a/NOTES.md     - what the change is, why it breaks the property, a section headed "## What is needed for it to manifest", and the commands you ran with their results
  b/...          - the same for change B
At the end leave the worktree with NO change applied (git diff empty; untracked files under _out are fine; remove demo tests from the tree).
Reply with a short summary of both changes (at most 12 lines).
'''

FLAVOURS = {
    "unusual": '''Make them UNUSUAL: avoid the most obvious ways of breaking this property (an off-by-one in the central bounds check, a swapped key, a dropped Reset, a wrong mask, an over-eager validation that rejects a legal input). Think instead of: a change in a function only indirectly involved (a callee, a constructor, a registry table, an accessor, a String method, a type conversion helper); a change that is correct for every case but one rarely used configuration; an interaction between two features; a refactoring that moves work into a helper function and loses something on the way; a change of data representation (slice vs array, pointer vs value, map iteration); a state that survives from one call to the next; integer width or sign changes; a condition whose two arms were swapped only for one payload type.''',
    "coordinated": '''Flavour for this property: COORDINATED changes. The property compares the library against an external reference (an RFC layout, an independently written implementation, a mathematical definition). Prefer changes that touch BOTH sides of an internal pair consistently (encoder and decoder, sender and receiver, key producer and key consumer, setter and getter), so that the library still agrees with ITSELF (its own round trips and self-consistency checks keep working) while it no longer agrees with the external reference. At least one of A, B must be of this coordinated kind; the other may be anything unusual.''',
    "disguised": '''Flavour for this property: COMPOSITE or DISGUISED changes. Prefer a change that is hidden inside a larger, mostly behaviour-preserving refactoring (renaming, extracting helpers, restructuring control flow, changing loop forms, replacing append by pre-sized buffers, introducing small types) of the anchored code, where exactly one detail of the refactoring is wrong. The diff may therefore be up to ~60 lines, of which only a line or two matter. At least one of A, B must be of this disguised kind; the other may be anything unusual.''',
    "feature": '''Flavour for this property: FEATURE or ROBUSTNESS work gone wrong. Change A should ADD something a maintainer might really be asked for (support for one more algorithm / key size / payload or attribute type / option / error message detail / convenience accessor / performance shortcut / defensive limit), implemented so that existing behaviour INSIDE the property's quantifier is damaged in some corner: an existing case now takes the new path, a shared table or helper was generalised wrongly, a limit was chosen too small or too large, a default changed. Change B should touch code that is NOT named in the anchors but that the anchored code depends on (a helper, a type's method, a constant, a table, an init function, a sibling payload's code that is shared) and break the property from there. The diff may be up to ~60 lines.''',
}

FLAVOURS["subtle"] = '''Flavour for this property: SMALL and SEMANTICALLY SUBTLE. Each change is 1-6 changed lines and hinges on a language or library subtlety rather than on an obviously wrong check: a comparison operator or its operand order; an integer type, width, sign or conversion placed one step too early or too late; slice length versus capacity, a three-index slice dropped or added, append onto a slice that shares its backing array, a buffer or hash object reused across calls or iterations; a shadowed variable (:= instead of =) so that an outer result or error is not the one checked; an early return or continue that skips a later state update; a defer or Unlock moved; a loop bound or step; copy() with a destination that is too short; two statements swapped that have a hidden dependency; a switch default or fallthrough; nil versus empty slice or map; a value receiver where a pointer receiver was needed (or a range variable copied); a map that is now iterated where order matters. Do NOT touch the line that most obviously implements the property.'''

FLAVOURS["modern"] = '''Flavour for this property: a MODERNISING refactoring with ONE wrong detail. Each change rewrites a piece of the anchored code (or of code it depends on) the way a maintainer tidying it up would - a local closure replacing repeated statements; a table or map of constants / constructors replacing a switch; a loop over a small table replacing written-out statements; a generic helper; named results with a single exit; binary.BigEndian.AppendUint16/32 or explicit appends replacing PutUint16 into a pre-sized buffer (or the other way round); a struct literal replacing field-by-field assignment; guard clauses replacing nested ifs; a helper method extracted - and is behaviour-preserving EXCEPT for exactly one detail that breaks the property: one table entry, one captured variable updated at the wrong moment, one constant, one offset, one dropped or swapped statement, one condition inverted for one case, an early return that skips something. 20-60 changed lines of which one or two matter.'''

FLAVOURS["perf"] = '''Flavour for this property: a PERFORMANCE or ALLOCATION optimisation with ONE wrong detail. Each change rewrites a piece of the anchored code (or of code it depends on) the way a maintainer chasing allocations and copies would - a two-pass encoder that first adds up the size and then fills one pre-sized buffer at a running offset; a decoder that walks the input with an integer offset instead of re-slicing; a scratch buffer, hash object or cipher object kept and reused across iterations or calls; append onto a caller-supplied or shared slice instead of a fresh one; a sub-slice of the input kept instead of a copy; copy() with computed bounds; a map replaced by a small sorted slice or an array indexed by type; a length computed once and cached; an early exit for the common case; loop fusion - and is behaviour-preserving EXCEPT for exactly one detail that breaks the property: a size or offset that is off in one case, a reused buffer that still holds old octets, an alias that should have been a copy, a cached value that goes stale, the early exit taken in one case too many. 15-60 changed lines of which one or two matter.'''

FLAVOURS["edge"] = '''Flavour for this property: wrong only AT AN EDGE of the property's quantifier. Read the quantifier carefully and list its extremes: empty and single-element lists, the first and the last element, zero-length and maximum-length byte strings (255 / 256 / 65535 / 65536 octets), the smallest and largest value of every integer field (0, 1, 127/128, 255, 2^15, 2^16-1), the smallest and largest algorithm / key size, exact multiples of a block or hash size versus one more or one less, the first call versus a later call on the same object, a value equal to a limit versus just below it. Each change must behave exactly like the original everywhere EXCEPT at one such extreme (or one combination of two), where it breaks the property - an inclusive bound made exclusive or the reverse, a special case added or removed for zero / empty / last, a narrower integer type that holds every value but the largest, a division or modulo that misbehaves for exact multiples, a loop that stops one short, an early return for the "trivial" case that is not trivial. 1-15 changed lines. Do not pick the extreme that the existing tests exercise.'''

FLAVOURS["history"] = '''Flavour for this property: wrong only for a particular HISTORY or SEQUENCE of calls. Each change must give exactly the original result whenever an object is used once, freshly constructed - and break the property only on a second or later use, or for a particular order of calls: an object (message, container, header, SA key object, hash / cipher object, EAP packet, attribute map, builder target) that is decoded into, encoded, protected, or set TWICE; decoding into a struct that already holds data from an earlier decode; encoding after a decode versus after construction; a setter called again with a smaller or larger value; two SAs or two messages built from the same input slices; a derived field or cache that is not recomputed; a slice that is extended in place the second time; a Reset that is missing or in the wrong place so that the first use is right and the next one is not; an error on one call that leaves the object half-updated for the next. The existing tests construct fresh objects nearly everywhere, so such changes keep them green. 1-25 changed lines. State clearly in NOTES.md the shortest sequence of calls that shows the break.'''

FLAVOURS["cooperating"] = '''Flavour for this property: change A consists of TWO COOPERATING SITES that each look fine alone. It has two hunks in different functions (or files): a helper and one of its callers, a constructor and a consumer of the constructed object, a constant / table and the code that uses it, a setter and a getter, a producer of a slice and the code that keeps it. Each hunk taken by itself is behaviour-preserving (or even an improvement) - e.g. a helper now returns a sub-slice of its argument "because every caller copies anyway" and, elsewhere, one caller drops its "redundant" copy; a length check is moved from the callee into the callers and one caller is forgotten; a default is changed in a constructor and a consumer still assumes the old one; a field becomes lazily initialised and one reader bypasses the accessor; an error is now reported through a second return value and one caller ignores it - and only the combination breaks the property. Say in NOTES.md why each hunk alone is harmless. Change B manifests only under a FAULT or a particular INTERLEAVING, if the property admits one: the random source or a callee failing at a particular point, an error path that leaves an object half-updated or returns a nil error together with a partial result, a failed verification after which state was already modified, a recover() that swallows something, two goroutines using independent objects that now share something hidden (a package-level scratch buffer, cache, sync.Pool entry, lazily initialised table, a hash object stored in a registry). If the property admits neither, make B a second two-site change. 4-40 changed lines each.'''

FLAVOURS["stdlib"] = '''Flavour for this property: a LIBRARY CALL swapped for a NEAR-EQUIVALENT. Each change replaces (or introduces) a call into the Go standard library or into github.com/pkg/errors by another one that a maintainer would consider equivalent or better, and that IS equivalent except in a corner which breaks the property: io.ReadFull versus Read / io.ReadAtLeast / bufio Peek+Discard; rand.Read versus io.ReadFull(rand.Reader) versus rand.Int versus math/rand; big.Int.Bytes versus FillBytes versus Text/SetString; bytes.Equal versus hmac.Equal versus subtle.ConstantTimeCompare versus bytes.Compare versus bytes.HasPrefix; append versus copy versus bytes.Buffer versus bytes.Clone / slices.Clone / slices.Grow / slices.Concat; sort.Slice versus sort.SliceStable versus slices.Sort versus a map range; binary.BigEndian.PutUintN / UintN versus binary.Write / binary.Read versus AppendUintN versus LittleEndian or a different width; hash.Hash.Sum(nil) versus Sum(buf) versus sha256.Sum256; hmac.New kept and Reset versus created anew; strings / bytes conversion helpers (TrimRight, Trim, Fields, ToLower, EqualFold, utf8 handling) applied to octet strings; errors.Wrap / Wrapf / WithMessage / fmt.Errorf / errors.Join on a possibly nil error; strconv / fmt formatting used to build a registry key; copy-on-assign of arrays versus slices; min / max / clear builtins. The diff should look like a modernisation or simplification commit (2-25 changed lines); say in NOTES.md exactly which documented difference between the two calls is responsible.'''

FLAVOURS["decl"] = '''Flavour for this property: the change is in a DECLARATION, not in the anchored function's statements. Do not edit a single statement inside the function(s) the property is anchored in. Break the property from a distance, through something those functions depend on: the value of a constant or the order of an iota block; the type, width or signedness of a struct field, of a named type or of a constant; the size of an array type; an entry of a package-level table, map or registry (a key, a length, a priority, a constructor stored under the wrong key, two entries swapped); what an init() function registers, and in which order; the method set of a type (value versus pointer receiver, a method added or removed so that a type switch or interface assertion now goes another way, an embedded type); the zero value or default a constructor in ANOTHER file fills in; a package-level variable that becomes shared where each call had its own; a small helper in another file or package that the anchored code calls (its result for one input, its handling of nil or empty, whether it copies). The diff should read like a tidy-up of declarations (renumbering, re-typing, re-ordering, de-duplicating a table, making a helper "more general"). 1-20 changed lines. NOTES.md must give the chain from the changed declaration to the property's behaviour.'''

FLAVOURS["regress"] = '''Flavour for this property: a REGRESSION OF SOMETHING THAT WAS FIXED BEFORE, or its ANALOGUE IN A SIBLING. Run `git log --oneline -25` and `git show <commit>` for the commits whose message starts with "fix:" - each repaired a defect of this library (an index or slice past the end, 8- or 16-bit wrap-around in a length check, a mask one bit too narrow, a value never stored, reserved bits not ignored, attributes not consumed, padding kept, a stride that disagrees with the encoder, a truncated message accepted). Change A must bring one of these defects back IN PART - for a narrower set of inputs than the original defect, through a different expression than the one the fix touched (for instance by changing the type of a variable the fixed check relies on, by moving the check behind an early exit, by recomputing the checked quantity slightly differently afterwards, by "simplifying" two checks into one that is weaker for one combination), so that the tests added with the fix (if any) and the rest of the suite still pass. Change B must introduce the ANALOGOUS defect in a sibling that was never affected (another payload type, the encoder instead of the decoder, the Child SA path instead of the IKE SA path, the responder arm instead of the initiator arm, another EAP-AKA' attribute), again only for a narrow input class. If no fix commit is related to this property at all, derive both changes from the fix that is closest in kind. 2-30 changed lines each; NOTES.md must name the fix commit the change is derived from.'''

NEUTRAL_SMALL = '''You are helping to evaluate a verification effort by playing the role of a careful maintainer who REFACTORS code without changing behaviour. ''' + HEAD + '''
Your task: produce FOUR independent, realistic, BEHAVIOUR-PRESERVING changes (call them a, b, c, d) to the library's non-test source inside the code this property is anchored in. Each change on its own must
  1. leave the property above TRUE for every input / configuration / history in its quantifier (be strict about this: no change of any observable result, error/no-error outcome, or state for in-domain inputs; and no new crash on out-of-domain input either),
  2. compile and keep the entire existing test suite passing,
  3. be something a maintainer would plausibly commit, of moderate size (5-40 changed lines), and the four changes must be of DIFFERENT kinds, chosen from e.g.: renaming locals / parameters; extracting a helper function or inlining one; replacing an if/else chain by a switch (or vice versa); restructuring early returns; reordering independent statements; introducing intermediate variables; replacing binary.BigEndian calls by manual shifts (or vice versa); widening a narrow integer type to int in a correct way; replacing append-based buffer building by a pre-sized buffer with copy (or vice versa); adding a defensive check that can never fire for valid inputs and returns an error otherwise; hoisting a repeated sub-expression; changing a for-range into an index loop; replacing a magic number by a named constant; moving code between files of the same package.
Avoid purely cosmetic edits (comments, whitespace) - the syntax tree of the functions involved must actually change.
''' + '''
For each change write a short argument why behaviour is preserved, and a small Go test file (zz_neutral_<x>_test.go in the natural package) that exercises the changed code on a few representative inputs and passes both with and without the change (this is a sanity check, not a proof).

Work one change at a time, starting each from the unchanged tree: make the change, run go build ./... and the whole suite, run your sanity test with and without the change, save the deliverables, then undo the change completely (git apply -R) before the next one.

Deliverables, in @BASE@/@ID@/_out/ (create it), one directory per change (@DIRS@), each with:
  patch.diff  - `git diff` of the library change only (no test files), relative to the unchanged tree
  the sanity test file, and DEMO_PATH.txt with the repo-relative path where it has to be placed
  NOTES.md    - what kind of change it is, which functions it touches, and the argument for behaviour preservation
At the end leave the worktree with NO change applied (git diff empty; remove your test files from the tree; _out may stay).
Reply with a short summary of the changes (at most 15 lines).
'''

NEUTRAL_MEDIUM = NEUTRAL_SMALL.replace(
    "Your task: produce FOUR independent, realistic, BEHAVIOUR-PRESERVING changes (call them a, b, c, d)",
    "Your task: produce THREE independent, realistic, BEHAVIOUR-PRESERVING changes (call them g, h, i)").replace(
    "of moderate size (5-40 changed lines), and the four changes must be of DIFFERENT kinds, chosen from e.g.:",
    "of medium size (20-70 changed lines), each touching a DIFFERENT function or file of the anchored code than the other two (prefer code that is less obviously central: accessors, constructors, String methods, sibling payloads, registries, error paths), and of DIFFERENT kinds, each combining two or three of e.g.:")

NEUTRAL_MODERN = NEUTRAL_SMALL.replace(
    "Your task: produce FOUR independent, realistic, BEHAVIOUR-PRESERVING changes (call them a, b, c, d)",
    "Your task: produce THREE independent, realistic, BEHAVIOUR-PRESERVING changes (call them j, k, l)").replace(
    "of moderate size (5-40 changed lines), and the four changes must be of DIFFERENT kinds, chosen from e.g.:",
    "of medium size (15-60 changed lines), each in a DIFFERENT function or file of the anchored code (at least one of them in code the anchors reach only indirectly: a callee, a constructor, an accessor, an init function, a registry), written the way a maintainer MODERNISING or HARDENING the code would: e.g. named result parameters with a single exit; a small closure or local helper function replacing repeated statements; a generic helper (Go 1.21) for repeated slice / map handling; bytes.Buffer / binary.Write replaced by explicit appends (or the other way round); errors wrapped differently but with the same nil / non-nil outcome; defer used for a cleanup that was written out on each path; a struct literal instead of field-by-field assignment (or vice versa); a table or map of constants replacing a switch (or vice versa); guard clauses instead of nested ifs; an extra defensive check that can never fire for valid inputs and returns an error otherwise; loop fusion or fission; an explicit length or capacity pre-computation. Besides these you may still use:")

NEUTRAL_PERF = NEUTRAL_SMALL.replace(
    "Your task: produce FOUR independent, realistic, BEHAVIOUR-PRESERVING changes (call them a, b, c, d)",
    "Your task: produce THREE independent, realistic, BEHAVIOUR-PRESERVING changes (call them q, r, s)").replace(
    "of moderate size (5-40 changed lines), and the four changes must be of DIFFERENT kinds, chosen from e.g.:",
    "of medium size (15-60 changed lines), each in a DIFFERENT function or file of the anchored code, written the way a maintainer REDUCING ALLOCATIONS AND COPIES would, e.g.: a two-pass encoder that first adds up the size and then fills one pre-sized buffer at a running offset (or appends onto one buffer with the right capacity); a decoder that walks the input with an integer offset instead of re-slicing it (or the other way round); explicit index arithmetic instead of temporary sub-slices; a local scratch array instead of a heap slice; a length or key computed once and reused; copy() with computed bounds instead of append; a small array or sorted slice instead of a map where the key space is tiny; loop fusion; an early exit for the common case that returns exactly what the general path would; strings.Builder / strconv instead of fmt for a String method. Ownership must stay as it is: whatever the original copied must still be copied, whatever was fresh must still be fresh, nothing new may be shared between calls. Besides these you may still use:")

NEUTRAL_ADDITIVE = NEUTRAL_SMALL.replace(
    "Your task: produce FOUR independent, realistic, BEHAVIOUR-PRESERVING changes (call them a, b, c, d)",
    "Your task: produce THREE independent, realistic, BEHAVIOUR-PRESERVING changes (call them t, u, v)").replace(
    "of moderate size (5-40 changed lines), and the four changes must be of DIFFERENT kinds, chosen from e.g.:",
    "of medium size (10-60 changed lines), each in a DIFFERENT function or file of the anchored code (or of code it calls), of the kind a maintainer doing FEATURE or HARDENING work nearby would commit WITHOUT changing anything the property talks about: t = ADDITIVE work (a new exported accessor / Clone / Equal / Validate / String method or a new helper next to the anchored code, which existing code starts to use where it is exactly equivalent; a new optional parameter object or functional option whose default reproduces today's behaviour; extra detail in error messages or wrapped errors with the same nil / non-nil outcome; new named constants or typed enums for magic numbers; splitting a file or moving a type with its methods); u = HARDENING outside the property's quantifier (a stricter check that rejects only inputs the property does not quantify over, returning an error where the code used to misbehave or accept garbage; an explicit nil / empty / overflow guard before work that would have failed anyway with an error; bounds made explicit before an index) - be careful that nothing inside the quantifier is rejected; v = a clean-up of your choice that a code reviewer asked for (dead code and unused parameters removed, duplicated code between two sibling payloads unified in a shared unexported helper, receiver or variable names made consistent, a long function split in two, error variables declared once). Besides these you may still use:")

NEUTRAL_LARGE = NEUTRAL_SMALL.replace(
    "Your task: produce FOUR independent, realistic, BEHAVIOUR-PRESERVING changes (call them a, b, c, d)",
    "Your task: produce TWO independent, realistic, BEHAVIOUR-PRESERVING changes (call them e and f)").replace(
    "of moderate size (5-40 changed lines), and the four changes must be of DIFFERENT kinds, chosen from e.g.:",
    "and LARGE: each a genuine restructuring of 40-120 changed lines that COMBINES several of the following kinds in one commit (as a maintainer tidying a whole function or file would), the two restructurings going in different directions (for instance one table-driven / helper-extracting, the other flattening and inlining):")


def main():
    kind, base, flavour = sys.argv[1], sys.argv[2], sys.argv[3]
    ids = sys.argv[4:] or ["C%02d" % i for i in range(1, 21)]
    props = {}
    for l in open("/verif/properties.jsonl"):
        d = json.loads(l)
        props[d["id"]] = d
    os.makedirs(base, exist_ok=True)
    coordset = {"C05", "C06", "C07", "C08", "C09", "C10", "C11", "C14", "C15", "C16", "C19"}
    for pid in ids:
        wt = os.path.join(base, pid)
        if not os.path.exists(wt):
            subprocess.run(["git", "-C", "/repo", "worktree", "add", "-q", "--detach", wt, "HEAD"], check=True)
        if kind == "seed":
            fl = flavour
            if flavour == "mixed":
                fl = "coordinated" if pid in coordset else "disguised"
            txt = SEED.replace("@FLAVOUR@", FLAVOURS[fl])
        else:
            txt = {"small": NEUTRAL_SMALL, "medium": NEUTRAL_MEDIUM, "large": NEUTRAL_LARGE, "modern": NEUTRAL_MODERN, "perf": NEUTRAL_PERF, "additive": NEUTRAL_ADDITIVE}[flavour]
            txt = txt.replace("@DIRS@", {"small": "a, b, c, d", "medium": "g, h, i", "large": "e, f", "modern": "j, k, l", "perf": "q, r, s", "additive": "t, u, v"}[flavour])
        txt = txt.replace("@BASE@", base).replace("@ID@", pid).replace("@PROP@", json.dumps(props[pid], indent=1))
        open(os.path.join(base, pid + ".prompt.txt"), "w").write(txt)
    print("prepared", len(ids), "worktrees and prompts under", base)


if __name__ == "__main__":
    main()
