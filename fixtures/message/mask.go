// Package message (fixture): bit-provenance miniatures, see ../fix.
package message

import (
	"encoding/binary"
	"errors"
)

// ---- bit provenance ----

type rec struct {
	Kind  uint8
	Value uint16
}

func MustMask_7f(b []byte) (r rec, err error) {
	if len(b) < 2 {
		return r, errors.New("short")
	}
	r.Value = binary.BigEndian.Uint16(b[0:2]) & 0x7f
	return r, nil
}

func MustMask_7fff(b []byte) (r rec, err error) {
	if len(b) < 2 {
		return r, errors.New("short")
	}
	r.Value = binary.BigEndian.Uint16(b[0:2]) & 0x7fff
	return r, nil
}
