// Package eap (fixture): miniatures for the declaration-level rules added in rounds 14-15 (a decoder that skips a
// piece of its input silently, a setter on a copy of its receiver, a String method that re-enters itself through
// fmt). Flag* types must be reported by the rule, Pass* types must not.
package eap

import (
	"errors"
	"fmt"
	"io"

	pkgerrors "github.com/pkg/errors"
)

type FlagSkip struct{ Data []byte }

func (p *FlagSkip) Unmarshal(b []byte) error {
	if len(b) > 2 {
		p.Data = append(p.Data, b[1:]...)
	}
	return nil
}

type PassSkip struct{ Data []byte }

func (p *PassSkip) Unmarshal(b []byte) error {
	if len(b) > 1 {
		p.Data = append(p.Data, b[1:]...)
	}
	return nil
}

type FlagRecv struct{ m map[int]int }

func (p FlagRecv) Set(k, v int) {
	if p.m == nil {
		p.m = map[int]int{}
	}
	p.m[k] = v
}

type PassRecv struct{ m map[int]int }

func (p *PassRecv) Set(k, v int) {
	if p.m == nil {
		p.m = map[int]int{}
	}
	p.m[k] = v
}

type FlagFmt uint8

func (t FlagFmt) String() string { return fmt.Sprintf("type %v", t) }

type PassFmt uint8

func (t PassFmt) String() string { return fmt.Sprintf("type %d", t) }

// ---- io.ReadFull: success only behind a test that the read was complete ----

func FlagRead(r io.Reader) ([]byte, error) {
	buf := make([]byte, 2)
	for i := 0; i < 1; i++ {
		_, err := io.ReadFull(r, buf)
		if err != nil {
			if err == io.EOF {
				break // leaves the loop only: the half-read buffer is returned as a success
			}
			return nil, err
		}
	}
	return buf, nil
}

func PassRead(r io.Reader) ([]byte, error) {
	buf := make([]byte, 2)
	n, err := io.ReadFull(r, buf)
	if n != 2 {
		return nil, errors.New("short")
	}
	if err != nil {
		return nil, err
	}
	return buf, nil
}

// ---- a wrapper applied to an error that is nil there ----

func FlagWrap(n int) error {
	var err error
	if n > 3 {
		return pkgerrors.Wrapf(err, "too long: %d", n)
	}
	return nil
}

func PassWrap(n int, f func() error) error {
	if err := f(); err != nil {
		return pkgerrors.Wrapf(err, "step %d", n)
	}
	return nil
}
