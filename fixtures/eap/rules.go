// Package eap (fixture): miniatures for the declaration-level rules added in rounds 14-15 (a decoder that skips a
// piece of its input silently, a setter on a copy of its receiver, a String method that re-enters itself through
// fmt). Flag* types must be reported by the rule, Pass* types must not.
package eap

import "fmt"

type FlagSkip struct{ Data []byte }

func (p *FlagSkip) Unmarshal(b []byte) error {
	if len(b) > 2 {
		p.Data = append(p.Data, b[1:]...)
	}
	return nil
}

type PassSkip struct{ Data []byte }

func (p *PassSkip) Unmarshal(b []byte) error {
	if len(b) > 1 {
		p.Data = append(p.Data, b[1:]...)
	}
	return nil
}

type FlagRecv struct{ m map[int]int }

func (p FlagRecv) Set(k, v int) {
	if p.m == nil {
		p.m = map[int]int{}
	}
	p.m[k] = v
}

type PassRecv struct{ m map[int]int }

func (p *PassRecv) Set(k, v int) {
	if p.m == nil {
		p.m = map[int]int{}
	}
	p.m[k] = v
}

type FlagFmt uint8

func (t FlagFmt) String() string { return fmt.Sprintf("type %v", t) }

type PassFmt uint8

func (t PassFmt) String() string { return fmt.Sprintf("type %d", t) }
