module github.com/free5gc/ike

go 1.21
