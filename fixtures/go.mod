module github.com/free5gc/ike

go 1.21

require github.com/pkg/errors v0.9.1
