// Package fix holds miniature must-flag / must-pass functions for the engines of ikelint.
// It is analysed (never executed) by `ikelint -selftest` on every run: a rule that no longer fires
// on its must-flag miniature, or fires on its must-pass miniature, makes the run fail (exit 2).
package fix

import (
	"crypto/hmac"
	"crypto/sha256"
	"encoding/binary"
	"hash"
)

// ---- E2: bounds ----

// narrow arithmetic wraps: 4+n is computed in uint8
func MustFlag_bounds_slice_wrap(b []byte) []byte {
	if len(b) < 4 {
		return nil
	}
	n := b[1]
	if len(b) < int(4+n) {
		return nil
	}
	return b[4 : 4+n]
}

func MustPass_bounds_slice_int(b []byte) []byte {
	if len(b) < 4 {
		return nil
	}
	n := int(b[1])
	if len(b) < 4+n {
		return nil
	}
	return b[4 : 4+n]
}

func MustFlag_bounds_index_empty(b []byte) byte {
	return b[0]
}

func MustPass_bounds_index_guarded(b []byte) byte {
	if len(b) == 0 {
		return 0
	}
	return b[0]
}

func MustFlag_ext_pre_uint16(b []byte) uint16 {
	if len(b) < 1 {
		return 0
	}
	return binary.BigEndian.Uint16(b)
}

func MustPass_ext_pre_uint16(b []byte) uint16 {
	if len(b) < 2 {
		return 0
	}
	return binary.BigEndian.Uint16(b[0:2])
}

// step loop reading past the end
func MustFlag_bounds_slice_loop(b []byte) (out []uint32) {
	for i := 0; i < len(b); i += 4 {
		out = append(out, binary.BigEndian.Uint32(b[i:i+4]))
	}
	return out
}

func MustPass_bounds_slice_loop(b []byte) (out []uint32) {
	for i := 0; i+4 <= len(b); i += 4 {
		out = append(out, binary.BigEndian.Uint32(b[i:i+4]))
	}
	return out
}

// cursor that may not advance
func MustFlag_term_loop_cursor(b []byte) int {
	n := 0
	for len(b) > 0 {
		if len(b) < 2 {
			return n
		}
		l := int(binary.BigEndian.Uint16(b[0:2]))
		if len(b) < l {
			return n
		}
		b = b[l:]
		n++
	}
	return n
}

func MustPass_term_loop_cursor(b []byte) int {
	n := 0
	for len(b) > 0 {
		if len(b) < 2 {
			return n
		}
		l := int(binary.BigEndian.Uint16(b[0:2]))
		if l < 2 || len(b) < l {
			return n
		}
		b = b[l:]
		n++
	}
	return n
}

func MustFlag_hygiene_cap(b []byte) int { return cap(b) }

func MustFlag_hygiene_cap_append(b []byte) []byte { return append(b, 0) }

func MustFlag_arith_div(b []byte) int {
	if len(b) < 1 {
		return 0
	}
	return 100 / int(b[0])
}

func MustFlag_panic_explicit(b []byte) {
	if len(b) == 0 {
		panic("empty")
	}
}

type shape interface{ Kind() int }
type circle struct{}
type square struct{}

func (circle) Kind() int { return 1 }
func (square) Kind() int { return 2 }

func MustFlag_assert_type(s shape) circle { return s.(circle) }

func MustPass_assert_type(s shape) circle {
	if s.Kind() == 1 {
		return s.(circle)
	}
	return circle{}
}

// ---- typestate ----

type keyed struct{ h hash.Hash }

func MustFlagTypestate_write_without_reset(k *keyed, data []byte) []byte {
	k.h.Write(data)
	return k.h.Sum(nil)
}

func MustPassTypestate_reset_first(k *keyed, data []byte) []byte {
	k.h.Reset()
	k.h.Write(data)
	return k.h.Sum(nil)
}

func MustPassTypestate_fresh(key, data []byte) []byte {
	h := hmac.New(sha256.New, key)
	h.Write(data)
	return h.Sum(nil)
}

// ---- alias ----

type holder struct {
	Data []byte
	Copy []byte
}

func MustFlagAlias_store_input(h *holder, b []byte) {
	if len(b) < 2 {
		return
	}
	h.Data = b[1:]
}

func MustPassAlias_copy_input(h *holder, b []byte) {
	h.Copy = append(h.Copy, b...)
}

func MustFlagAlias_write_input(b []byte) {
	if len(b) > 0 {
		b[0] = 0
	}
}

// ---- globals ----

var counter int
var table = map[string]int{}

func MustFlagGlobal_store() { counter++ }

func MustFlagGlobal_map(k string) { table[k] = 1 }

func MustPassGlobal_read(k string) int { return table[k] + counter }


// ---- E1 division facts, merge splitting, constant package-level tables ----

// n = len(b)/4 whole words, word i at b[4*i : 4*i+4]
func MustPass_bounds_slice_quotient(b []byte) (out []uint32) {
	n := len(b) / 4
	for i := 0; i < n; i++ {
		out = append(out, binary.BigEndian.Uint32(b[4*i:4*i+4]))
	}
	return out
}

// one word too many
func MustFlag_bounds_slice_quotient(b []byte) (out []uint32) {
	n := len(b)/4 + 1
	for i := 0; i < n; i++ {
		out = append(out, binary.BigEndian.Uint32(b[4*i:4*i+4]))
	}
	return out
}

// the address length chosen by a switch, the bounds computed from it (xt/ssa/split.go)
func MustPass_bounds_slice_switchlen(b []byte) []byte {
	if len(b) < 1 {
		return nil
	}
	var n int
	switch b[0] {
	case 7:
		n = 4
	case 8:
		n = 16
	default:
		return nil
	}
	if len(b) < 8+2*n {
		return nil
	}
	return b[8+n : 8+2*n]
}

func MustFlag_bounds_slice_switchlen(b []byte) []byte {
	if len(b) < 1 {
		return nil
	}
	var n int
	switch b[0] {
	case 7:
		n = 4
	case 8:
		n = 16
	default:
		return nil
	}
	if len(b) < 8+n {
		return nil
	}
	return b[8+n : 8+2*n]
}

type fixLayout struct {
	addrLen int
	total   int
}

// a constant package-level table consulted by the decoder (xt/ssa/consttab.go)
var fixLayouts = map[uint8]fixLayout{
	7: {addrLen: 4, total: 16},
	8: {addrLen: 16, total: 40},
}

func MustPass_bounds_slice_tablelen(b []byte) []byte {
	if len(b) < 1 {
		return nil
	}
	l, ok := fixLayouts[b[0]]
	if !ok {
		return nil
	}
	if len(b) < l.total {
		return nil
	}
	return b[8+l.addrLen : l.total]
}

// the same decoder over a table that is written elsewhere is not decided by the table's literal
var fixLayoutsMutable = map[uint8]fixLayout{
	7: {addrLen: 4, total: 16},
}

func FixSetLayout(k uint8, l fixLayout) { fixLayoutsMutable[k] = l }

func MustFlag_bounds_slice_tablelen(b []byte) []byte {
	if len(b) < 1 {
		return nil
	}
	l, ok := fixLayoutsMutable[b[0]]
	if !ok {
		return nil
	}
	if len(b) < l.total {
		return nil
	}
	return b[8+l.addrLen : l.total]
}

// ---- closures folded back into their caller (xt/ssa/inline.go) ----

func MustPass_bounds_slice_closurecut(b []byte) [][]byte {
	if len(b) < 12 {
		return nil
	}
	rest := b
	next := func(n int) []byte {
		k := rest[:n]
		rest = rest[n:]
		return k
	}
	return [][]byte{next(4), next(8)}
}

func MustFlag_bounds_slice_closurecut(b []byte) [][]byte {
	if len(b) < 10 {
		return nil
	}
	rest := b
	next := func(n int) []byte {
		k := rest[:n]
		rest = rest[n:]
		return k
	}
	return [][]byte{next(4), next(8)}
}

// ---- an integer offset that walks the input, advanced through intermediate values (xt/ssa/cursor.go) ----

func MustPass_bounds_slice_offsetwalk(b []byte) [][]byte {
	var out [][]byte
	offset := 0
	for offset < len(b) {
		remaining := len(b) - offset
		if remaining < 4 {
			return nil
		}
		n := int(b[offset+2])<<8 | int(b[offset+3])
		if remaining < 4+n {
			return nil
		}
		start := offset + 4
		end := start + n
		out = append(out, b[start:end])
		offset = end
	}
	return out
}

func MustFlag_bounds_slice_offsetwalk(b []byte) [][]byte {
	var out [][]byte
	offset := 0
	for offset < len(b) {
		remaining := len(b) - offset
		if remaining < 4 {
			return nil
		}
		n := int(b[offset+2])<<8 | int(b[offset+3])
		if remaining < n {
			return nil
		}
		start := offset + 4
		end := start + n
		out = append(out, b[start:end])
		offset = end
	}
	return out
}

// ---- a guard that is a disjunction: either there is nothing to read or the element size is the one read ----

func MustPass_bounds_index_disjguard(b []byte) []uint32 {
	if len(b) <= 3 {
		return nil
	}
	size := b[1]
	n := uint16(b[2])<<8 | uint16(b[3])
	if len(b) < 4+int(size)*int(n) {
		return nil
	}
	if n > 0 && size != 4 {
		return nil
	}
	b = b[4:]
	var out []uint32
	for i := 0; i < int(n); i++ {
		out = append(out, uint32(b[4*i])<<24|uint32(b[4*i+3]))
	}
	return out
}

func MustFlag_bounds_index_disjguard(b []byte) []uint32 {
	if len(b) <= 3 {
		return nil
	}
	size := b[1]
	n := uint16(b[2])<<8 | uint16(b[3])
	if len(b) < 4+int(size)*int(n) {
		return nil
	}
	if n > 1 && size != 4 {
		return nil
	}
	b = b[4:]
	var out []uint32
	for i := 0; i < int(n); i++ {
		out = append(out, uint32(b[4*i])<<24|uint32(b[4*i+3]))
	}
	return out
}

// ---- an inner offset that starts where the enclosing record's fixed part ends (induction with a variable first value) ----

func MustPass_bounds_slice_nestedwalk(b []byte) [][]byte {
	var out [][]byte
	for rec := 0; rec < len(b); {
		if len(b)-rec < 4 {
			return nil
		}
		recLen := int(b[rec+2])<<8 | int(b[rec+3])
		if recLen < 4 || len(b)-rec < recLen {
			return nil
		}
		recEnd := rec + recLen
		for pos := rec + 4; pos < recEnd; {
			left := recEnd - pos
			if left < 2 {
				return nil
			}
			n := int(b[pos+1])
			if n < 2 || left < n {
				return nil
			}
			out = append(out, b[pos+2:pos+n])
			pos += n
		}
		rec = recEnd
	}
	return out
}

func MustFlag_bounds_slice_nestedwalk(b []byte) [][]byte {
	var out [][]byte
	for rec := 0; rec < len(b); {
		if len(b)-rec < 4 {
			return nil
		}
		recLen := int(b[rec+2])<<8 | int(b[rec+3])
		if recLen < 4 || len(b)-rec < recLen {
			return nil
		}
		recEnd := rec + recLen
		for pos := rec + 4; pos < recEnd; {
			left := recEnd - pos
			if left < 2 {
				return nil
			}
			n := int(b[pos+1])
			if n < 2 {
				return nil
			}
			out = append(out, b[pos+2:pos+n])
			pos += n
		}
		rec = recEnd
	}
	return out
}
