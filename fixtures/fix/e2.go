// Package fix holds miniature must-flag / must-pass functions for the engines of ikelint.
// It is analysed (never executed) by `ikelint -selftest` on every run: a rule that no longer fires
// on its must-flag miniature, or fires on its must-pass miniature, makes the run fail (exit 2).
package fix

import (
	"crypto/hmac"
	"crypto/sha256"
	"encoding/binary"
	"hash"
)

// ---- E2: bounds ----

// narrow arithmetic wraps: 4+n is computed in uint8
func MustFlag_bounds_slice_wrap(b []byte) []byte {
	if len(b) < 4 {
		return nil
	}
	n := b[1]
	if len(b) < int(4+n) {
		return nil
	}
	return b[4 : 4+n]
}

func MustPass_bounds_slice_int(b []byte) []byte {
	if len(b) < 4 {
		return nil
	}
	n := int(b[1])
	if len(b) < 4+n {
		return nil
	}
	return b[4 : 4+n]
}

func MustFlag_bounds_index_empty(b []byte) byte {
	return b[0]
}

func MustPass_bounds_index_guarded(b []byte) byte {
	if len(b) == 0 {
		return 0
	}
	return b[0]
}

func MustFlag_ext_pre_uint16(b []byte) uint16 {
	if len(b) < 1 {
		return 0
	}
	return binary.BigEndian.Uint16(b)
}

func MustPass_ext_pre_uint16(b []byte) uint16 {
	if len(b) < 2 {
		return 0
	}
	return binary.BigEndian.Uint16(b[0:2])
}

// step loop reading past the end
func MustFlag_bounds_slice_loop(b []byte) (out []uint32) {
	for i := 0; i < len(b); i += 4 {
		out = append(out, binary.BigEndian.Uint32(b[i:i+4]))
	}
	return out
}

func MustPass_bounds_slice_loop(b []byte) (out []uint32) {
	for i := 0; i+4 <= len(b); i += 4 {
		out = append(out, binary.BigEndian.Uint32(b[i:i+4]))
	}
	return out
}

// cursor that may not advance
func MustFlag_term_loop_cursor(b []byte) int {
	n := 0
	for len(b) > 0 {
		if len(b) < 2 {
			return n
		}
		l := int(binary.BigEndian.Uint16(b[0:2]))
		if len(b) < l {
			return n
		}
		b = b[l:]
		n++
	}
	return n
}

func MustPass_term_loop_cursor(b []byte) int {
	n := 0
	for len(b) > 0 {
		if len(b) < 2 {
			return n
		}
		l := int(binary.BigEndian.Uint16(b[0:2]))
		if l < 2 || len(b) < l {
			return n
		}
		b = b[l:]
		n++
	}
	return n
}

func MustFlag_hygiene_cap(b []byte) int { return cap(b) }

func MustFlag_hygiene_cap_append(b []byte) []byte { return append(b, 0) }

func MustFlag_arith_div(b []byte) int {
	if len(b) < 1 {
		return 0
	}
	return 100 / int(b[0])
}

func MustFlag_panic_explicit(b []byte) {
	if len(b) == 0 {
		panic("empty")
	}
}

type shape interface{ Kind() int }
type circle struct{}
type square struct{}

func (circle) Kind() int { return 1 }
func (square) Kind() int { return 2 }

func MustFlag_assert_type(s shape) circle { return s.(circle) }

func MustPass_assert_type(s shape) circle {
	if s.Kind() == 1 {
		return s.(circle)
	}
	return circle{}
}

// ---- typestate ----

type keyed struct{ h hash.Hash }

func MustFlagTypestate_write_without_reset(k *keyed, data []byte) []byte {
	k.h.Write(data)
	return k.h.Sum(nil)
}

func MustPassTypestate_reset_first(k *keyed, data []byte) []byte {
	k.h.Reset()
	k.h.Write(data)
	return k.h.Sum(nil)
}

func MustPassTypestate_fresh(key, data []byte) []byte {
	h := hmac.New(sha256.New, key)
	h.Write(data)
	return h.Sum(nil)
}

// ---- alias ----

type holder struct {
	Data []byte
	Copy []byte
}

func MustFlagAlias_store_input(h *holder, b []byte) {
	if len(b) < 2 {
		return
	}
	h.Data = b[1:]
}

func MustPassAlias_copy_input(h *holder, b []byte) {
	h.Copy = append(h.Copy, b...)
}

func MustFlagAlias_write_input(b []byte) {
	if len(b) > 0 {
		b[0] = 0
	}
}

// ---- globals ----

var counter int
var table = map[string]int{}

func MustFlagGlobal_store() { counter++ }

func MustFlagGlobal_map(k string) { table[k] = 1 }

func MustPassGlobal_read(k string) int { return table[k] + counter }

